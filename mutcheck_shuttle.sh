#!/bin/bash
# Evaluates a seeded defect against the shuttle engine of C17 without touching /repo:
#   ./mutcheck_shuttle.sh <patch.diff> [tier] [vote-shuttle|report-shuttle]
set -u
PATCH="$1"; TIER="${2:-quick}"; BIN="${3:-vote-shuttle}"
MR=/tmp/mutrepoS; MS=/tmp/mutshuttle
[ -d $MR ] || git -C /repo worktree add -q --detach $MR HEAD
git -C $MR checkout -q -- . && git -C $MR checkout -q --detach $(git -C /repo rev-parse HEAD)
git -C $MR apply "$PATCH" || { echo "patch does not apply"; exit 3; }
mkdir -p $MS
rsync -a --delete --exclude target /verif/shuttle/ $MS/shuttle/
grep -rl '/repo/' $MS/shuttle/Cargo.toml $MS/shuttle/src | xargs sed -i "s#\"/repo/#\"$MR/#g"
( cd $MS/shuttle && CARGO_TARGET_DIR=$MS/target cargo build --release --offline 2>&1 | grep -E "^error" -A8 | head -30 )
mkdir -p $MS/out
VERIF_ROOT=$MS/out $MS/target/release/$BIN "$TIER" 2>&1 | cut -c1-400
echo "exit=${PIPESTATUS[0]}"
git -C $MR checkout -q -- .
