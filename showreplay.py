#!/usr/bin/env python3
import json,sys
r=json.load(open(sys.argv[1]))
sc=r['scenario']
print("violation:", r['violation']['sig'], '::', r['violation']['detail'])
print("size", r.get('original_size'), '->', r.get('minimised_size'))
for k,v in sc.items():
    if k=='peers':
        for p in v:
            ops=p.pop('ops')
            print(' peer', p)
            for o in ops: print('    ', o)
    else: print(k, v)
print('\n'.join(r['log']))
