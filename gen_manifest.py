#!/usr/bin/env python3
"""Regenerates MANIFEST.json from the table below (kept next to the code so that it stays valid)."""
import json, subprocess

CLAIMED = {
 "C01": dict(level="exploration", ref="DESIGN.md §4 C01", technique="deterministic simulation (seeded schedule + fault search) of the real agent + runtime with scripted slow remotes; history oracle against the lane's recorded ground truth",
     text="Seeded search over schedules, remote speeds, buffer sizes and command/set histories on the real AgentModel + agent runtime; every run checks that each remote's value events are an in-order subsequence of the values the lane held, never invented/empty, and that the last value equals the lane's value at quiescence. Evidence for the explored seeds, not a proof.",
     note="agent+runtime polled as one task (as in the server); peers/store/executor are harness code; interleavings finer than a poll approximated by forced yields (coop budget 2..64)"),
 "C02": dict(level="exploration", ref="DESIGN.md §4 C02", technique="deterministic simulation of agent + runtime with colliding map keys; replica-fold oracle against per-key ground truth",
     text="Seeded search over update/remove/clear/take/drop histories (commands and handlers) with small colliding key sets on HashMap- and BTreeMap-backed and String-keyed map lanes; each remote's replica (fold of the frames it read) must equal the lane map at quiescence, per-key values must be in order, clears must not be overtaken.",
     note="as C01; replica convergence is only demanded of remotes that were linked before the first mutation or completed a sync and did not unlink themselves; the MapOperationQueue / EventQueue / WriteQueues structures are additionally driven as components (part queues, incl. head_epoch wrap-around through a poke)"),
 "C03": dict(level="exploration", ref="DESIGN.md §4 C03", technique="deterministic simulation with sync requests placed inside update streams; per-key snapshot-window oracle",
     text="Seeded search over placements of sync requests inside update streams (with and without a preceding link, several remotes syncing at once); at each synced frame every key of the remote's replica must hold a state the lane held between the sync request and that instant, and the remote must converge afterwards.",
     note="as C01; genuine defects are recorded in known_findings.json and reported as KNOWN-FINDING; the sync queues (WriteQueues inside the real MapStoreInner) are additionally driven as a component (part queues)"),
 "C04": dict(level="exploration", ref="DESIGN.md §4 C04", technique="deterministic simulation with link/sync/unlink churn, unknown lanes, disconnects, mid-stream stop; per (remote,lane) state-machine oracle and body-integrity oracle",
     text="Seeded search over interleavings of link/sync/unlink/command envelopes from several remotes incl. unknown lanes, remotes that freeze, disconnect or die in the middle of a command frame, command envelopes with malformed bodies, stop trigger and inactivity time-out at arbitrary steps; every (remote, lane) frame stream must follow the link state machine, lane-not-found answers must match requests, open links must be closed with unlinked on stop and the disconnection promise fulfilled; every event body must be one the lane produced.",
     note="as C01; lane failure is injected through a scripted Agent implementation (agent-c04f); the per-remote Uplinks/RemoteTracker write queue is additionally driven as a component (part uplinks: private product source compiled in with #[path], op sequences against a reference queue, frames decoded from the real byte channel)"),
 "C14": dict(level="exploration", ref="DESIGN.md §4 C14", technique="deterministic simulation with supply bursts, command streams and agent-sent commands to slow targets; exactly-once / order oracles",
     text="Seeded search over push bursts (up to 200 items, far beyond any buffer), command streams from several remotes and ad hoc sends (overwritable and queued) to up to three slow targets; supply items must arrive once and in order at every remote that stays linked, command handlers must run exactly once in each sender's order, forwarded commands must be in order, duplicate-free and only overwritable ones may be superseded.",
     note="as C01; ad hoc sends and registered commanders"),
}

CLAIMED["C05"] = dict(level="fault_enumeration", ref="DESIGN.md §4 C05", technique="deterministic simulation with a recording store; crash (future dropped / panic inside store call k), store error, stop and time-out placement search; restart on the surviving store",
     text="Seeded placement of crashes (agent future dropped at step s or after the n-th frame read by a remote, process killed inside store call k), store errors, mid-stream stop and inactivity time-out over update histories on persistent and transient lanes and stores; invariant: every frame a remote read for a persistent lane had been handed to the store before; after restart on the surviving store every persistent item holds exactly what the store log implies, never something older than a subscriber saw, transient items are at their defaults.",
     note="RecordingStore (public NodePersistence trait) instead of RocksDB; crash points are at poll boundaries and inside store calls, not inside arbitrary instructions")
CLAIMED["C20"] = dict(level="exploration", ref="DESIGN.md §4 C20", technique="deterministic simulation with NodeReporting enabled; introspection snapshots at every idle point compared with the links implied by the frames the remotes have read; real threads over the reporter's counters under the shuttle scheduler (random + PCT)",
     text="Seeded search over link/unlink/sync churn, remote disconnects, freezes, stop and time-out with introspection reporting enabled; at every idle point each lane's and the agent's reported uplink count must equal the number of links open according to the frames read (bounds when a remote is frozen or disconnected), the aggregate must equal the sum of the lanes, and the sums of all snapshots must account for every event frame read and every command delivered.",
     note="as C01; lane failure via agent-c04f; the Links registry + UplinkReporter are additionally driven as a component (part links: sequential op sequences against a reference pair set); the counters themselves are additionally driven by real threads under the shuttle scheduler (engine report-shuttle: counting threads against snapshotting threads, conservation of counts)")
CLAIMED["C06"] = dict(level="exploration", ref="DESIGN.md §4 C06", technique="deterministic simulation of the real agent model + runtime running generated handler programs (sent as commands) under seeded schedules and timer delays; recorded effect trace compared with a reference interpreter of the documented handler semantics",
     text="Seeded generated acyclic handler programs (trees of set/update/remove/clear/get/effect/and_then (also with a multi-step first part)/followed_by/sequentially/suspend/run_after/fail/stop over 3 value items and 2 map lanes whose derived lifecycle handlers themselves run generated programs) are sent as commands (plus commands sent straight to the value and map lanes) to a real derived agent running on the real agent runtime under the seeded executor with drawn channel sizes, budgets and suspension delays; the trace recorded through effect closures must equal, entry by entry, what a reference interpreter of docs/event_handler.md yields (depth-first, on_event then on_set with the true previous value, on_update/on_remove/on_clear with the true previous entry and map, exactly one trigger per change, on_start first, on_stop last, nothing of a failed handler or of the handlers it interrupted after the failure).",
     note="the order of top-level triggers is taken from the trace (schedule dependent); where the documents are silent the reference follows the code (listed in the evidence assumptions); cyclic programs are not generated")
CLAIMED["C07"] = dict(level="exploration", ref="DESIGN.md §4 C07", technique="deterministic simulation of the real downlink runtime shared by scripted consumers against a scripted remote lane; session, ordering, supersession and final-state oracles",
     text="Seeded search over arrival times of 1-4 consumers (with/without SYNC and KEEP_LINKED), their command streams, read speeds and drops, remote notification sequences (external changes, unlink), channel capacities and schedules on the real Value/MapDownlinkRuntime; each consumer must get linked, (if asked) synced with a state the lane held, every later event in order, unlinked at close; on the socket side commands arrive in order where order matters (value: totally, map: per key and across a clear), nothing is duplicated or invented, and the lane ends as if every command had been sent; with consumers attached, passing time must not stop the runtime.",
     note="remote lane and consumers are harness code (the harness frames notifications itself); one writer per map key, clears only in single-writer runs")
CLAIMED["C11"] = dict(level="exploration", ref="DESIGN.md §4 C11", technique="deterministic simulation of the real RemoteTask (registration, incoming and outgoing tasks) over a simulated byte pipe with short reads/writes and cuts, ratchet framing on both ends, scripted agents, downlinks and web socket peers; round-trip, routing, per-source order and attachment-liveness oracles over the recorded history; real threads over the MultiReader multiplexer under the shuttle scheduler (random + PCT)",
     text="Seeded search over envelope kinds, adversarial node/lane strings and bodies, 1-8 agents and downlinks attaching to, writing to and detaching from one socket, agent stops and restarts, unknown nodes, invalid frames, socket cuts, buffer sizes, short reads and schedules, in three topologies (two real RemoteTasks back to back; real server task against a scripted client; real client task against a scripted server); every envelope received equals one sent by a source that can reach that endpoint (kind, node, lane exactly, body byte-exactly), agents only get their node and downlinks only their (node, lane), each source's envelopes arrive in order without duplicates and completely while the addressee stays attached, markers of injected invalid frames never reach any endpoint, no panic, and an attachment requested on a live socket completes.",
     note="web socket handshake skipped (WebSocket::from_upgraded); pipe, agents, downlinks, resolver and scripted peer are harness code; termination after a cut is counted, not judged; one recorded deadlock is reported as KNOWN-FINDING; the multiplexer is additionally driven by real producer threads against the polling consumer under the shuttle scheduler (engine mreader-shuttle)")
CLAIMED["C13"] = dict(level="fault_enumeration", ref="DESIGN.md §4 C13", technique="deterministic op-sequence simulation of both stores against a reference map, with injected reopen, SIGKILL of a real writer process at drawn operation boundaries and node-store hand-over",
     text="Seeded op sequences (id_for/put/get/delete/update/remove/clear/read_map over 1-3 agents x 1-4 items with adversarial names and keys) on the real in-memory store (incl. Idle/InUse hand-over, abandoned and contended requests) and on real RocksDB (incl. reopen and SIGKILL of a child writer process after a drawn acknowledged operation); after every operation and every boundary each read must equal the reference model, ids must be stable and collision free, every acknowledged operation must survive.",
     note="RocksDB, its background threads and the file system are real, not simulated; kill points are operation boundaries; no disk-fault injection below RocksDB")
CLAIMED["C17"] = dict(level="exploration", ref="DESIGN.md §4 C17", technique="op-sequence simulation (plus exhaustive sweeps to depth 5/6) of the real inactivity-vote primitive against a reference model; real threads under the shuttle scheduler (random + PCT) over the same source; system-level time-out probes in the downlink-runtime and agent worlds",
     text="Random and exhaustive-to-depth vote/rescind/drop/poll sequences for 2 and 3 parties on the real timeout_coord source against a reference bit-set (results, readiness iff unanimity, rescind-pending soundness, stickiness, no orphaned waiter); the same operations on 2-3 shuttle threads plus a receiver under seeded random and PCT schedules with interleaving-sound invariants and deadlock detection; at system level a downlink runtime with attached idle consumers must not stop when time passes.",
     note="shuttle executes every atomic ordering as SeqCst; futures::AtomicWaker stays real")
CLAIMED["C08"] = dict(level="exploration", ref="DESIGN.md §4 C08", technique="deterministic simulation of the real client downlink tasks driven by scripted notification streams (whole and fragmented frames, interleaved local sets); callback trace compared with a reference fold",
     text="Seeded notification scripts a link can legally produce (linked, events incl. update/remove/clear/take/drop, synced, events, unlinked, relink) under all four settings of events_when_not_synced / terminate_on_unlinked, delivered whole or fragmented down to one byte through the product's byte channel, with local sets interleaved by the schedule, on the real swimos_downlink value and map tasks; every lifecycle callback (kind, key, old and new value, map snapshot, on_synced state) must equal the reference fold; arbitrary (illegal) scripts are checked for absence of panics.",
     note="client downlinks (dltask-*) and agent-hosted downlinks inside a real agent + runtime (hosted-*) run the same scripts and are compared callback by callback; three recorded differences between the implementations on take/drop are reported as KNOWN-FINDING")
CLAIMED["C09"] = dict(level="exploration", ref="DESIGN.md §4 C09", technique="deterministic simulation of an arbitrarily chunked text stream (SimPipe: every single cut, random multi-cuts down to 1 byte, Pending between chunks) into the real incremental decoders; round-trip / fixed-point oracles on the same runs",
     text="Seeded generation of typed values, model values (boundary numerics, Unicode, depth up to 64, quoted attribute names, blobs) and grammar-generated / mutated / non-UTF-8 texts, printed with the three printers and fed through a chunking SimPipe into FramedRead over RecognizerDecoder / WithLenRecognizerDecoder and parse_recon_document; the incremental result must equal the one-shot parse for every chunking, typed and parser-produced values must round-trip, arbitrary model values must reach a fixed point after one cycle, nothing may panic or hang.",
     note="single cuts exhaustive up to 256 bytes, sampled beyond; one printer defect is recorded in known_findings.json")
CLAIMED["C10"] = dict(level="fault_enumeration", ref="DESIGN.md §4 C10", technique="deterministic simulation of a fragmenting, corrupting byte stream (SimPipe) into every encoder/decoder pair through the real FramedRead; corruption cases that can abort run in a child process",
     text="For all 46 encoder/decoder variant pairs of swimos_agent_protocol::encoding, swimos_messages::protocol and swimos_encoding: seeded message sequences through a SimPipe with every kind of split (down to one byte, Pending between chunks) must decode to exactly what was encoded with exact frame boundaries; bit flips in tags, boundary values in length fields, truncation at every byte and body garbage must give an error or clean end - never a panic, an abort, a hang, a message from a frame that can never complete, or damage to the frames around it.",
     note="a corrupted length that describes a consistent shorter frame legitimately decodes differently (no checksum) and is not flagged")
CLAIMED["C12"] = dict(level="exploration", ref="DESIGN.md §4 C12", technique="seeded op-sequence simulation of the real byte channel with counting wakers against a bounded-FIFO reference model, with and without forced coop-budget yields",
     text="Seeded sequences of poll_read / poll_write / flush / shutdown / drop (capacity 1-9, request sizes 0-12, up to 40 ops, coop budget large or 2-4) on the real channel with one counting waker per side; after every operation: bytes read are a prefix of bytes written, buffered <= capacity, EOF only after close and drain, writes fail after the reader is gone, and whenever one side was told to wait and the other side makes progress possible its waker has been invoked.",
     note="every access is serialised by one mutex, so multi-threaded executions are interleavings of these atomic operations")
PENDING = {}
NOT_APPLICABLE = {
 "C15": "pure function of its two string arguments: no schedule, clock, I/O or fault can change the outcome, so there is nothing for a simulator to control (DESIGN.md §4 C15)",
 "C16": "pure functions of a value / complete text / complete buffer: no concurrency, time or I/O dimension (DESIGN.md §4 C16)",
 "C18": "pure functions of patterns and URIs (DESIGN.md §4 C18)",
 "C19": "PartialEq/Ord/Hash on Value are pure functions of their operands (DESIGN.md §4 C19)",
}
for p in ["C05","C06","C07","C08","C09","C10","C11","C12","C13","C17","C20"]:
    if p not in CLAIMED:
        PENDING[p] = "simulation check designed (DESIGN.md §4) but not built yet in this round; not claimed until its check runs"

head = subprocess.run(["git","-C","/repo","log","--format=%H %s"],capture_output=True,text=True).stdout.strip().splitlines()
hook_commits = [l.split()[0] for l in head if " hook:" in l or l.split(' ',1)[1].startswith("verif hook")]

manifest = {
 "version": 1,
 "setup_cmd": "./check --setup",
 "hooks": {
   "guard": "--cfg swimos_verif (re-exports) / --cfg swimos_verif_shuttle (atomics import swap)",
   "enable": "set in /verif/sim/.cargo/config.toml build.rustflags (and /verif/shuttle/.cargo/config.toml); /repo's own manifests and .cargo config are untouched",
   "baseline_off_cmd": "cd /repo && cargo nextest run --workspace --no-fail-fast --offline --test-threads 8 || cargo test --workspace --no-fail-fast --offline",
   "source_commits": hook_commits,
   "add_only": True,
 },
 "engines": [
   {"name": "vote-shuttle", "path": "shuttle/", "serves_properties": ["C17"], "kind_free_text": "shuttle 0.9.3 controlled scheduler (seeded RandomScheduler and PctScheduler, replayable schedule files) over the real timeout_coord source compiled with the guarded atomics hook"},
   {"name": "report-shuttle", "path": "shuttle/", "serves_properties": ["C20"], "kind_free_text": "shuttle 0.9.3 controlled scheduler (seeded RandomScheduler and PctScheduler, replayable schedule files) over the real agent::reporting source compiled with the guarded atomics hook: counting threads against snapshotting threads, conservation of counts"},
   {"name": "mreader-shuttle", "path": "shuttle/", "serves_properties": ["C11"], "kind_free_text": "shuttle 0.9.3 controlled scheduler (seeded RandomScheduler and PctScheduler, replayable schedule files) over the real MultiReader source compiled with the guarded atomics hook: producer threads against the polling consumer, no lost wake-up (deadlock detection), completeness and per-source order"},
   {"name": "simctl", "path": "sim/", "serves_properties": sorted(CLAIMED.keys()), "kind_free_text": "hand-written deterministic simulator: seeded executor over the product's top-level futures inside a paused, seeded current-thread tokio runtime; scripted peers over the product's byte channels; fault plan; history oracles; replay + minimisation"},
 ],
 "checks": [],
 "not_applicable": [],
 "notes": "Exit codes of every check: 0 = held on everything explored (KNOWN-FINDING lines for findings listed in known_findings.json), 1 = VIOLATION (self-replayed, minimised replay file under replays/), 2 = harness error (never an alarm). VERIF_SEED selects the seed family (default 20240925); VERIF_MAX_SECS caps wall time.",
}
for pid, c in sorted(CLAIMED.items()):
    manifest["checks"].append({
        "property_id": pid,
        "quick_cmd": f"./check {pid} quick",
        "thorough_cmd": f"./check {pid} thorough",
        "evidence_file": f"/verif/evidence/{pid}.json",
        "replay_cmd_template": f"./check {pid} --replay {{path}}",
        "engine": "simctl",
        "level_claimed": {"category": c["level"], "text": c["text"], "design_ref": c["ref"]},
        "level_note": c["note"],
        "technique": c["technique"],
    })
for pid, r in sorted({**NOT_APPLICABLE, **PENDING}.items()):
    manifest["not_applicable"].append({"property_id": pid, "reason": r})
json.dump(manifest, open("/verif/MANIFEST.json","w"), indent=1)
print("claimed", sorted(CLAIMED), "unclaimed", sorted({**NOT_APPLICABLE, **PENDING}))
