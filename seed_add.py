#!/usr/bin/env python3
"""Adds a confirmed seeded defect to /verif/seeded/<name>/: seed_add.py <name> <src dir> <verification log> <detected json>"""
import json, sys, shutil, os, re
name, src, log, detected = sys.argv[1:5]
dst = f"/verif/seeded/{name}"
os.makedirs(dst, exist_ok=True)
shutil.copy(f"{src}/patch.diff", f"{dst}/patch.diff")
shutil.copy(f"{src}/demo.diff", f"{dst}/demo.diff")
meta = json.load(open(f"{src}/meta.json"))
lines = [l.strip() for l in open(log) if l.startswith(f"[{name}]")]
meta["confirmed_in_scratch_worktree"] = {
    "how": "/verif/verify_seeded.sh in /tmp/seedrepo (a git worktree of /repo at the then current HEAD): demo alone, patch + demo, patch + the crate's own unit tests",
    "results": lines,
}
meta["detection"] = json.loads(detected)
json.dump(meta, open(f"{dst}/meta.json", "w"), indent=1)
print(dst, lines)
