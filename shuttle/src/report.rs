//! C20 ("introspection counts are conserved") on real threads under a controlled scheduler (shuttle 0.9.3).
//!
//! The real source file `/repo/runtime/swimos_runtime/src/agent/reporting/mod.rs` (`UplinkReporter`,
//! `UplinkReportReader`) is compiled into this crate with `#[path]`; under `--cfg swimos_verif_shuttle` its
//! `AtomicU64` counters are `shuttle::sync::atomic::AtomicU64` (guarded hook in the file), so every access is a
//! scheduling point. In the product the write task, the read task and the introspection task touch one reporter
//! from different threads of the tokio pool; the sequential `links` world cannot interleave them.
//!
//! One execution (workload drawn from `shuttle::rand`, replayed with the schedule): 1-3 counting threads each
//! add drawn amounts of events and commands (and set link counts), while 1-2 snapshotting threads take drawn
//! numbers of snapshots; after all have been joined one last snapshot is taken.
//!
//! Invariants (sound for every interleaving):
//!   (i)   conservation: the sum of the event (command) counts of all snapshots equals the sum of what was counted -
//!         nothing is lost between a snapshot's read and its reset, nothing is reported twice;
//!   (ii)  the link count of the last snapshot is the last value set by the only thread that sets it;
//!   (iii) a reader outlives its reporter gracefully: after the reporter is dropped, `snapshot` is `None` and
//!         `is_active` is false.
//! LIMIT: shuttle executes every atomic access as if it were `SeqCst`.

#[allow(dead_code, unused_imports)]
#[path = "/repo/runtime/swimos_runtime/src/agent/reporting/mod.rs"]
mod reporting;

#[cfg(not(swimos_verif_shuttle))]
compile_error!("build with --cfg swimos_verif_shuttle (see .cargo/config.toml)");

use std::panic::{catch_unwind, AssertUnwindSafe};
use std::path::PathBuf;
// Plain std atomics / mutex: harness bookkeeping only, deliberately NOT scheduling points.
use std::sync::atomic::{AtomicU64, Ordering};
use std::sync::{Arc, Mutex};
use std::time::Instant;

use shuttle::rand::Rng;
use shuttle::scheduler::{PctScheduler, RandomScheduler};
use shuttle::{Config, FailurePersistence, Runner};

use reporting::UplinkReporter;

const SOURCE: &str = include_str!("/repo/runtime/swimos_runtime/src/agent/reporting/mod.rs");

static EXECS: AtomicU64 = AtomicU64::new(0);
static COUNT_CALLS: AtomicU64 = AtomicU64::new(0);
static SNAPSHOTS: AtomicU64 = AtomicU64::new(0);
static NONZERO_SNAPSHOTS: AtomicU64 = AtomicU64::new(0);
static MID_SNAPSHOTS_WITH_DATA: AtomicU64 = AtomicU64::new(0);
static LAST_DESC: Mutex<String> = Mutex::new(String::new());

fn bump(c: &AtomicU64, n: u64) {
    c.fetch_add(n, Ordering::Relaxed);
}

fn workload() {
    bump(&EXECS, 1);
    let mut rng = shuttle::rand::thread_rng();
    let n_counters = rng.gen_range(1usize..=3);
    let n_snappers = rng.gen_range(1usize..=2);
    let scripts: Vec<Vec<(bool, u64)>> = (0..n_counters)
        .map(|_| (0..rng.gen_range(1usize..=4)).map(|_| (rng.gen_bool(0.7), rng.gen_range(1u64..=5))).collect())
        .collect();
    let snaps: Vec<usize> = (0..n_snappers).map(|_| rng.gen_range(1usize..=3)).collect();
    let links: Vec<u64> = (0..rng.gen_range(0usize..=3)).map(|_| rng.gen_range(0u64..=4)).collect();
    if let Ok(mut d) = LAST_DESC.lock() {
        *d = format!("counters={scripts:?} (true = events) snapshots_per_thread={snaps:?} links_set={links:?}");
    }
    let want_events: u64 = scripts.iter().flatten().filter(|(e, _)| *e).map(|(_, n)| *n).sum();
    let want_commands: u64 = scripts.iter().flatten().filter(|(e, _)| !*e).map(|(_, n)| *n).sum();

    let reporter = UplinkReporter::default();
    let reader = reporter.reader();
    let got: Arc<Mutex<(u64, u64)>> = Arc::new(Mutex::new((0, 0)));
    let mut handles = vec![];
    for (i, script) in scripts.into_iter().enumerate() {
        let r = reporter.clone();
        let links = if i == 0 { links.clone() } else { vec![] };
        handles.push(shuttle::thread::spawn(move || {
            for l in links {
                r.set_uplinks(l);
            }
            for (events, n) in script {
                bump(&COUNT_CALLS, 1);
                if events {
                    r.count_events(n);
                } else {
                    r.count_commands(n);
                }
            }
        }));
    }
    for k in snaps {
        let rd = reader.clone();
        let got = got.clone();
        handles.push(shuttle::thread::spawn(move || {
            for _ in 0..k {
                let s = rd.snapshot().expect("the reporter is alive");
                bump(&SNAPSHOTS, 1);
                if s.event_count > 0 || s.command_count > 0 {
                    bump(&MID_SNAPSHOTS_WITH_DATA, 1);
                }
                let mut g = got.lock().unwrap();
                // Saturating: a broken counter may report absurd values; the conservation check below says so.
                g.0 = g.0.saturating_add(s.event_count);
                g.1 = g.1.saturating_add(s.command_count);
            }
        }));
    }
    for h in handles {
        h.join().unwrap();
    }
    let last = reader.snapshot().expect("the reporter is alive");
    bump(&SNAPSHOTS, 1);
    if last.event_count > 0 || last.command_count > 0 {
        bump(&NONZERO_SNAPSHOTS, 1);
    }
    let (ge, gc) = {
        let g = got.lock().unwrap();
        (g.0.saturating_add(last.event_count), g.1.saturating_add(last.command_count))
    };
    let desc = LAST_DESC.lock().map(|d| d.clone()).unwrap_or_default();
    if ge != want_events {
        panic!("C20.conservation:events: the snapshots add up to {ge} events but {want_events} were counted; {desc}");
    }
    if gc != want_commands {
        panic!("C20.conservation:commands: the snapshots add up to {gc} commands but {want_commands} were counted; {desc}");
    }
    if let Some(l) = links.last() {
        if last.link_count != *l {
            panic!("C20.link_count: the last snapshot reports {} links but the last value set was {l}; {desc}", last.link_count);
        }
    }
    drop(reporter);
    if reader.is_active() || reader.snapshot().is_some() {
        panic!("C20.reader_after_drop: the reader still reports after its reporter was dropped; {desc}");
    }
}

fn env_seed() -> u64 {
    std::env::var("VERIF_SEED").ok().and_then(|s| s.trim().parse().ok()).unwrap_or(20_240_925)
}

fn out_dir() -> PathBuf {
    let root = std::env::var("VERIF_ROOT").unwrap_or_else(|_| "/verif".to_string());
    let d = PathBuf::from(root).join("replays").join("shuttle-report");
    let _ = std::fs::create_dir_all(&d);
    d
}

fn panic_text(p: Box<dyn std::any::Any + Send>) -> String {
    p.downcast_ref::<&str>().map(|s| s.to_string()).or_else(|| p.downcast_ref::<String>().cloned()).unwrap_or_else(|| "<non-string panic>".into())
}

fn list_schedules(dir: &PathBuf) -> Vec<PathBuf> {
    let mut v: Vec<PathBuf> = std::fs::read_dir(dir)
        .map(|rd| rd.filter_map(|e| e.ok()).map(|e| e.path()).filter(|p| p.file_name().and_then(|n| n.to_str()).map(|n| n.starts_with("schedule")).unwrap_or(false)).collect())
        .unwrap_or_default();
    v.sort();
    v
}

fn run_one(name: &str, iterations: usize, dir: &PathBuf, run: impl FnOnce(Config) -> usize + Send + 'static) -> Option<(String, String, Option<PathBuf>)> {
    for c in [&EXECS, &COUNT_CALLS, &SNAPSHOTS, &NONZERO_SNAPSHOTS, &MID_SNAPSHOTS_WITH_DATA] {
        c.store(0, Ordering::Relaxed);
    }
    let before = list_schedules(dir);
    let mut config = Config::new();
    config.failure_persistence = FailurePersistence::File(Some(dir.clone()));
    config.silence_warnings = true;
    let start = Instant::now();
    let res = std::thread::Builder::new()
        .name(format!("shuttle-{name}"))
        .spawn(move || catch_unwind(AssertUnwindSafe(move || run(config))))
        .expect("spawn")
        .join()
        .expect("join");
    let wall = start.elapsed().as_secs_f64();
    let g = |c: &AtomicU64| c.load(Ordering::Relaxed);
    println!(
        "  scheduler={name} iterations_requested={iterations} executions={} wall={wall:.1}s count_calls={} snapshots={} concurrent_snapshots_that_consumed_counts={} final_snapshots_with_remainder={}",
        g(&EXECS),
        g(&COUNT_CALLS),
        g(&SNAPSHOTS),
        g(&MID_SNAPSHOTS_WITH_DATA),
        g(&NONZERO_SNAPSHOTS)
    );
    match res {
        Ok(_) => {
            println!("  scheduler={name} result=ok");
            None
        }
        Err(p) => {
            let msg = panic_text(p);
            let desc = LAST_DESC.lock().map(|d| d.clone()).unwrap_or_default();
            let after = list_schedules(dir);
            let file = after.into_iter().filter(|p| !before.contains(p)).last();
            println!("  scheduler={name} result=FAILED message={}", msg.lines().next().unwrap_or(""));
            Some((msg, desc, file))
        }
    }
}

fn main() {
    let args: Vec<String> = std::env::args().collect();
    if !SOURCE.contains("cfg(swimos_verif_shuttle)") {
        eprintln!("HARNESS-ERROR: agent/reporting/mod.rs was compiled without the shuttle hook");
        std::process::exit(2);
    }
    std::panic::set_hook(Box::new(|info| {
        if std::env::var("VERIF_SHOW_PANICS").is_ok() {
            eprintln!("panic: {info}");
        }
    }));
    match args.get(1).map(|s| s.as_str()) {
        Some("replay") => {
            let Some(file) = args.get(2) else {
                eprintln!("usage: report-shuttle replay <schedule file>");
                std::process::exit(2)
            };
            let file2 = file.clone();
            let res = catch_unwind(AssertUnwindSafe(move || shuttle::replay_from_file(workload, file2)));
            match res {
                Ok(_) => {
                    println!("replay: not reproduced");
                    std::process::exit(0);
                }
                Err(p) => {
                    println!("replay: reproduced message={}", panic_text(p).lines().next().unwrap_or(""));
                    println!("VIOLATION property=C20 replay={file}");
                    std::process::exit(1);
                }
            }
        }
        Some(t @ ("quick" | "thorough")) => {
            let seed = env_seed();
            let iterations: usize = std::env::var("REPORT_SHUTTLE_ITERATIONS").ok().and_then(|s| s.parse().ok()).unwrap_or(if t == "quick" { 200_000 } else { 4_000_000 });
            let dir = out_dir();
            println!("shuttle check property=C20 tier={t} seed={seed} iterations_per_scheduler={iterations} (all atomic orderings are executed as SeqCst)");
            let mut failures = vec![];
            let r = run_one("random", iterations, &dir, move |config| Runner::new(RandomScheduler::new_from_seed(seed, iterations), config).run(workload));
            failures.extend(r.map(|f| ("random", f)));
            for depth in [2usize, 3] {
                let name: &'static str = if depth == 2 { "pct(depth=2)" } else { "pct(depth=3)" };
                let r = run_one(name, iterations / 2, &dir, move |config| Runner::new(PctScheduler::new_from_seed(seed, depth, iterations / 2), config).run(workload));
                failures.extend(r.map(|f| (name, f)));
            }
            if failures.is_empty() {
                println!("OK property=C20 (shuttle)");
                std::process::exit(0);
            }
            let exe = std::env::current_exe().expect("exe");
            for (name, (msg, _desc, file)) in &failures {
                println!("failure scheduler={name}: {msg}");
                match file {
                    Some(f) => {
                        let st = std::process::Command::new(&exe).arg("replay").arg(f).stdout(std::process::Stdio::piped()).stderr(std::process::Stdio::null()).output();
                        let line = st.as_ref().map(|o| String::from_utf8_lossy(&o.stdout).lines().next().unwrap_or("").to_string()).unwrap_or_default();
                        let rule = |m: &str| m.split(' ').next().unwrap_or("").trim().to_string();
                        let same_rule = line.strip_prefix("replay: reproduced message=").map(|m| rule(m) == rule(msg)).unwrap_or(false);
                        let reproduced = st.as_ref().map(|o| o.status.code() == Some(1)).unwrap_or(false) && same_rule;
                        println!("replay_from_file reproduced={reproduced} ({})", line.chars().take(160).collect::<String>());
                        println!("VIOLATION property=C20 replay={}", f.display());
                    }
                    None => println!("VIOLATION property=C20 replay=<schedule file not written>"),
                }
            }
            std::process::exit(1);
        }
        _ => {
            eprintln!("usage: report-shuttle quick|thorough   (env VERIF_SEED, REPORT_SHUTTLE_ITERATIONS)\n       report-shuttle replay <schedule file>");
            std::process::exit(2);
        }
    }
}
