//! C11 ("messages from the many agents and downlinks sharing one socket all leave it, each source's messages in its
//! own order") for the multiplexer itself, on real threads under a controlled scheduler (shuttle 0.9.3).
//!
//! The real source file `/repo/swimos_utilities/swimos_multi_reader/src/reader/mod.rs` (`MultiReader`) is compiled
//! into this crate with `#[path]`; under `--cfg swimos_verif_shuttle` its ready flags are
//! `shuttle::sync::atomic::AtomicUsize` (guarded hook in the file), so every access is a scheduling point. In the
//! product the sources (agents, downlinks) run on other threads of the tokio pool than the socket's outgoing task that
//! polls the `MultiReader`; a source's write wakes the task through the wrapped waker (set the ready bit, then wake).
//! The single-threaded socket world cannot put the reader's poll between those two steps.
//!
//! One execution (workload drawn from `shuttle::rand`, replayed with the schedule): 1-4 sources (65-67 when the
//! second bucket of flags is exercised), each with its own unbounded channel, send 1-4 numbered messages each from
//! 1-3 producer threads and close; the consumer runs `shuttle::future::block_on` over the `MultiReader` until it ends.
//!
//! Invariants:
//!   (i)   no lost wake-up: the consumer terminates (a reader parked for ever with messages pending is a deadlock,
//!         which shuttle detects itself);
//!   (ii)  completeness: every message sent is received exactly once;
//!   (iii) per-source order: the messages of one source arrive in the order they were sent.
//! LIMIT: shuttle executes every atomic access as if it were `SeqCst`; the channels are plain `futures` unbounded
//! channels (their internals are not scheduling points: each send / poll is atomic).

#[allow(dead_code, unused_imports)]
#[path = "/repo/swimos_utilities/swimos_multi_reader/src/reader/mod.rs"]
mod reader;

#[cfg(not(swimos_verif_shuttle))]
compile_error!("build with --cfg swimos_verif_shuttle (see .cargo/config.toml)");

use std::panic::{catch_unwind, AssertUnwindSafe};
use std::path::PathBuf;
// Plain std atomics / mutex: harness bookkeeping only, deliberately NOT scheduling points.
use std::sync::atomic::{AtomicU64, Ordering};
use std::sync::Mutex;

use shuttle::sync::atomic::AtomicBool;
use shuttle::sync::Arc;
use std::time::Instant;

use futures::channel::mpsc::{unbounded, UnboundedReceiver};
use futures::StreamExt;
use shuttle::rand::Rng;
use shuttle::scheduler::{PctScheduler, RandomScheduler};
use shuttle::{Config, FailurePersistence, Runner};

use reader::MultiReader;

const SOURCE: &str = include_str!("/repo/swimos_utilities/swimos_multi_reader/src/reader/mod.rs");

static EXECS: AtomicU64 = AtomicU64::new(0);
static MESSAGES: AtomicU64 = AtomicU64::new(0);
static TWO_BUCKETS: AtomicU64 = AtomicU64::new(0);
static LAST_DESC: Mutex<String> = Mutex::new(String::new());

fn bump(c: &AtomicU64, n: u64) {
    c.fetch_add(n, Ordering::Relaxed);
}

fn workload() {
    bump(&EXECS, 1);
    let mut rng = shuttle::rand::thread_rng();
    let big = rng.gen_bool(0.1);
    let n_sources = if big { rng.gen_range(65usize..=67) } else { rng.gen_range(1usize..=4) };
    if big {
        bump(&TWO_BUCKETS, 1);
    }
    // Only a few sources speak when there are many (the others just close), to keep executions short.
    let speakers: Vec<usize> = if big { vec![0, 63, 64, n_sources - 1] } else { (0..n_sources).collect() };
    let counts: Vec<u32> = (0..n_sources).map(|i| if speakers.contains(&i) { rng.gen_range(1u32..=4) } else { 0 }).collect();
    let n_threads = rng.gen_range(1usize..=3);
    if let Ok(mut d) = LAST_DESC.lock() {
        *d = format!("sources={n_sources} messages_per_source={:?} producer_threads={n_threads}", speakers.iter().map(|i| (*i, counts[*i])).collect::<Vec<_>>());
    }
    let mut reader: MultiReader<UnboundedReceiver<(usize, u32)>> = MultiReader::new();
    let mut senders = vec![];
    for _ in 0..n_sources {
        let (tx, rx) = unbounded();
        reader.add(rx);
        senders.push(Some(tx));
    }
    // Distribute the sources over the producer threads.
    let mut per_thread: Vec<Vec<(usize, futures::channel::mpsc::UnboundedSender<(usize, u32)>)>> = (0..n_threads).map(|_| vec![]).collect();
    // In the two-bucket mode the last source (second bucket) is held back by a thread of its own (see below).
    let mut held_tx = None;
    for (i, tx) in senders.iter_mut().enumerate() {
        if big && i == n_sources - 1 {
            held_tx = tx.take();
        } else {
            per_thread[i % n_threads].push((i, tx.take().unwrap()));
        }
    }
    let mut handles = vec![];
    for sources in per_thread {
        let counts = counts.clone();
        handles.push(shuttle::thread::spawn(move || {
            // Round robin over this thread's sources so that the sends of different sources interleave.
            let mut k = 0u32;
            loop {
                let mut any = false;
                for (i, tx) in sources.iter() {
                    if k < counts[*i] {
                        any = true;
                        tx.unbounded_send((*i, k)).expect("the reader is alive");
                        bump(&MESSAGES, 1);
                    }
                }
                if !any {
                    break;
                }
                k += 1;
            }
            // Dropping the senders closes the channels.
        }));
    }
    // A source that is attached late. In the small mode: after the reader has been polled to the end of the first
    // sources. In the two-bucket mode: while sources of the second bucket are still open - source 0 has said all it
    // has to say (and closes), then a source of the second bucket speaks, then the late source is added; when the
    // closure of source 0 has been processed by then, the late source re-uses its low key while the reader's current
    // bucket is the second one.
    let late_count: u32 = if rng.gen_bool(0.5) { rng.gen_range(1u32..=3) } else { 0 };
    let hold_idx = n_sources - 1;
    let staged = big && late_count > 0;
    let mut counts = counts;
    counts.push(late_count);
    let zero_done = Arc::new(AtomicBool::new(false));
    let (late_tx, late_rx) = unbounded::<(usize, u32)>();
    if late_count > 0 {
        handles.push(shuttle::thread::spawn(move || {
            for k in 0..late_count {
                late_tx.unbounded_send((n_sources, k)).expect("the reader is alive");
                bump(&MESSAGES, 1);
            }
        }));
    } else {
        drop(late_tx);
    }
    if let Some(tx) = held_tx {
        let zd = zero_done.clone();
        let n = counts[hold_idx];
        handles.push(shuttle::thread::spawn(move || {
            while !zd.load(Ordering::SeqCst) {
                shuttle::thread::yield_now();
            }
            for k in 0..n {
                tx.unbounded_send((hold_idx, k)).expect("the reader is alive");
                bump(&MESSAGES, 1);
            }
        }));
    }
    let total: u32 = counts.iter().sum();
    let counts_c = counts.clone();
    let consumer = shuttle::thread::spawn(move || {
        let mut got: Vec<Vec<u32>> = vec![vec![]; n_sources + 1];
        let mut late = Some(late_rx);
        shuttle::future::block_on(async {
            if counts_c[0] == 0 {
                zero_done.store(true, Ordering::SeqCst);
            }
            while let Some((src, k)) = reader.next().await {
                got[src].push(k);
                if src == 0 && got[0].len() as u32 == counts_c[0] {
                    zero_done.store(true, Ordering::SeqCst);
                }
                if staged && src == hold_idx && got[hold_idx].len() as u32 == counts_c[hold_idx] {
                    if let Some(rx) = late.take() {
                        reader.add(rx);
                    }
                }
            }
            if late_count > 0 {
                if let Some(rx) = late.take() {
                    reader.add(rx);
                    while let Some((src, k)) = reader.next().await {
                        got[src].push(k);
                    }
                }
            }
        });
        got
    });
    for h in handles {
        h.join().unwrap();
    }
    let got = consumer.join().unwrap();
    let desc = LAST_DESC.lock().map(|d| d.clone()).unwrap_or_default();
    let received: u32 = got.iter().map(|v| v.len() as u32).sum();
    if received != total {
        panic!("C11.mreader.completeness: {received} messages received, {total} sent; {desc}");
    }
    for (i, v) in got.iter().enumerate() {
        let want: Vec<u32> = (0..counts[i]).collect();
        if *v != want {
            panic!("C11.mreader.order: source {i} was received as {v:?}, sent as {want:?}; {desc}");
        }
    }
}

fn env_seed() -> u64 {
    std::env::var("VERIF_SEED").ok().and_then(|s| s.trim().parse().ok()).unwrap_or(20_240_925)
}

fn out_dir() -> PathBuf {
    let root = std::env::var("VERIF_ROOT").unwrap_or_else(|_| "/verif".to_string());
    let d = PathBuf::from(root).join("replays").join("shuttle-mreader");
    let _ = std::fs::create_dir_all(&d);
    d
}

fn panic_text(p: Box<dyn std::any::Any + Send>) -> String {
    p.downcast_ref::<&str>().map(|s| s.to_string()).or_else(|| p.downcast_ref::<String>().cloned()).unwrap_or_else(|| "<non-string panic>".into())
}

fn list_schedules(dir: &PathBuf) -> Vec<PathBuf> {
    let mut v: Vec<PathBuf> = std::fs::read_dir(dir)
        .map(|rd| rd.filter_map(|e| e.ok()).map(|e| e.path()).filter(|p| p.file_name().and_then(|n| n.to_str()).map(|n| n.starts_with("schedule")).unwrap_or(false)).collect())
        .unwrap_or_default();
    v.sort();
    v
}

fn run_one(name: &str, iterations: usize, dir: &PathBuf, run: impl FnOnce(Config) -> usize + Send + 'static) -> Option<(String, String, Option<PathBuf>)> {
    for c in [&EXECS, &MESSAGES, &TWO_BUCKETS] {
        c.store(0, Ordering::Relaxed);
    }
    let before = list_schedules(dir);
    let mut config = Config::new();
    config.failure_persistence = FailurePersistence::File(Some(dir.clone()));
    config.silence_warnings = true;
    let start = Instant::now();
    let res = std::thread::Builder::new()
        .name(format!("shuttle-{name}"))
        .stack_size(32 << 20)
        .spawn(move || catch_unwind(AssertUnwindSafe(move || run(config))))
        .expect("spawn")
        .join()
        .expect("join");
    let wall = start.elapsed().as_secs_f64();
    let g = |c: &AtomicU64| c.load(Ordering::Relaxed);
    println!("  scheduler={name} iterations_requested={iterations} executions={} wall={wall:.1}s messages_sent={} executions_with_two_flag_buckets={}", g(&EXECS), g(&MESSAGES), g(&TWO_BUCKETS));
    match res {
        Ok(_) => {
            println!("  scheduler={name} result=ok");
            None
        }
        Err(p) => {
            let msg = panic_text(p);
            let desc = LAST_DESC.lock().map(|d| d.clone()).unwrap_or_default();
            let after = list_schedules(dir);
            let file = after.into_iter().filter(|p| !before.contains(p)).last();
            println!("  scheduler={name} result=FAILED message={}", msg.lines().next().unwrap_or(""));
            Some((msg, desc, file))
        }
    }
}

fn main() {
    let args: Vec<String> = std::env::args().collect();
    if !SOURCE.contains("cfg(swimos_verif_shuttle)") {
        eprintln!("HARNESS-ERROR: swimos_multi_reader/src/reader/mod.rs was compiled without the shuttle hook");
        std::process::exit(2);
    }
    std::panic::set_hook(Box::new(|info| {
        if std::env::var("VERIF_SHOW_PANICS").is_ok() {
            eprintln!("panic: {info}");
        }
    }));
    match args.get(1).map(|s| s.as_str()) {
        Some("replay") => {
            let Some(file) = args.get(2) else {
                eprintln!("usage: mreader-shuttle replay <schedule file>");
                std::process::exit(2)
            };
            let file2 = file.clone();
            let res = catch_unwind(AssertUnwindSafe(move || shuttle::replay_from_file(workload, file2)));
            match res {
                Ok(_) => {
                    println!("replay: not reproduced");
                    std::process::exit(0);
                }
                Err(p) => {
                    println!("replay: reproduced message={}", panic_text(p).lines().next().unwrap_or(""));
                    println!("  workload: {}", LAST_DESC.lock().map(|d| d.clone()).unwrap_or_default());
                    println!("VIOLATION property=C11 replay={file}");
                    std::process::exit(1);
                }
            }
        }
        Some(t @ ("quick" | "thorough")) => {
            let seed = env_seed();
            let iterations: usize = std::env::var("MREADER_SHUTTLE_ITERATIONS").ok().and_then(|s| s.parse().ok()).unwrap_or(if t == "quick" { 60_000 } else { 1_500_000 });
            let dir = out_dir();
            println!("shuttle check property=C11 (MultiReader) tier={t} seed={seed} iterations_per_scheduler={iterations} (all atomic orderings are executed as SeqCst)");
            let mut failures = vec![];
            let r = run_one("random", iterations, &dir, move |config| Runner::new(RandomScheduler::new_from_seed(seed, iterations), config).run(workload));
            failures.extend(r.map(|f| ("random", f)));
            for depth in [2usize, 3] {
                let name: &'static str = if depth == 2 { "pct(depth=2)" } else { "pct(depth=3)" };
                let r = run_one(name, iterations / 2, &dir, move |config| Runner::new(PctScheduler::new_from_seed(seed, depth, iterations / 2), config).run(workload));
                failures.extend(r.map(|f| (name, f)));
            }
            if failures.is_empty() {
                println!("OK property=C11 (shuttle)");
                std::process::exit(0);
            }
            let exe = std::env::current_exe().expect("exe");
            for (name, (msg, desc, file)) in &failures {
                println!("failure scheduler={name}: {msg}");
                if !msg.contains("sources=") {
                    println!("  workload of the failing execution: {desc}");
                }
                match file {
                    Some(f) => {
                        let st = std::process::Command::new(&exe).arg("replay").arg(f).stdout(std::process::Stdio::piped()).stderr(std::process::Stdio::null()).output();
                        let line = st.as_ref().map(|o| String::from_utf8_lossy(&o.stdout).lines().next().unwrap_or("").to_string()).unwrap_or_default();
                        let reproduced = st.as_ref().map(|o| o.status.code() == Some(1)).unwrap_or(false);
                        println!("replay_from_file reproduced={reproduced} ({})", line.chars().take(160).collect::<String>());
                        println!("VIOLATION property=C11 replay={}", f.display());
                    }
                    None => println!("VIOLATION property=C11 replay=<schedule file not written>"),
                }
            }
            std::process::exit(1);
        }
        _ => {
            eprintln!("usage: mreader-shuttle quick|thorough   (env VERIF_SEED, MREADER_SHUTTLE_ITERATIONS)\n       mreader-shuttle replay <schedule file>");
            std::process::exit(2);
        }
    }
}
