//! C17 ("inactivity shutdown needs all parties idle at once and cannot deadlock") on real threads under a
//! controlled scheduler (shuttle 0.9.3).
//!
//! The real source file `/repo/runtime/swimos_runtime/src/timeout_coord/mod.rs` is compiled into this crate
//! with `#[path]`; with the guarded hook `/tmp/build-vote/hook-timeout_coord.patch` applied and
//! `--cfg swimos_verif_shuttle` (see `.cargo/config.toml`) its `AtomicU8` is `shuttle::sync::atomic::AtomicU8`,
//! so every access to `Inner.flags` is a scheduling point. `futures::task::AtomicWaker` stays the real one:
//! shuttle runs one thread at a time and only switches at its own primitives, so `register`/`wake` execute
//! atomically; what is explored are the interleavings of the accesses to `flags` (vote: fetch_or | wake;
//! rescind: load | CAS; poll: load | register | load).
//!
//! LIMIT: shuttle executes every atomic access as if it were `SeqCst`. Weak-memory behaviour of the
//! `Relaxed`/`Release`/`Acquire` orderings in the file is NOT explored.
//!
//! One execution (workload drawn from `shuttle::rand`, so it is replayed with the schedule):
//!   2 or 3 voter threads run drawn scripts of vote/rescind (optionally dropping their `Voter` at the end) and
//!   * mode A: a receiver thread runs `shuttle::future::block_on(receiver)`; every script ends with an
//!     outstanding vote or a drop, so unanimity must be reached: a lost wake-up or a never-set bit is a
//!     deadlock, which shuttle detects itself;
//!   * mode B: the main thread polls the receiver with a counting waker at drawn moments while the voters run,
//!     joins them (barrier), polls, then lets every voter that is still alive vote and polls again.
//!
//! Only invariants that are sound for every interleaving are checked (no atomic call+log is assumed; calls
//! carry [start, end] stamps of a harness clock that is not a scheduling point):
//!   (i)   no_deadlock: when every party's last action is a vote or it was dropped, the receiver completes;
//!   (ii)  rescind_pending_sound: if some party's last action before the barrier is a rescind answered
//!         UnanimityPending (or it never voted and is alive), the receiver is not ready at the barrier;
//!   (iii) unanimous_sticky: a rescind that *starts after* a call answered Unanimous has *ended* (or after the
//!         receiver was seen ready) is answered Unanimous; receiver readiness never reverts;
//!   (iv)  unanimous_means_stop: if any call was answered Unanimous the receiver is ready at the barrier;
//!   (v)   no_orphan_wait: if a poll returned Pending and the receiver is ready in the end, the waker was woken
//!         after that poll began.
//! Votes cast after unanimity are not judged (see the sequential world for the reasoning).

#[allow(dead_code, unused_imports)]
#[path = "/repo/runtime/swimos_runtime/src/timeout_coord/mod.rs"]
mod timeout_coord;

#[cfg(not(swimos_verif_shuttle))]
compile_error!("build with --cfg swimos_verif_shuttle (see .cargo/config.toml)");

use std::future::Future;
use std::panic::{catch_unwind, AssertUnwindSafe};
use std::path::PathBuf;
use std::pin::Pin;
// Plain std atomics: harness bookkeeping only, deliberately NOT scheduling points.
use std::sync::atomic::{AtomicU64, Ordering};
use std::sync::Arc;
use std::task::{Context, Poll, Wake, Waker};
use std::time::Instant;

use shuttle::rand::Rng;
use shuttle::scheduler::{PctScheduler, RandomScheduler};
use shuttle::{Config, FailurePersistence, Runner};

use timeout_coord::{agent_timeout_coordinator, downlink_timeout_coordinator, Receiver, VoteResult, Voter};

/// The source that was compiled in (compile-time snapshot), to refuse running without the hook.
const SOURCE: &str = include_str!("/repo/runtime/swimos_runtime/src/timeout_coord/mod.rs");

static CLOCK: AtomicU64 = AtomicU64::new(1);
static EXECS: AtomicU64 = AtomicU64::new(0);
static MODE_A: AtomicU64 = AtomicU64::new(0);
static MODE_B: AtomicU64 = AtomicU64::new(0);
static TWO_PARTY: AtomicU64 = AtomicU64::new(0);
static CALLS_VOTE: AtomicU64 = AtomicU64::new(0);
static CALLS_RESCIND: AtomicU64 = AtomicU64::new(0);
static DROPS: AtomicU64 = AtomicU64::new(0);
static UNANIMOUS_ANSWERS: AtomicU64 = AtomicU64::new(0);
static RESCIND_REFUSED: AtomicU64 = AtomicU64::new(0);
static RESCIND_PENDING: AtomicU64 = AtomicU64::new(0);
static RX_COMPLETED: AtomicU64 = AtomicU64::new(0);
static RX_BLOCKED_THEN_WOKEN: AtomicU64 = AtomicU64::new(0);
static BARRIER_NOT_READY: AtomicU64 = AtomicU64::new(0);
static BARRIER_READY: AtomicU64 = AtomicU64::new(0);
static WAKE_CHECKS: AtomicU64 = AtomicU64::new(0);
static CONCURRENT_OVERLAPS: AtomicU64 = AtomicU64::new(0);

/// Description of the workload of the execution in progress (for failures without a message of ours: deadlocks).
static LAST_DESC: std::sync::Mutex<String> = std::sync::Mutex::new(String::new());

fn tick() -> u64 {
    CLOCK.fetch_add(1, Ordering::SeqCst)
}

fn bump(c: &AtomicU64) {
    c.fetch_add(1, Ordering::Relaxed);
}

#[derive(Clone, Copy, Debug, PartialEq, Eq)]
enum K {
    Vote,
    Rescind,
    Drop,
}

#[derive(Clone, Debug)]
struct Call {
    party: usize,
    kind: K,
    res: Option<VoteResult>,
    start: u64,
    end: u64,
}

#[derive(Clone, Debug)]
struct Script {
    ops: Vec<K>,
    drop_at_end: bool,
}

#[derive(Clone, Copy, Debug)]
struct Opts {
    /// Restrict the workload to what the product's own callers do, avoiding the two findings of the
    /// sequential world (drop of a voter after a successful rescind; a rescind by a party of the two-party
    /// coordinator that has no outstanding vote), so that *other* defects are not masked by them.
    avoid_drop_after_rescind: bool,
    avoid_two_party_idle_rescind: bool,
}

struct CountWaker(AtomicU64);

impl Wake for CountWaker {
    fn wake(self: Arc<Self>) {
        self.0.fetch_add(1, Ordering::SeqCst);
    }
    fn wake_by_ref(self: &Arc<Self>) {
        self.0.fetch_add(1, Ordering::SeqCst);
    }
}

fn draw_script(rng: &mut impl Rng, n: usize, mode_a: bool, opts: Opts) -> Script {
    let len = rng.gen_range(0..=4usize);
    let mut ops: Vec<K> = vec![];
    for _ in 0..len {
        let k = match ops.last() {
            None => {
                if rng.gen_bool(0.8) {
                    K::Vote
                } else {
                    K::Rescind
                }
            }
            Some(K::Vote) => {
                if rng.gen_bool(0.65) {
                    K::Rescind
                } else {
                    K::Vote
                }
            }
            _ => {
                if rng.gen_bool(0.65) {
                    K::Vote
                } else {
                    K::Rescind
                }
            }
        };
        ops.push(k);
    }
    let drop_at_end = rng.gen_bool(0.35);
    {
        if opts.avoid_two_party_idle_rescind && n == 2 {
            // Like the callers in downlink/mod.rs: rescind only while the own vote is outstanding.
            let mut kept: Vec<K> = vec![];
            for k in ops {
                if k == K::Rescind && kept.last() != Some(&K::Vote) {
                    continue;
                }
                kept.push(k);
            }
            ops = kept;
        }
        if opts.avoid_drop_after_rescind && drop_at_end && ops.last() == Some(&K::Rescind) && ops.contains(&K::Vote) {
            ops.push(K::Vote);
        }
    }
    if mode_a && !drop_at_end && ops.last() != Some(&K::Vote) {
        ops.push(K::Vote);
    }
    Script { ops, drop_at_end }
}

fn run_party(i: usize, voter: Voter, script: Script) -> (Vec<Call>, Option<Voter>) {
    let mut hist = vec![];
    for k in script.ops {
        let start = tick();
        let res = match k {
            K::Vote => voter.vote(),
            _ => voter.rescind(),
        };
        let end = tick();
        hist.push(Call { party: i, kind: k, res: Some(res), start, end });
    }
    if script.drop_at_end {
        let start = tick();
        drop(voter);
        let end = tick();
        hist.push(Call { party: i, kind: K::Drop, res: None, start, end });
        (hist, None)
    } else {
        (hist, Some(voter))
    }
}

fn show(hist: &[Call], extra: &str) -> String {
    let mut h: Vec<&Call> = hist.iter().collect();
    h.sort_by_key(|c| c.start);
    let calls: Vec<String> = h
        .iter()
        .map(|c| {
            let r = match c.res {
                Some(VoteResult::Unanimous) => "=Unanimous",
                Some(VoteResult::UnanimityPending) => "=Pending",
                None => "",
            };
            format!("p{}.{:?}[{}..{}]{}", c.party, c.kind, c.start, c.end, r).to_lowercase()
        })
        .collect();
    format!("history: {} | {}", calls.join(" "), extra)
}

/// (iii): a rescind that starts after unanimity was observed must be refused.
fn check_sticky(hist: &[Call], ready_seen_at: Option<u64>, extra: &str) {
    let first_unanimous_end = hist.iter().filter(|c| c.res == Some(VoteResult::Unanimous)).map(|c| c.end).min();
    let observed = match (first_unanimous_end, ready_seen_at) {
        (Some(a), Some(b)) => Some(a.min(b)),
        (a, b) => a.or(b),
    };
    if let Some(t) = observed {
        for c in hist {
            if c.kind == K::Rescind && c.res == Some(VoteResult::UnanimityPending) && c.start > t {
                panic!(
                    "C17.unanimous_sticky: rescind by party {} started at {} after unanimity had been observed at {} but was answered UnanimityPending; {}",
                    c.party,
                    c.start,
                    t,
                    show(hist, extra)
                );
            }
        }
    }
}

/// Whether party `i` ends with its vote counted, from its own calls only (only party i changes bit i).
/// `None` = the party's last answer was a refused rescind (counted, and unanimity must hold).
fn ends_in(hist: &[Call], i: usize) -> bool {
    match hist.iter().filter(|c| c.party == i).last() {
        None => false,
        Some(c) => match (c.kind, c.res) {
            (K::Drop, _) => true,
            (K::Vote, _) => true,
            (K::Rescind, Some(VoteResult::Unanimous)) => true,
            (K::Rescind, _) => false,
        },
    }
}

fn count_calls(hist: &[Call]) {
    for c in hist {
        match c.kind {
            K::Vote => bump(&CALLS_VOTE),
            K::Rescind => {
                bump(&CALLS_RESCIND);
                if c.res == Some(VoteResult::Unanimous) {
                    bump(&RESCIND_REFUSED);
                } else {
                    bump(&RESCIND_PENDING);
                }
            }
            K::Drop => bump(&DROPS),
        }
        if c.res == Some(VoteResult::Unanimous) {
            bump(&UNANIMOUS_ANSWERS);
        }
    }
    // Probe: two calls of different parties overlapped in (harness) time, i.e. the schedule interleaved them.
    let overlapped = hist.iter().any(|a| hist.iter().any(|b| a.party != b.party && a.start < b.start && b.start < a.end));
    if overlapped {
        bump(&CONCURRENT_OVERLAPS);
    }
}

fn workload(opts: Opts) {
    bump(&EXECS);
    let mut rng = shuttle::rand::thread_rng();
    let n: usize = if rng.gen_bool(0.5) { 2 } else { 3 };
    let mode_a = rng.gen_bool(0.5);
    let scripts: Vec<Script> = (0..n).map(|_| draw_script(&mut rng, n, mode_a, opts)).collect();
    let polls = rng.gen_range(0..=3usize);
    let desc = format!("parties={n} mode={} scripts={:?}", if mode_a { "A" } else { "B" }, scripts.iter().map(|s| (s.ops.clone(), s.drop_at_end)).collect::<Vec<_>>());
    if n == 2 {
        bump(&TWO_PARTY);
    }
    *LAST_DESC.lock().unwrap() = desc.clone();
    let (voters, rx): (Vec<Voter>, Receiver) = if n == 2 {
        let (a, b, r) = downlink_timeout_coordinator();
        (vec![a, b], r)
    } else {
        let (a, b, c, r) = agent_timeout_coordinator();
        (vec![a, b, c], r)
    };

    if mode_a {
        bump(&MODE_A);
        let rx_handle = shuttle::thread::spawn(move || {
            let mut rx = rx;
            let mut pendings = 0u64;
            shuttle::future::block_on(std::future::poll_fn(|cx| {
                let r = Pin::new(&mut rx).poll(cx);
                if r.is_pending() {
                    pendings += 1;
                }
                r
            }));
            (pendings, tick())
        });
        let handles: Vec<_> = voters
            .into_iter()
            .zip(scripts)
            .enumerate()
            .map(|(i, (v, s))| shuttle::thread::spawn(move || run_party(i, v, s)))
            .collect();
        let mut hist = vec![];
        let mut alive = vec![];
        for h in handles {
            let (calls, v) = h.join().expect("party thread");
            hist.extend(calls);
            alive.push(v);
        }
        // (i) every party ends voting or dropped: the receiver must complete. If its bit is never set or the
        // wake-up is lost this join never returns and shuttle reports the deadlock.
        let (pendings, done_at) = rx_handle.join().expect("receiver thread");
        bump(&RX_COMPLETED);
        if pendings > 0 {
            // The receiver thread really blocked on a Pending poll and was woken by the completing vote.
            bump(&RX_BLOCKED_THEN_WOKEN);
        }
        count_calls(&hist);
        check_sticky(&hist, Some(done_at), &desc);
        drop(alive);
    } else {
        bump(&MODE_B);
        let mut rx = rx;
        let cw = Arc::new(CountWaker(AtomicU64::new(0)));
        let waker = Waker::from(cw.clone());
        let handles: Vec<_> = voters
            .into_iter()
            .zip(scripts)
            .enumerate()
            .map(|(i, (v, s))| shuttle::thread::spawn(move || run_party(i, v, s)))
            .collect();
        // (time, ready, wake count BEFORE the poll began). The count is taken before the poll because a wake that
        // arrives between `register` and the second load of a poll that still answers Pending (possible only if
        // unanimity is undone) would make a real task poll again; it is not an orphaned wait.
        let mut obs: Vec<(u64, bool, u64)> = vec![];
        let mut poll = |obs: &mut Vec<(u64, bool, u64)>| -> bool {
            let mut cx = Context::from_waker(&waker);
            let wakes_before = cw.0.load(Ordering::SeqCst);
            let ready = matches!(Pin::new(&mut rx).poll(&mut cx), Poll::Ready(()));
            obs.push((tick(), ready, wakes_before));
            ready
        };
        for _ in 0..polls {
            poll(&mut obs);
            shuttle::thread::yield_now();
        }
        let mut hist = vec![];
        let mut alive = vec![];
        for h in handles {
            let (calls, v) = h.join().expect("party thread");
            hist.extend(calls);
            alive.push(v);
        }
        count_calls(&hist);
        // ---- barrier: no call is in flight ----
        let ready_at_barrier = poll(&mut obs);
        let extra = format!("{desc} polls(time,ready,wakes_before)={obs:?}");
        let all_in = (0..n).all(|i| ends_in(&hist, i));
        let told_unanimous = hist.iter().any(|c| c.res == Some(VoteResult::Unanimous));
        if ready_at_barrier {
            bump(&BARRIER_READY);
        } else {
            bump(&BARRIER_NOT_READY);
        }
        // readiness never reverts
        if let Some(w) = obs.windows(2).find(|w| w[0].1 && !w[1].1) {
            panic!("C17.unanimous_sticky: receiver ready at {} and pending at {}; {}", w[0].0, w[1].0, show(&hist, &extra));
        }
        // (iv)
        if told_unanimous && !ready_at_barrier {
            panic!("C17.unanimous_means_stop: a call was answered Unanimous but the receiver is not ready at the barrier; {}", show(&hist, &extra));
        }
        // (i)
        if all_in && !ready_at_barrier {
            panic!("C17.no_deadlock: every party's last action is a vote or a drop but the receiver is pending at the barrier; {}", show(&hist, &extra));
        }
        // (ii)
        if ready_at_barrier {
            for i in 0..n {
                let last = hist.iter().filter(|c| c.party == i).last();
                let out = match last {
                    None => true,
                    Some(c) => c.kind == K::Rescind && c.res == Some(VoteResult::UnanimityPending),
                };
                if out {
                    panic!(
                        "C17.rescind_pending_sound: receiver ready at the barrier although party {i} {}; {}",
                        if last.is_none() { "never voted and is alive" } else { "was last told UnanimityPending on a rescind" },
                        show(&hist, &extra)
                    );
                }
            }
        }
        // (iii)
        let first_ready = obs.iter().find(|o| o.1).map(|o| o.0);
        check_sticky(&hist, first_ready, &extra);
        // phase 2: everyone who is still alive votes; then nobody is missing.
        for v in alive.iter().flatten() {
            v.vote();
        }
        let ready_final = poll(&mut obs);
        let extra = format!("{desc} polls(time,ready,wakes_before)={obs:?}");
        if !ready_final {
            panic!("C17.no_deadlock: every live party voted and the others were dropped, but the receiver is still pending; {}", show(&hist, &extra));
        }
        // (v)
        if let Some(last_pending) = obs.iter().filter(|o| !o.1).last() {
            bump(&WAKE_CHECKS);
            let wakes_now = cw.0.load(Ordering::SeqCst);
            if wakes_now == last_pending.2 {
                panic!("C17.no_orphan_wait: the receiver was polled Pending at {} and is ready now, but its waker was never woken; {}", last_pending.0, show(&hist, &extra));
            }
        }
        drop(alive);
    }
}

fn env_seed() -> u64 {
    std::env::var("VERIF_SEED").ok().and_then(|s| s.trim().parse().ok()).unwrap_or(20_240_925)
}

fn opts_from_env() -> Opts {
    // "1" = avoid both known findings; "A" = avoid only the drop-after-rescind finding; "B" = avoid only the
    // two-party rescind-without-outstanding-vote finding.
    let v = std::env::var("VOTE_SHUTTLE_AVOID_KNOWN").unwrap_or_default();
    Opts { avoid_drop_after_rescind: v == "1" || v == "A", avoid_two_party_idle_rescind: v == "1" || v == "B" }
}

fn out_dir() -> PathBuf {
    let d = std::env::var("VOTE_SHUTTLE_DIR").map(PathBuf::from).unwrap_or_else(|_| {
        let root = std::env::var("VERIF_ROOT").unwrap_or_else(|_| "/verif".to_string());
        PathBuf::from(root).join("replays").join("shuttle")
    });
    let _ = std::fs::create_dir_all(&d);
    d
}

fn panic_text(p: Box<dyn std::any::Any + Send>) -> String {
    p.downcast_ref::<&str>().map(|s| s.to_string()).or_else(|| p.downcast_ref::<String>().cloned()).unwrap_or_else(|| "<non-string panic>".into())
}

fn list_schedules(dir: &PathBuf) -> Vec<PathBuf> {
    let mut v: Vec<PathBuf> = std::fs::read_dir(dir)
        .map(|rd| rd.filter_map(|e| e.ok()).map(|e| e.path()).filter(|p| p.file_name().and_then(|n| n.to_str()).map(|n| n.starts_with("schedule")).unwrap_or(false)).collect())
        .unwrap_or_default();
    v.sort();
    v
}

fn reset_counters() {
    for c in [
        &EXECS, &MODE_A, &MODE_B, &TWO_PARTY, &CALLS_VOTE, &CALLS_RESCIND, &DROPS, &UNANIMOUS_ANSWERS, &RESCIND_REFUSED, &RESCIND_PENDING,
        &RX_COMPLETED, &RX_BLOCKED_THEN_WOKEN, &BARRIER_NOT_READY, &BARRIER_READY, &WAKE_CHECKS, &CONCURRENT_OVERLAPS,
    ] {
        c.store(0, Ordering::Relaxed);
    }
}

fn print_counters(name: &str, iterations: usize, wall: f64) {
    let g = |c: &AtomicU64| c.load(Ordering::Relaxed);
    println!(
        "  scheduler={name} iterations_requested={iterations} executions={} wall={wall:.1}s mode_a={} mode_b={} two_party={} votes={} rescinds={} drops={} unanimous_answers={} rescind_refused={} rescind_pending={} receiver_completed(A)={} receiver_blocked_then_woken(A)={} barrier_ready(B)={} barrier_not_ready(B)={} wake_checks(B)={} executions_with_overlapping_calls={}",
        g(&EXECS), g(&MODE_A), g(&MODE_B), g(&TWO_PARTY), g(&CALLS_VOTE), g(&CALLS_RESCIND), g(&DROPS), g(&UNANIMOUS_ANSWERS), g(&RESCIND_REFUSED),
        g(&RESCIND_PENDING), g(&RX_COMPLETED), g(&RX_BLOCKED_THEN_WOKEN), g(&BARRIER_READY), g(&BARRIER_NOT_READY), g(&WAKE_CHECKS), g(&CONCURRENT_OVERLAPS)
    );
}

/// Runs one scheduler on a fresh OS thread (shuttle keeps per-thread state about the last persisted
/// schedule); returns Some((message, workload, schedule file)) on failure.
fn run_one(name: &str, iterations: usize, dir: &PathBuf, run: impl FnOnce(Config) -> usize + Send + 'static) -> Option<(String, String, Option<PathBuf>)> {
    reset_counters();
    let before = list_schedules(dir);
    let mut config = Config::new();
    config.failure_persistence = FailurePersistence::File(Some(dir.clone()));
    config.silence_warnings = true;
    let start = Instant::now();
    let res = std::thread::Builder::new()
        .name(format!("shuttle-{name}"))
        .spawn(move || catch_unwind(AssertUnwindSafe(move || run(config))))
        .expect("spawn")
        .join()
        .expect("join");
    let wall = start.elapsed().as_secs_f64();
    print_counters(name, iterations, wall);
    match res {
        Ok(_) => {
            println!("  scheduler={name} result=ok");
            None
        }
        Err(p) => {
            let msg = panic_text(p);
            let desc = LAST_DESC.lock().map(|d| d.clone()).unwrap_or_default();
            let after = list_schedules(dir);
            // The LAST new file: unwinding after the failure drops the voters, which takes further scheduling
            // steps and makes shuttle persist the (longer, complete) schedule a second time.
            let file = after.into_iter().filter(|p| !before.contains(p)).last();
            println!("  scheduler={name} result=FAILED message={}", msg.lines().next().unwrap_or(""));
            Some((msg, desc, file))
        }
    }
}

fn main() {
    let args: Vec<String> = std::env::args().collect();
    if !SOURCE.contains("cfg(swimos_verif_shuttle)") {
        eprintln!("HARNESS-ERROR: timeout_coord/mod.rs was compiled without the shuttle hook (apply /tmp/build-vote/hook-timeout_coord.patch before building)");
        std::process::exit(2);
    }
    let opts = opts_from_env();
    // Installed before shuttle's own hook (which chains to it): one line instead of a backtrace.
    std::panic::set_hook(Box::new(|info| {
        if std::env::var("VERIF_SHOW_PANICS").is_ok() {
            eprintln!("panic: {info}");
        }
    }));
    match args.get(1).map(|s| s.as_str()) {
        Some("replay") => {
            let Some(file) = args.get(2) else {
                eprintln!("usage: vote-shuttle replay <schedule file>");
                std::process::exit(2)
            };
            let file2 = file.clone();
            let res = catch_unwind(AssertUnwindSafe(move || shuttle::replay_from_file(move || workload(opts), file2)));
            match res {
                Ok(_) => {
                    println!("replay: not reproduced");
                    std::process::exit(0);
                }
                Err(p) => {
                    println!("replay: reproduced message={}", panic_text(p).lines().next().unwrap_or(""));
                    println!("  workload: {}", LAST_DESC.lock().map(|d| d.clone()).unwrap_or_default());
                    println!("VIOLATION property=C17 replay={file}");
                    std::process::exit(1);
                }
            }
        }
        Some(t @ ("quick" | "thorough")) => {
            let seed = env_seed();
            let iterations: usize = std::env::var("VOTE_SHUTTLE_ITERATIONS").ok().and_then(|s| s.parse().ok()).unwrap_or(if t == "quick" { 100_000 } else { 5_000_000 });
            let dir = out_dir();
            println!("shuttle check property=C17 tier={t} seed={seed} avoid_drop_after_rescind={} avoid_two_party_idle_rescind={} iterations_per_scheduler={iterations} (all atomic orderings are executed as SeqCst)", opts.avoid_drop_after_rescind, opts.avoid_two_party_idle_rescind);
            let mut failures = vec![];
            let r = run_one("random", iterations, &dir, move |config| Runner::new(RandomScheduler::new_from_seed(seed, iterations), config).run(move || workload(opts)));
            failures.extend(r.map(|f| ("random", f)));
            for depth in [2usize, 3] {
                let name: &'static str = if depth == 2 { "pct(depth=2)" } else { "pct(depth=3)" };
                let r = run_one(name, iterations / 2, &dir, move |config| Runner::new(PctScheduler::new_from_seed(seed, depth, iterations / 2), config).run(move || workload(opts)));
                failures.extend(r.map(|f| (name, f)));
            }
            if failures.is_empty() {
                println!("OK property=C17 (shuttle)");
                std::process::exit(0);
            }
            let exe = std::env::current_exe().expect("exe");
            for (name, (msg, desc, file)) in &failures {
                println!("failure scheduler={name}: {msg}");
                if !msg.contains("history:") {
                    println!("  workload of the failing execution: {desc}");
                }
                match file {
                    Some(f) => {
                        // Show that the persisted schedule reproduces the failure, in a fresh process.
                        let st = std::process::Command::new(&exe).arg("replay").arg(f).stdout(std::process::Stdio::piped()).stderr(std::process::Stdio::null()).output();
                        let line = st.as_ref().map(|o| String::from_utf8_lossy(&o.stdout).lines().next().unwrap_or("").to_string()).unwrap_or_default();
                        let rule = |m: &str| m.split([':', '!']).next().unwrap_or("").trim().to_string();
                        let same_rule = line.strip_prefix("replay: reproduced message=").map(|m| rule(m) == rule(msg)).unwrap_or(false);
                        let reproduced = st.as_ref().map(|o| o.status.code() == Some(1)).unwrap_or(false) && same_rule;
                        println!("replay_from_file reproduced={reproduced} ({})", line.chars().take(160).collect::<String>());
                        println!("VIOLATION property=C17 replay={}", f.display());
                    }
                    None => println!("VIOLATION property=C17 replay=<schedule file not written>"),
                }
            }
            std::process::exit(1);
        }
        _ => {
            eprintln!("usage: vote-shuttle quick|thorough   (env VERIF_SEED, VOTE_SHUTTLE_AVOID_KNOWN=1|A|B, VOTE_SHUTTLE_ITERATIONS, VOTE_SHUTTLE_DIR)\n       vote-shuttle replay <schedule file>");
            std::process::exit(2);
        }
    }
}
