//! C13 ("stores: what was acknowledged is what is read back") on real threads under a controlled scheduler
//! (shuttle 0.9.3).
//!
//! The real source files of the in-memory store - `/repo/server/swimos_server_app/src/in_memory_store/mod.rs`
//! (`InMemoryPlanePersistence`, `InMemoryNodePersistence`, the Idle / InUse hand-over) and
//! `/repo/server/swimos_server_app/src/server/store/mod.rs` (`InMemoryPersistence::open_plane`) - are compiled into
//! this crate with `#[path]`; the `parking_lot` this crate depends on is `shim/parking_lot`, the same interface over a
//! mutex of the shuttle scheduler, so every acquisition in those files is a scheduling point (no hook in /repo). In the server the planes and
//! the node stores of one `InMemoryPersistence` are opened, used and dropped by agent tasks on different threads of
//! the tokio pool; the sequential store world cannot interleave them.
//!
//! One execution (workload drawn from `shuttle::rand`, replayed with the schedule): 2-3 threads each run 1-3
//! sessions; a session opens a plane (of 1-2 names), asks for the store of an agent (of 1-2 URIs), waits for it
//! (`shuttle::future::block_on`: an agent whose previous instance still holds the state waits for the hand-over),
//! reads the agent's counter, writes counter + 1, adds one map entry named after the session, and drops the store.
//! A quarter of the sessions give up when the store is not available at once (the request is dropped while the
//! previous instance still holds the state: an agent start that is cancelled). A request that is refused ("Multiple copies of agent instance starting": a third instance replaced it in the
//! queue) is counted, not judged.
//!
//! Invariants (sound for every interleaving), checked after all threads were joined by opening everything again:
//!   (i)   the counter of every (plane, agent) equals the number of sessions that were granted its store - no
//!         increment is lost, no state is handed to two instances at once, no state is orphaned;
//!   (ii)  its map holds exactly the entries of those sessions;
//!   (iii) the final open succeeds at once (no state is stuck InUse after every instance is gone).
//! LIMIT: the tokio oneshot channel inside the hand-over is not instrumented (its accesses happen under the plane
//! lock or after the wake-up, which are scheduling points).

#[allow(dead_code, unused_imports)]
#[path = "/repo/server/swimos_server_app/src/in_memory_store/mod.rs"]
mod in_memory_store;

#[allow(dead_code, unused_imports)]
mod server {
    #[path = "/repo/server/swimos_server_app/src/server/store/mod.rs"]
    pub mod store;
}

#[cfg(not(swimos_verif_shuttle))]
compile_error!("build with --cfg swimos_verif_shuttle (see .cargo/config.toml)");

use std::collections::{BTreeMap, BTreeSet};
use std::panic::{catch_unwind, AssertUnwindSafe};
use std::path::PathBuf;
// Plain std atomics / mutex: harness bookkeeping only, deliberately NOT scheduling points.
use std::sync::atomic::{AtomicU64, Ordering};
use std::sync::{Arc, Mutex};
use std::time::Instant;

use bytes::BytesMut;
use shuttle::rand::Rng;
use shuttle::scheduler::{PctScheduler, RandomScheduler};
use shuttle::{Config, FailurePersistence, Runner};
use swimos_api::persistence::{NodePersistence, PlanePersistence, RangeConsumer, ServerPersistence};

use server::store::in_memory::InMemoryPersistence;

const SOURCE_A: &str = include_str!("/repo/server/swimos_server_app/src/in_memory_store/mod.rs");
const SOURCE_B: &str = include_str!("/repo/server/swimos_server_app/src/server/store/mod.rs");

static EXECS: AtomicU64 = AtomicU64::new(0);
static SESSIONS: AtomicU64 = AtomicU64::new(0);
static GRANTED: AtomicU64 = AtomicU64::new(0);
static REFUSED: AtomicU64 = AtomicU64::new(0);
static WAITED: AtomicU64 = AtomicU64::new(0);
static ABANDONED: AtomicU64 = AtomicU64::new(0);
static LAST_DESC: Mutex<String> = Mutex::new(String::new());

fn bump(c: &AtomicU64, n: u64) {
    c.fetch_add(n, Ordering::Relaxed);
}

const PLANES: [&str; 2] = ["plane", "other"];
const AGENTS: [&str; 2] = ["/node/a", "/node/b"];

type Granted = Arc<Mutex<BTreeMap<(usize, usize), BTreeSet<String>>>>;

fn read_counter<N: NodePersistence>(node: &N, id: N::LaneId) -> u64 {
    let mut buf = BytesMut::new();
    match node.get_value(id, &mut buf) {
        Ok(Some(_)) => std::str::from_utf8(&buf).ok().and_then(|s| s.parse().ok()).unwrap_or(u64::MAX),
        Ok(None) => 0,
        Err(e) => panic!("C13.mem_threads:get_value_failed: {e:?}"),
    }
}

fn workload() {
    bump(&EXECS, 1);
    let mut rng = shuttle::rand::thread_rng();
    let n_threads = rng.gen_range(2usize..=3);
    let n_planes = rng.gen_range(1usize..=2);
    let n_agents = rng.gen_range(1usize..=2);
    // (plane, agent, give up if the store is not available at once)
    let scripts: Vec<Vec<(usize, usize, bool)>> = (0..n_threads)
        .map(|_| (0..rng.gen_range(1usize..=3)).map(|_| (rng.gen_range(0..n_planes), rng.gen_range(0..n_agents), rng.gen_bool(0.25))).collect())
        .collect();
    if let Ok(mut d) = LAST_DESC.lock() {
        *d = format!("sessions per thread (plane, agent, abandon if pending)={scripts:?}");
    }
    let store = Arc::new(InMemoryPersistence::default());
    let granted: Granted = Default::default();
    let mut handles = vec![];
    for (t, script) in scripts.into_iter().enumerate() {
        let store = store.clone();
        let granted = granted.clone();
        handles.push(shuttle::thread::spawn(move || {
            for (s, (p, a, abandon)) in script.into_iter().enumerate() {
                bump(&SESSIONS, 1);
                let plane = store.open_plane(PLANES[p]).expect("open_plane");
                let mut polls = 0u32;
                let mut fut = plane.node_store(AGENTS[a]);
                if abandon {
                    // An agent start that is cancelled while it waits for the state of the previous instance.
                    let waker = futures::task::noop_waker();
                    let mut cx = std::task::Context::from_waker(&waker);
                    if fut.as_mut().poll(&mut cx).is_pending() {
                        shuttle::thread::yield_now();
                        drop(fut);
                        bump(&ABANDONED, 1);
                        continue;
                    }
                    // (Ready on the first poll: the future is spent, ask again.)
                    fut = plane.node_store(AGENTS[a]);
                }
                let result = shuttle::future::block_on(std::future::poll_fn(|cx| {
                    polls += 1;
                    fut.as_mut().poll(cx)
                }));
                if polls > 1 {
                    bump(&WAITED, 1);
                }
                match result {
                    Ok(mut node) => {
                        bump(&GRANTED, 1);
                        let cid = node.id_for("counter").expect("id_for");
                        let mid = node.id_for("sessions").expect("id_for");
                        let v = read_counter(&node, cid);
                        node.put_value(cid, (v + 1).to_string().as_bytes()).expect("put_value");
                        let name = format!("t{t}s{s}");
                        node.update_map(mid, name.as_bytes(), b"1").expect("update_map");
                        granted.lock().unwrap().entry((p, a)).or_default().insert(name);
                        drop(node);
                    }
                    Err(_) => bump(&REFUSED, 1),
                }
            }
        }));
    }
    for h in handles {
        h.join().unwrap();
    }
    let desc = LAST_DESC.lock().map(|d| d.clone()).unwrap_or_default();
    let granted = granted.lock().unwrap().clone();
    for p in 0..n_planes {
        for a in 0..n_agents {
            let want = granted.get(&(p, a)).cloned().unwrap_or_default();
            let plane = store.open_plane(PLANES[p]).expect("open_plane");
            let mut fut = plane.node_store(AGENTS[a]);
            let waker = futures::task::noop_waker();
            let mut cx = std::task::Context::from_waker(&waker);
            let node = match fut.as_mut().poll(&mut cx) {
                std::task::Poll::Ready(Ok(n)) => n,
                std::task::Poll::Ready(Err(e)) => panic!("C13.mem_threads:final_open_refused: plane {} agent {}: {e:?}; {desc}", PLANES[p], AGENTS[a]),
                std::task::Poll::Pending => panic!("C13.mem_threads:state_stuck_in_use: plane {} agent {}: every instance is gone but the state is not available; {desc}", PLANES[p], AGENTS[a]),
            };
            let cid = node.id_for("counter").expect("id_for");
            let mid = node.id_for("sessions").expect("id_for");
            let v = read_counter(&node, cid);
            if v != want.len() as u64 {
                panic!("C13.mem_threads:counter: plane {} agent {}: {} instances were granted the store and each added 1, the counter reads {v}; {desc}", PLANES[p], AGENTS[a], want.len());
            }
            let mut have = BTreeSet::new();
            {
                let mut it = node.read_map(mid).expect("read_map");
                while let Ok(Some((k, _))) = it.consume_next() {
                    have.insert(String::from_utf8_lossy(k).to_string());
                }
            }
            if have != want {
                panic!("C13.mem_threads:map: plane {} agent {}: entries {have:?}, acknowledged {want:?}; {desc}", PLANES[p], AGENTS[a]);
            }
        }
    }
}

fn env_seed() -> u64 {
    std::env::var("VERIF_SEED").ok().and_then(|s| s.trim().parse().ok()).unwrap_or(20_240_925)
}

fn out_dir() -> PathBuf {
    let root = std::env::var("VERIF_ROOT").unwrap_or_else(|_| "/verif".to_string());
    let d = PathBuf::from(root).join("replays").join("shuttle-memstore");
    let _ = std::fs::create_dir_all(&d);
    d
}

fn panic_text(p: Box<dyn std::any::Any + Send>) -> String {
    p.downcast_ref::<&str>().map(|s| s.to_string()).or_else(|| p.downcast_ref::<String>().cloned()).unwrap_or_else(|| "<non-string panic>".into())
}

fn list_schedules(dir: &PathBuf) -> Vec<PathBuf> {
    let mut v: Vec<PathBuf> = std::fs::read_dir(dir)
        .map(|rd| rd.filter_map(|e| e.ok()).map(|e| e.path()).filter(|p| p.file_name().and_then(|n| n.to_str()).map(|n| n.starts_with("schedule")).unwrap_or(false)).collect())
        .unwrap_or_default();
    v.sort();
    v
}

fn run_one(name: &str, iterations: usize, dir: &PathBuf, run: impl FnOnce(Config) -> usize + Send + 'static) -> Option<(String, String, Option<PathBuf>)> {
    for c in [&EXECS, &SESSIONS, &GRANTED, &REFUSED, &WAITED, &ABANDONED] {
        c.store(0, Ordering::Relaxed);
    }
    let before = list_schedules(dir);
    let mut config = Config::new();
    config.failure_persistence = FailurePersistence::File(Some(dir.clone()));
    config.silence_warnings = true;
    let start = Instant::now();
    let res = std::thread::Builder::new()
        .name(format!("shuttle-{name}"))
        .spawn(move || catch_unwind(AssertUnwindSafe(move || run(config))))
        .expect("spawn")
        .join()
        .expect("join");
    let wall = start.elapsed().as_secs_f64();
    let g = |c: &AtomicU64| c.load(Ordering::Relaxed);
    println!(
        "  scheduler={name} iterations_requested={iterations} executions={} wall={wall:.1}s sessions={} granted={} granted_after_waiting_for_a_hand_over={} refused={} abandoned_while_waiting={}",
        g(&EXECS),
        g(&SESSIONS),
        g(&GRANTED),
        g(&WAITED),
        g(&REFUSED),
        g(&ABANDONED)
    );
    match res {
        Ok(_) => {
            println!("  scheduler={name} result=ok");
            None
        }
        Err(p) => {
            let msg = panic_text(p);
            let desc = LAST_DESC.lock().map(|d| d.clone()).unwrap_or_default();
            let after = list_schedules(dir);
            let file = after.into_iter().filter(|p| !before.contains(p)).last();
            println!("  scheduler={name} result=FAILED message={}", msg.lines().next().unwrap_or(""));
            Some((msg, desc, file))
        }
    }
}

fn main() {
    let args: Vec<String> = std::env::args().collect();
    if !SOURCE_A.contains("use parking_lot::Mutex;") || !SOURCE_B.contains("use parking_lot::Mutex;") {
        eprintln!("HARNESS-ERROR: the in-memory store no longer takes its mutex from parking_lot: the shim does not reach it");
        std::process::exit(2);
    }
    std::panic::set_hook(Box::new(|info| {
        if std::env::var("VERIF_SHOW_PANICS").is_ok() {
            eprintln!("panic: {info}");
        }
    }));
    match args.get(1).map(|s| s.as_str()) {
        Some("replay") => {
            let Some(file) = args.get(2) else {
                eprintln!("usage: memstore-shuttle replay <schedule file>");
                std::process::exit(2)
            };
            let file2 = file.clone();
            let res = catch_unwind(AssertUnwindSafe(move || shuttle::replay_from_file(workload, file2)));
            match res {
                Ok(_) => {
                    println!("replay: not reproduced");
                    std::process::exit(0);
                }
                Err(p) => {
                    println!("replay: reproduced message={}", panic_text(p).lines().next().unwrap_or(""));
                    println!("VIOLATION property=C13 replay={file}");
                    std::process::exit(1);
                }
            }
        }
        Some(t @ ("quick" | "thorough")) => {
            let seed = env_seed();
            let iterations: usize = std::env::var("MEMSTORE_SHUTTLE_ITERATIONS").ok().and_then(|s| s.parse().ok()).unwrap_or(if t == "quick" { 100_000 } else { 2_000_000 });
            let dir = out_dir();
            println!("shuttle check property=C13 tier={t} seed={seed} iterations_per_scheduler={iterations}");
            let mut failures = vec![];
            let r = run_one("random", iterations, &dir, move |config| Runner::new(RandomScheduler::new_from_seed(seed, iterations), config).run(workload));
            failures.extend(r.map(|f| ("random", f)));
            for depth in [2usize, 3] {
                let name: &'static str = if depth == 2 { "pct(depth=2)" } else { "pct(depth=3)" };
                let r = run_one(name, iterations / 2, &dir, move |config| Runner::new(PctScheduler::new_from_seed(seed, depth, iterations / 2), config).run(workload));
                failures.extend(r.map(|f| (name, f)));
            }
            if failures.is_empty() {
                println!("OK property=C13 (shuttle)");
                std::process::exit(0);
            }
            let exe = std::env::current_exe().expect("exe");
            for (name, (msg, _desc, file)) in &failures {
                println!("failure scheduler={name}: {msg}");
                match file {
                    Some(f) => {
                        let st = std::process::Command::new(&exe).arg("replay").arg(f).stdout(std::process::Stdio::piped()).stderr(std::process::Stdio::null()).output();
                        let line = st.as_ref().map(|o| String::from_utf8_lossy(&o.stdout).lines().next().unwrap_or("").to_string()).unwrap_or_default();
                        let rule = |m: &str| m.split(' ').next().unwrap_or("").trim().to_string();
                        let same_rule = line.strip_prefix("replay: reproduced message=").map(|m| rule(m) == rule(msg)).unwrap_or(false);
                        let reproduced = st.as_ref().map(|o| o.status.code() == Some(1)).unwrap_or(false) && same_rule;
                        println!("replay_from_file reproduced={reproduced} ({})", line.chars().take(160).collect::<String>());
                        println!("VIOLATION property=C13 replay={}", f.display());
                    }
                    None => println!("VIOLATION property=C13 replay=<schedule file not written>"),
                }
            }
            std::process::exit(1);
        }
        _ => {
            eprintln!("usage: memstore-shuttle quick|thorough   (env VERIF_SEED, MEMSTORE_SHUTTLE_ITERATIONS)\n       memstore-shuttle replay <schedule file>");
            std::process::exit(2);
        }
    }
}
