//! Stands in for `parking_lot` in the memstore-shuttle engine only: the interface the in-memory store uses
//! (`Mutex::lock` without poisoning, `Default`, `Debug`) over a mutex of the shuttle scheduler, so that every
//! acquisition in the product source compiled into that engine is a scheduling point. No hook in /repo is needed.

pub struct Mutex<T>(shuttle::sync::Mutex<T>);

pub type MutexGuard<'a, T> = shuttle::sync::MutexGuard<'a, T>;

impl<T> Mutex<T> {
    pub fn new(t: T) -> Self {
        Mutex(shuttle::sync::Mutex::new(t))
    }
    pub fn lock(&self) -> MutexGuard<'_, T> {
        match self.0.lock() {
            Ok(g) => g,
            Err(p) => p.into_inner(),
        }
    }
}

impl<T: Default> Default for Mutex<T> {
    fn default() -> Self {
        Mutex::new(T::default())
    }
}

impl<T> std::fmt::Debug for Mutex<T> {
    fn fmt(&self, f: &mut std::fmt::Formatter<'_>) -> std::fmt::Result {
        f.write_str("Mutex { .. }")
    }
}
