#!/usr/bin/env python3
"""Adds the minimised replays of a mutcheck run to the regression corpus.
usage: corpus_add.py <replays-dir> <origin-label>
Each replay file <prop>-<world>-<hash>.json becomes corpus/<prop>/<origin>-<world>-<hash>.json
(world + scenario + origin; the violation and log of the changed tree are dropped: on the unchanged tree
the scenario is clean, and it is judged by the live oracle on every run)."""
import json, os, sys, glob
src, origin = sys.argv[1], sys.argv[2]
root = os.path.dirname(os.path.abspath(__file__))
n = 0
for f in sorted(glob.glob(os.path.join(src, '*.json'))):
    r = json.load(open(f))
    if 'scenario' not in r or 'world' not in r:
        continue
    d = os.path.join(root, 'corpus', r['property'])
    os.makedirs(d, exist_ok=True)
    name = f"{origin}-{r['world']}-{os.path.basename(f).rsplit('-',1)[-1]}"
    json.dump({'world': r['world'], 'origin': f"{origin}: {r['violation']['sig']}", 'scenario': r['scenario']},
              open(os.path.join(d, name), 'w'), indent=1)
    n += 1
print(f"{n} corpus entries from {src} ({origin})")
