#!/bin/bash
# Evaluates a seeded defect without touching /repo: ./mutcheck.sh <patch.diff> <property> [tier] [extra patch ...]
# Applies the patch to the scratch worktree /tmp/mutrepo, builds a copy of the simulator against it, runs the check.
set -u
PATCH="$1"; PROP="$2"; TIER="${3:-quick}"
git -C /tmp/mutrepo checkout -q -- . && git -C /tmp/mutrepo clean -fdq -e target && git -C /tmp/mutrepo checkout -q --detach $(git -C /repo rev-parse HEAD)
git -C /tmp/mutrepo apply "$PATCH" || { echo "patch does not apply"; exit 3; }
mkdir -p /tmp/mutsim
rsync -a --delete --exclude target /verif/sim/ /tmp/mutsim/sim/
grep -rl '/repo/' /tmp/mutsim/sim/Cargo.toml /tmp/mutsim/sim/src | xargs sed -i 's#"/repo/#"/tmp/mutrepo/#g'
( cd /tmp/mutsim/sim && CARGO_TARGET_DIR=/tmp/mutsim/target cargo build --release --offline 2>&1 | grep -E "^error" -A8 | head -30 )
mkdir -p /tmp/mutsim/out
cp /verif/known_findings.json /tmp/mutsim/out/
VERIF_ROOT=/tmp/mutsim/out /tmp/mutsim/target/release/simctl check "$PROP" "$TIER" 2>&1 | grep -v "^  note" | cut -c1-400
echo "exit=$?"
git -C /tmp/mutrepo checkout -q -- .
