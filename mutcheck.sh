#!/bin/bash
# Evaluates a seeded defect without touching /repo: ./mutcheck.sh <patch.diff> <property> [tier] [extra patch ...]
# Applies the patch to the scratch worktree $MR, builds a copy of the simulator against it, runs the check.
set -u
PATCH="$1"; PROP="$2"; TIER="${3:-quick}"
# MUTSLOT selects an independent scratch pair so that several evaluations can run in parallel.
S="${MUTSLOT:-}"; MR=/tmp/mutrepo$S; MS=/tmp/mutsim$S
[ -d $MR ] || git -C /repo worktree add -q --detach $MR HEAD
git -C $MR checkout -q -- . && git -C $MR clean -fdq -e target && git -C $MR checkout -q --detach $(git -C /repo rev-parse HEAD)
git -C $MR apply "$PATCH" || { echo "patch does not apply"; exit 3; }
mkdir -p $MS
rsync -a --delete --exclude target /verif/sim/ $MS/sim/
grep -rl '/repo/' $MS/sim/Cargo.toml $MS/sim/src | xargs sed -i "s#\"/repo/#\"$MR/#g"
( cd $MS/sim && CARGO_TARGET_DIR=$MS/target cargo build --release --offline 2>&1 | grep -E "^error" -A8 | head -30 )
mkdir -p $MS/out; rm -rf $MS/out/replays $MS/out/corpus; [ -d /verif/corpus ] && [ -z "${NO_CORPUS:-}" ] && cp -r /verif/corpus $MS/out/corpus
cp /verif/known_findings.json $MS/out/
VERIF_ROOT=$MS/out $MS/target/release/simctl check "$PROP" "$TIER" 2>&1 | grep -a -v "^  note" | cut -c1-400
echo "exit=$?"
git -C $MR checkout -q -- .
