//! The simulated executor: the only thing that ever polls a top-level future ("node").
//!
//! One *step* = remove one id from the ready set (chosen by the seeded scheduler), poll that node
//! once. The global step counter stamps every recorded event (frames, store calls, ground truth).

use std::cell::Cell;
use std::collections::BTreeSet;
use std::future::Future;
use std::num::NonZeroUsize;
use std::panic::{catch_unwind, AssertUnwindSafe};
use std::pin::Pin;
use std::sync::{Arc, Mutex};
use std::task::{Context, Poll, Wake, Waker};
use std::time::Duration;

use swimos_utilities::byte_channel::RunWithBudget;

use super::log::EventLog;
use super::rng::Rng;

thread_local! {
    static STEP: Cell<u64> = const { Cell::new(0) };
}

/// The global step number of the poll that is currently executing (usable from inside any node,
/// including lifecycle handlers of the agent under test and store implementations).
pub fn now_step() -> u64 {
    STEP.with(|s| s.get())
}

pub type NodeId = usize;
pub type NodeFut = Pin<Box<dyn Future<Output = ()>>>;

struct Shared {
    ready: Mutex<BTreeSet<NodeId>>,
    outer: Mutex<Option<Waker>>,
}

struct NodeWaker {
    id: NodeId,
    shared: Arc<Shared>,
}

impl Wake for NodeWaker {
    fn wake(self: Arc<Self>) {
        self.wake_by_ref()
    }
    fn wake_by_ref(self: &Arc<Self>) {
        self.shared.ready.lock().unwrap().insert(self.id);
        if let Some(w) = self.shared.outer.lock().unwrap().take() {
            w.wake();
        }
    }
}

#[derive(Clone, Debug, PartialEq, Eq)]
pub enum Policy {
    /// Uniform choice among the ready nodes.
    Random,
    /// Always the lowest ready id (baseline that mimics a fair single threaded runtime).
    Lowest,
    /// Rotating cursor over the ids.
    RoundRobin,
    /// Random priorities with `change_points` priority changes at drawn steps (PCT-like).
    Pct { change_points: u32 },
    /// Like Random but the given node is only chosen when nothing else is ready for `steps` steps.
    Starve { node: NodeId, steps: u64 },
}

pub struct Scheduler {
    rng: Rng,
    policy: Policy,
    cursor: usize,
    prios: Vec<u64>,
    changes: Vec<u64>,
}

impl Scheduler {
    pub fn new(rng: Rng, policy: Policy, horizon: u64) -> Scheduler {
        let mut rng = rng;
        let mut changes = vec![];
        if let Policy::Pct { change_points } = &policy {
            for _ in 0..*change_points {
                changes.push(rng.below(horizon.max(1)));
            }
        }
        Scheduler {
            rng,
            policy,
            cursor: 0,
            prios: vec![],
            changes,
        }
    }

    fn prio(&mut self, id: NodeId) -> u64 {
        while self.prios.len() <= id {
            let p = self.rng.next_u64() | 1;
            self.prios.push(p);
        }
        self.prios[id]
    }

    fn choose(&mut self, ready: &BTreeSet<NodeId>, step: u64) -> NodeId {
        debug_assert!(!ready.is_empty());
        match self.policy.clone() {
            Policy::Random => {
                let k = self.rng.usize_below(ready.len());
                *ready.iter().nth(k).unwrap()
            }
            Policy::Lowest => *ready.iter().next().unwrap(),
            Policy::RoundRobin => {
                let next = ready
                    .range(self.cursor..)
                    .next()
                    .or_else(|| ready.iter().next())
                    .copied()
                    .unwrap();
                self.cursor = next + 1;
                next
            }
            Policy::Pct { .. } => {
                if self.changes.contains(&step) {
                    // Demote the node that would have run.
                    let mut best = None;
                    for id in ready.iter() {
                        let p = self.prio(*id);
                        if best.map(|(bp, _)| p > bp).unwrap_or(true) {
                            best = Some((p, *id));
                        }
                    }
                    let (_, id) = best.unwrap();
                    self.prios[id] = self.rng.below(1 << 20);
                }
                let mut best = None;
                for id in ready.iter() {
                    let p = self.prio(*id);
                    if best.map(|(bp, _)| p > bp).unwrap_or(true) {
                        best = Some((p, *id));
                    }
                }
                best.unwrap().1
            }
            Policy::Starve { node, steps } => {
                if step < steps && ready.len() > 1 && ready.contains(&node) {
                    let k = self.rng.usize_below(ready.len() - 1);
                    *ready.iter().filter(|i| **i != node).nth(k).unwrap()
                } else {
                    let k = self.rng.usize_below(ready.len());
                    *ready.iter().nth(k).unwrap()
                }
            }
        }
    }
}

struct Node {
    name: String,
    fut: Option<NodeFut>,
    waker: Waker,
    polls: u64,
}

#[derive(Debug, Clone, Copy, PartialEq, Eq)]
pub enum RunEnd {
    /// The ready set is empty.
    Idle,
    /// The step budget was exhausted.
    StepLimit,
}

/// Record of a panic that escaped a node's poll.
#[derive(Debug, Clone)]
pub struct NodePanic {
    pub node: String,
    pub step: u64,
    pub message: String,
}

pub struct Exec {
    nodes: Vec<Node>,
    shared: Arc<Shared>,
    sched: Scheduler,
    pub steps: u64,
    pub log: EventLog,
    pub panics: Vec<NodePanic>,
    /// Number of steps at which more than one node was ready (a real scheduling decision).
    pub decisions: u64,
    /// Log each poll (costly; only for replays / samples).
    pub trace_polls: bool,
}

impl Exec {
    pub fn new(sched: Scheduler, log: EventLog) -> Exec {
        STEP.with(|s| s.set(0));
        Exec {
            nodes: vec![],
            shared: Arc::new(Shared {
                ready: Mutex::new(BTreeSet::new()),
                outer: Mutex::new(None),
            }),
            sched,
            steps: 0,
            log,
            panics: vec![],
            decisions: 0,
            trace_polls: false,
        }
    }

    /// Adds a node; it is immediately ready. `budget` is the byte channel coop budget that is set
    /// whenever the node is polled (a node is pre-empted after that many channel operations).
    pub fn spawn<F>(&mut self, name: &str, budget: usize, fut: F) -> NodeId
    where
        F: Future<Output = ()> + 'static,
    {
        let id = self.nodes.len();
        let waker = Waker::from(Arc::new(NodeWaker {
            id,
            shared: self.shared.clone(),
        }));
        let budget = NonZeroUsize::new(budget.max(1)).unwrap();
        let fut: NodeFut = Box::pin(RunWithBudget::with_budget(budget, fut));
        self.nodes.push(Node {
            name: name.to_string(),
            fut: Some(fut),
            waker,
            polls: 0,
        });
        self.shared.ready.lock().unwrap().insert(id);
        id
    }

    /// Drops the future of a node ("process killed"). Everything it owned is dropped.
    pub fn kill(&mut self, id: NodeId) {
        let fut = self.nodes[id].fut.take();
        self.shared.ready.lock().unwrap().remove(&id);
        drop(fut);
    }

    pub fn is_done(&self, id: NodeId) -> bool {
        self.nodes[id].fut.is_none()
    }

    pub fn name(&self, id: NodeId) -> &str {
        &self.nodes[id].name
    }

    pub fn polls(&self, id: NodeId) -> u64 {
        self.nodes[id].polls
    }

    pub fn has_ready(&self) -> bool {
        !self.shared.ready.lock().unwrap().is_empty()
    }

    pub fn wake(&self, id: NodeId) {
        if self.nodes[id].fut.is_some() {
            self.shared.ready.lock().unwrap().insert(id);
        }
    }

    /// Makes every live node ready (used when a harness flag that nodes poll for has changed).
    pub fn wake_all(&self) {
        let mut ready = self.shared.ready.lock().unwrap();
        for (id, n) in self.nodes.iter().enumerate() {
            if n.fut.is_some() {
                ready.insert(id);
            }
        }
    }

    /// Makes every live node ready except the given ones (the nodes that run product code: a spurious poll of
    /// those would hide a wake-up the product lost).
    pub fn wake_all_except(&self, skip: &[NodeId]) {
        let mut ready = self.shared.ready.lock().unwrap();
        for (id, n) in self.nodes.iter().enumerate() {
            if n.fut.is_some() && !skip.contains(&id) {
                ready.insert(id);
            }
        }
    }

    /// Performs one step; false if nothing was ready.
    pub fn step(&mut self) -> bool {
        let id = {
            let mut ready = self.shared.ready.lock().unwrap();
            if ready.is_empty() {
                return false;
            }
            if ready.len() > 1 {
                self.decisions += 1;
            }
            let id = self.sched.choose(&ready, self.steps);
            ready.remove(&id);
            id
        };
        self.steps += 1;
        STEP.with(|s| s.set(self.steps));
        let node = &mut self.nodes[id];
        let Some(fut) = node.fut.as_mut() else {
            return true;
        };
        node.polls += 1;
        let waker = node.waker.clone();
        let mut cx = Context::from_waker(&waker);
        let result = catch_unwind(AssertUnwindSafe(|| fut.as_mut().poll(&mut cx)));
        match result {
            Ok(Poll::Ready(())) => {
                node.fut = None;
                if self.trace_polls {
                    let name = node.name.clone();
                    self.log.rec(self.steps, "done", &name);
                }
            }
            Ok(Poll::Pending) => {
                if self.trace_polls {
                    let name = node.name.clone();
                    self.log.rec(self.steps, "poll", &name);
                }
            }
            Err(payload) => {
                let message = if let Some(s) = payload.downcast_ref::<&str>() {
                    s.to_string()
                } else if let Some(s) = payload.downcast_ref::<String>() {
                    s.clone()
                } else {
                    "<non-string panic>".to_string()
                };
                let name = node.name.clone();
                // The future is in an unspecified state after a panic: drop it (and everything
                // it owns), as the runtime would.
                let f = node.fut.take();
                let _ = catch_unwind(AssertUnwindSafe(move || drop(f)));
                self.log.rec(self.steps, "panic", &format!("{} {}", name, message));
                self.panics.push(NodePanic {
                    node: name,
                    step: self.steps,
                    message,
                });
            }
        }
        true
    }

    /// Runs steps until nothing is ready or `max_steps` (absolute step number) is reached.
    pub fn run_until_idle(&mut self, max_steps: u64) -> RunEnd {
        loop {
            if self.steps >= max_steps {
                return RunEnd::StepLimit;
            }
            if !self.step() {
                return RunEnd::Idle;
            }
        }
    }

    /// Lets simulated time pass: waits until some node is woken (by a timer, typically) or until
    /// `max` of simulated time has elapsed. Returns true if something is ready.
    pub async fn wait_for_wake(&mut self, max: Duration) -> bool {
        let shared = self.shared.clone();
        let wait = std::future::poll_fn(move |cx| {
            if !shared.ready.lock().unwrap().is_empty() {
                return Poll::Ready(());
            }
            *shared.outer.lock().unwrap() = Some(cx.waker().clone());
            if !shared.ready.lock().unwrap().is_empty() {
                Poll::Ready(())
            } else {
                Poll::Pending
            }
        });
        tokio::time::timeout(max, wait).await.is_ok()
    }

    /// Names of the nodes that have not completed.
    pub fn live_nodes(&self) -> Vec<String> {
        self.nodes
            .iter()
            .filter(|n| n.fut.is_some())
            .map(|n| n.name.clone())
            .collect()
    }
}
