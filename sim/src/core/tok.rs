//! Tokio seam: current-thread runtime, paused discrete-event clock, seeded `select!`.

use std::future::Future;

use tokio::runtime::{Builder, RngSeed};

/// Runs `fut` to completion on a fresh current-thread runtime whose clock is paused (time only
/// moves when the future is idle, jumping to the next timer) and whose internal RNG (the start
/// branch of `select!`) is seeded.
pub fn block_on_sim<F: Future>(tokio_seed: u64, fut: F) -> F::Output {
    let rt = Builder::new_current_thread()
        .enable_time()
        .start_paused(true)
        .rng_seed(RngSeed::from_bytes(&tokio_seed.to_le_bytes()))
        .build()
        .expect("runtime");
    let out = rt.block_on(fut);
    drop(rt);
    out
}
