//! Check driver: seeded search over many simulated runs, minimisation, self-replay, evidence.

use std::collections::{BTreeMap, BTreeSet};
use std::path::{Path, PathBuf};
use std::sync::atomic::{AtomicBool, AtomicU64, Ordering};
use std::sync::{Arc, Mutex};
use std::time::Instant;

use serde::{Deserialize, Serialize};
use serde_json::{json, Value as Json};

use super::rng::{fnv1a, mix};
use super::{Outcome, Tier, Violation, World};

pub const DEFAULT_SEED: u64 = 20_240_925;

pub fn verif_root() -> PathBuf {
    if let Ok(p) = std::env::var("VERIF_ROOT") {
        return PathBuf::from(p);
    }
    // The binary lives in <root>/sim/target/release/simctl.
    let exe = std::env::current_exe().expect("exe");
    let mut p = exe.as_path();
    for _ in 0..4 {
        p = p.parent().unwrap_or(Path::new("/verif"));
    }
    p.to_path_buf()
}

/// The path of this executable for spawning child processes. If the binary was replaced on disk while this
/// process runs (a rebuild during a long batch), Linux reports "<path> (deleted)"; the path itself is used then
/// (the new binary at the same place understands the same hidden sub-commands).
pub fn self_exe() -> Result<PathBuf, String> {
    let exe = std::env::current_exe().map_err(|e| format!("current_exe: {e}"))?;
    let s = exe.to_string_lossy().to_string();
    Ok(match s.strip_suffix(" (deleted)") {
        Some(t) => PathBuf::from(t),
        None => exe,
    })
}

pub fn env_seed() -> u64 {
    std::env::var("VERIF_SEED")
        .ok()
        .and_then(|s| s.trim().parse::<u64>().ok())
        .unwrap_or(DEFAULT_SEED)
}

/// Runs a closure on a fresh OS thread (fresh thread-locals: HashMap keys, coop budget, tokio
/// context) and returns its result; panics are reported as harness errors.
pub fn on_fresh_thread<T: Send + 'static>(f: impl FnOnce() -> T + Send + 'static) -> Result<T, String> {
    let handle = std::thread::Builder::new()
        .name("sim-run".into())
        .stack_size(16 << 20)
        .spawn(f)
        .map_err(|e| format!("spawn failed: {e}"))?;
    handle.join().map_err(|p| {
        if let Some(s) = p.downcast_ref::<&str>() {
            s.to_string()
        } else if let Some(s) = p.downcast_ref::<String>() {
            s.clone()
        } else {
            "harness panic".to_string()
        }
    })
}

pub fn execute_isolated(world: &Arc<dyn World>, scenario: &Json, keep_log: bool) -> Outcome {
    let w = world.clone();
    let sc = scenario.clone();
    // The start value of std's hash keys on the run's thread is part of the scenario.
    let hash_seed = scenario
        .get("hash_seed")
        .or_else(|| scenario.get("knobs").and_then(|k| k.get("hash_seed")))
        .or_else(|| scenario.get("base").and_then(|k| k.get("hash_seed")))
        .and_then(|v| v.as_u64())
        .unwrap_or(0);
    match on_fresh_thread(move || {
        crate::set_thread_hash_seed(hash_seed);
        w.execute(&sc, keep_log)
    }) {
        Ok(o) => o,
        Err(msg) => Outcome {
            harness_error: Some(format!("harness panic: {msg}")),
            ..Default::default()
        },
    }
}

pub struct Part {
    pub world: Arc<dyn World>,
    pub quick_runs: u64,
    pub thorough_runs: u64,
}

pub struct CheckSpec {
    pub property: &'static str,
    pub level: &'static str,
    pub parts: Vec<Part>,
    pub assumptions: Vec<String>,
}

#[derive(Debug, Clone, Serialize, Deserialize)]
pub struct KnownFinding {
    pub property: String,
    /// The finding matches violations whose signature starts with this.
    pub sig_prefix: String,
    pub what: String,
    /// "open" suppresses; anything else ("fixed: <commit>") suppresses nothing.
    pub status: String,
}

#[derive(Debug, Clone, Serialize, Deserialize, Default)]
pub struct KnownFindings {
    #[serde(default)]
    pub findings: Vec<KnownFinding>,
}

pub fn load_known_findings() -> KnownFindings {
    let path = verif_root().join("known_findings.json");
    match std::fs::read_to_string(&path) {
        Ok(s) => serde_json::from_str(&s).unwrap_or_default(),
        Err(_) => KnownFindings::default(),
    }
}

#[derive(Debug, Clone, Serialize, Deserialize)]
pub struct ReplayFile {
    pub property: String,
    pub world: String,
    pub seed: u64,
    pub run_index: u64,
    pub scenario: Json,
    pub violation: Violation,
    pub log_hash: String,
    #[serde(default)]
    pub original_size: usize,
    #[serde(default)]
    pub minimised_size: usize,
    #[serde(default)]
    pub log: Vec<String>,
}

struct Found {
    index: u64,
    scenario: Json,
    violation: Violation,
}

#[derive(Default)]
struct Agg {
    runs: u64,
    steps: u64,
    decisions: u64,
    sim_ms: u64,
    counters: BTreeMap<String, u64>,
    nontrivial_hashes: BTreeSet<u64>,
    all_hashes: BTreeSet<u64>,
    nontrivial_runs: u64,
    found: Vec<Found>,
    /// Number of violations per signature (the scenarios kept in `found` are capped per signature, so that a frequent
    /// known finding cannot crowd out a rare new violation).
    sig_counts: BTreeMap<String, u64>,
    other_property: BTreeMap<String, u64>,
    harness_errors: Vec<String>,
    sample_indices: Vec<u64>,
}

/// One entry of the regression corpus: a minimised scenario that once exposed a defect (repaired since) or an
/// independently seeded change. The corpus is executed before the seeded search of its world; it passes on a tree
/// where the property holds and is judged by the same oracle as every generated run.
#[derive(Debug, Clone, Serialize, Deserialize)]
pub struct CorpusEntry {
    pub world: String,
    pub scenario: Json,
    #[serde(default)]
    pub origin: String,
}

/// Loads `<root>/corpus/<property>/*.json` for one world, sorted by file name.
pub fn load_corpus(property: &str, world: &str) -> (Vec<(String, CorpusEntry)>, Vec<String>) {
    let dir = verif_root().join("corpus").join(property);
    let mut names = vec![];
    if let Ok(rd) = std::fs::read_dir(&dir) {
        for e in rd.flatten() {
            let n = e.file_name().to_string_lossy().to_string();
            if n.ends_with(".json") {
                names.push(n);
            }
        }
    }
    names.sort();
    let mut out = vec![];
    let mut errors = vec![];
    for n in names {
        let path = dir.join(&n);
        match std::fs::read_to_string(&path)
            .map_err(|e| e.to_string())
            .and_then(|t| serde_json::from_str::<CorpusEntry>(&t).map_err(|e| e.to_string()))
        {
            Ok(c) => {
                if c.world == world {
                    out.push((n, c));
                }
            }
            Err(e) => errors.push(format!("corpus file {} unreadable: {e}", path.display())),
        }
    }
    (out, errors)
}

pub const CORPUS_INDEX_BASE: u64 = 1_000_000_000_000;

fn json_size(j: &Json) -> usize {
    match j {
        Json::Array(a) => 1 + a.iter().map(json_size).sum::<usize>(),
        Json::Object(o) => 1 + o.values().map(json_size).sum::<usize>(),
        _ => 1,
    }
}

/// Greedy minimisation: repeatedly take the first candidate that still shows the same signature.
pub fn minimise(
    world: &Arc<dyn World>,
    scenario: &Json,
    property: &str,
    sig: &str,
    max_execs: usize,
    max_secs: f64,
) -> (Json, usize) {
    let start = Instant::now();
    let mut cur = scenario.clone();
    let mut execs = 0usize;
    'outer: loop {
        let cands = world.shrink(&cur);
        for cand in cands {
            if execs >= max_execs || start.elapsed().as_secs_f64() > max_secs {
                break 'outer;
            }
            if cand == cur {
                continue;
            }
            execs += 1;
            let out = execute_isolated(world, &cand, false);
            if out.harness_error.is_none()
                && out
                    .violations
                    .iter()
                    .any(|v| v.property == property && v.sig == sig)
            {
                cur = cand;
                continue 'outer;
            }
        }
        break;
    }
    (cur, execs)
}

pub struct CheckResult {
    pub exit_code: i32,
}

fn run_part(
    part: &Part,
    property: &str,
    tier: Tier,
    seed: u64,
    deadline: Option<Instant>,
    workers: usize,
) -> Agg {
    let world = part.world.clone();
    let total = match tier {
        Tier::Quick => part.quick_runs,
        Tier::Thorough => part.thorough_runs,
    };
    let next = Arc::new(AtomicU64::new(0));
    let stop = Arc::new(AtomicBool::new(false));
    let agg = Arc::new(Mutex::new(Agg::default()));
    let mut handles = vec![];
    for _ in 0..workers {
        let world = world.clone();
        let next = next.clone();
        let agg = agg.clone();
        let stop = stop.clone();
        let property = property.to_string();
        handles.push(std::thread::spawn(move || {
            let mut local = Agg::default();
            loop {
                if stop.load(Ordering::Relaxed) {
                    break;
                }
                let i = next.fetch_add(1, Ordering::Relaxed);
                if i >= total {
                    break;
                }
                if let Some(d) = deadline {
                    if Instant::now() > d {
                        stop.store(true, Ordering::Relaxed);
                        break;
                    }
                }
                let run_seed = mix(seed, world.name(), i);
                let scenario = world.generate_at(seed, i, tier);
                let out = execute_isolated(&world, &scenario, false);
                local.runs += 1;
                local.steps += out.steps;
                local.decisions += out.decisions;
                local.sim_ms += out.sim_time_ms;
                for (k, v) in &out.counters {
                    *local.counters.entry(k.clone()).or_insert(0) += *v;
                }
                local.all_hashes.insert(out.log_hash);
                if out.nontrivial {
                    local.nontrivial_runs += 1;
                    if local.nontrivial_hashes.insert(out.log_hash) && local.sample_indices.len() < 4 {
                        local.sample_indices.push(i);
                    }
                }
                if let Some(e) = out.harness_error {
                    if local.harness_errors.len() < 5 {
                        local.harness_errors.push(format!("run {i} (seed {run_seed}): {e}"));
                    }
                }
                for v in out.violations {
                    if v.property == property {
                        let n = local.sig_counts.entry(v.sig.clone()).or_insert(0);
                        *n += 1;
                        if *n <= 4 {
                            local.found.push(Found {
                                index: i,
                                scenario: scenario.clone(),
                                violation: v,
                            });
                        }
                    } else {
                        *local.other_property.entry(v.sig.clone()).or_insert(0) += 1;
                    }
                }
            }
            let mut a = agg.lock().unwrap();
            a.runs += local.runs;
            a.steps += local.steps;
            a.decisions += local.decisions;
            a.sim_ms += local.sim_ms;
            for (k, v) in local.counters {
                *a.counters.entry(k).or_insert(0) += v;
            }
            a.nontrivial_hashes.extend(local.nontrivial_hashes);
            a.all_hashes.extend(local.all_hashes);
            a.nontrivial_runs += local.nontrivial_runs;
            a.found.extend(local.found);
            for (k, v) in local.sig_counts {
                *a.sig_counts.entry(k).or_insert(0) += v;
            }
            for (k, v) in local.other_property {
                *a.other_property.entry(k).or_insert(0) += v;
            }
            a.harness_errors.extend(local.harness_errors);
            a.sample_indices.extend(local.sample_indices);
        }));
    }
    for h in handles {
        let _ = h.join();
    }
    let mut a = std::mem::take(&mut *agg.lock().unwrap());
    a.found.sort_by(|x, y| (x.index, &x.violation.sig).cmp(&(y.index, &y.violation.sig)));
    a.sample_indices.sort();
    a
}

pub fn run_check(spec: &CheckSpec, tier: Tier, seed: u64) -> CheckResult {
    let start = Instant::now();
    let root = verif_root();
    let workers = std::env::var("VERIF_WORKERS")
        .ok()
        .and_then(|s| s.parse::<usize>().ok())
        .unwrap_or_else(|| std::thread::available_parallelism().map(|n| n.get()).unwrap_or(8));
    let max_secs = std::env::var("VERIF_MAX_SECS")
        .ok()
        .and_then(|s| s.parse::<f64>().ok())
        .unwrap_or(match tier {
            Tier::Quick => 240.0,
            Tier::Thorough => 3000.0,
        });
    let deadline = Some(start + std::time::Duration::from_secs_f64(max_secs));
    let known = load_known_findings();

    println!("check property={} tier={} seed={} workers={}", spec.property, tier.name(), seed, workers);

    let mut evidence_parts = vec![];
    let mut total_runs = 0u64;
    let mut total_distinct = 0u64;
    let mut samples: Vec<Json> = vec![];
    let mut violation_lines = vec![];
    let mut known_lines = BTreeSet::new();
    let mut harness_errors = vec![];
    let mut unknown_violations = 0i64;
    let mut rules = vec![];
    let mut components = vec![];

    for part in &spec.parts {
        let pstart = Instant::now();
        let mut agg = run_part(part, spec.property, tier, seed, deadline, workers);
        let world = &part.world;
        // Regression corpus of this world (same oracle, fixed scenarios).
        let (corpus, corpus_errors) = load_corpus(spec.property, world.name());
        harness_errors.extend(corpus_errors);
        let mut corpus_runs = 0u64;
        for (k, (name, entry)) in corpus.iter().enumerate() {
            let out = execute_isolated(world, &entry.scenario, false);
            corpus_runs += 1;
            agg.steps += out.steps;
            agg.decisions += out.decisions;
            agg.sim_ms += out.sim_time_ms;
            if let Some(e) = out.harness_error {
                harness_errors.push(format!("corpus {name}: {e}"));
            }
            for v in out.violations {
                if v.property == spec.property {
                    *agg.sig_counts.entry(v.sig.clone()).or_insert(0) += 1;
                    agg.found.push(Found {
                        index: CORPUS_INDEX_BASE + k as u64,
                        scenario: entry.scenario.clone(),
                        violation: v,
                    });
                } else {
                    *agg.other_property.entry(v.sig.clone()).or_insert(0) += 1;
                }
            }
        }
        let wall = pstart.elapsed().as_secs_f64();
        total_runs += agg.runs;
        total_distinct += agg.nontrivial_hashes.len() as u64;
        harness_errors.extend(agg.harness_errors.iter().cloned());
        rules.push(format!("[{}] {}", world.name(), world.rule()));
        components.push(json!({"world": world.name(), "components": world.components()}));

        // Samples: re-run a few non-trivial runs with the log kept.
        for i in agg.sample_indices.iter().take(2) {
            let run_seed = mix(seed, world.name(), *i);
            let sc = world.generate_at(seed, *i, tier);
            let out = execute_isolated(world, &sc, true);
            let mut lines = out.log_lines.clone();
            if lines.len() > 120 {
                let extra = lines.len() - 120;
                lines.truncate(120);
                lines.push(format!("... {extra} more lines"));
            }
            samples.push(json!({
                "world": world.name(), "run_index": i, "run_seed": run_seed,
                "scenario": sc, "history": lines, "steps": out.steps,
            }));
        }

        // Violations: group by signature.
        let mut by_sig: BTreeMap<String, &Found> = BTreeMap::new();
        let sig_counts: BTreeMap<String, u64> = agg.sig_counts.clone();
        for f in &agg.found {
            by_sig.entry(f.violation.sig.clone()).or_insert(f);
        }
        let mut reported = 0;
        for (sig, f) in by_sig.iter() {
            if let Some(k) = known
                .findings
                .iter()
                .find(|k| k.status == "open" && k.property == spec.property && sig.starts_with(&k.sig_prefix))
            {
                known_lines.insert(format!(
                    "KNOWN-FINDING: property={} {} [{}]",
                    spec.property, k.what, k.sig_prefix
                ));
                continue;
            }
            unknown_violations += 1;
            if reported >= 3 {
                continue;
            }
            reported += 1;
            // Minimise, then self-replay twice before raising the alarm.
            let orig_size = json_size(&f.scenario);
            let (min_sc, _execs) = minimise(world, &f.scenario, spec.property, sig, 1500, 45.0);
            let r1 = execute_isolated(world, &min_sc, true);
            let r2 = execute_isolated(world, &min_sc, true);
            let v1 = r1.violations.iter().find(|v| v.property == spec.property && &v.sig == sig);
            let v2 = r2.violations.iter().find(|v| v.property == spec.property && &v.sig == sig);
            match (v1, v2) {
                (Some(v), Some(_)) if r1.log_hash == r2.log_hash => {
                    let file = ReplayFile {
                        property: spec.property.to_string(),
                        world: world.name().to_string(),
                        seed,
                        run_index: f.index,
                        scenario: min_sc.clone(),
                        violation: v.clone(),
                        log_hash: format!("{:016x}", r1.log_hash),
                        original_size: orig_size,
                        minimised_size: json_size(&min_sc),
                        log: r1.log_lines.clone(),
                    };
                    let dir = root.join("replays");
                    let _ = std::fs::create_dir_all(&dir);
                    let path = dir.join(format!(
                        "{}-{}-{:08x}.json",
                        spec.property,
                        world.name(),
                        fnv1a(sig.as_bytes()) as u32
                    ));
                    let _ = std::fs::write(&path, serde_json::to_string_pretty(&file).unwrap());
                    println!(
                        "violation rule={} count={} first_run={} detail={}",
                        v.sig,
                        sig_counts.get(sig).copied().unwrap_or(0),
                        f.index,
                        v.detail
                    );
                    violation_lines.push(format!(
                        "VIOLATION property={} replay={}",
                        spec.property,
                        path.display()
                    ));
                }
                _ => {
                    harness_errors.push(format!(
                        "violation {} of run {} did not reproduce deterministically after minimisation (h1={:x} h2={:x})",
                        sig, f.index, r1.log_hash, r2.log_hash
                    ));
                }
            }
        }
        let runs_per_hour = if wall > 0.0 { agg.runs as f64 / wall * 3600.0 } else { 0.0 };
        println!(
            "  world={} runs={} corpus={} steps={} nontrivial_runs={} distinct_nontrivial={} distinct_all={} violations_found={} wall={:.1}s ({:.0} runs/h)",
            world.name(), agg.runs, corpus_runs, agg.steps, agg.nontrivial_runs, agg.nontrivial_hashes.len(),
            agg.all_hashes.len(), agg.sig_counts.values().sum::<u64>(), wall, runs_per_hour
        );
        if !agg.other_property.is_empty() {
            println!("  note: violations of other properties seen in these runs (reported by their own checks): {:?}", agg.other_property);
        }
        evidence_parts.push(json!({
            "world": world.name(),
            "runs": agg.runs,
            "seeds": agg.runs,
            "corpus_scenarios": corpus_runs,
            "steps": agg.steps,
            "scheduling_decisions": agg.decisions,
            "simulated_seconds": agg.sim_ms as f64 / 1000.0,
            "nontrivial_runs": agg.nontrivial_runs,
            "distinct_nontrivial_histories": agg.nontrivial_hashes.len(),
            "distinct_histories": agg.all_hashes.len(),
            "runs_per_hour": runs_per_hour,
            "wall_s": wall,
            "counters": agg.counters,
            "violation_signatures": sig_counts,
            "violations_of_other_properties_seen": agg.other_property,
        }));
    }

    for l in &known_lines {
        println!("{l}");
    }
    let wall = start.elapsed().as_secs_f64();
    let evidence = json!({
        "property_id": spec.property,
        "tier": tier.name(),
        "seed": seed,
        "level": spec.level,
        "coverage": {
            "evaluations": total_runs,
            "distinct_nontrivial": total_distinct,
            "rule": rules.join(" || "),
            "samples": samples,
            "parts": evidence_parts,
            "components": components,
            "exhaustive": false,
        },
        "assumptions": spec.assumptions,
        "wall_s": wall,
        "violations": unknown_violations,
        "known_findings_observed": known_lines.iter().collect::<Vec<_>>(),
    });
    let edir = root.join("evidence");
    let _ = std::fs::create_dir_all(&edir);
    let epath = edir.join(format!("{}.json", spec.property));
    if let Err(e) = std::fs::write(&epath, serde_json::to_string_pretty(&evidence).unwrap()) {
        harness_errors.push(format!("cannot write evidence: {e}"));
    }

    if !harness_errors.is_empty() {
        for e in &harness_errors {
            eprintln!("HARNESS-ERROR: {e}");
        }
        // A harness error is never reported as a violation.
        if violation_lines.is_empty() {
            return CheckResult { exit_code: 2 };
        }
    }
    if !violation_lines.is_empty() {
        for l in &violation_lines {
            println!("{l}");
        }
        return CheckResult { exit_code: 1 };
    }
    println!("OK property={} runs={} wall={:.1}s", spec.property, total_runs, wall);
    CheckResult { exit_code: 0 }
}

/// Replays a replay file in this (fresh) process; exit code 1 and a VIOLATION line if it reproduces.
pub fn replay(world: &Arc<dyn World>, file: &ReplayFile, path: &str) -> i32 {
    let out = execute_isolated(world, &file.scenario, true);
    for l in &out.log_lines {
        println!("{l}");
    }
    if let Some(e) = &out.harness_error {
        eprintln!("HARNESS-ERROR: {e}");
        return 2;
    }
    let hit = out
        .violations
        .iter()
        .find(|v| v.property == file.property && v.sig == file.violation.sig);
    println!("log_hash={:016x} expected={}", out.log_hash, file.log_hash);
    match hit {
        Some(v) => {
            println!("reproduced rule={} detail={}", v.sig, v.detail);
            if format!("{:016x}", out.log_hash) != file.log_hash {
                println!("note: same violation, different history hash (the code under test changed since the file was written)");
            }
            println!("VIOLATION property={} replay={}", file.property, path);
            1
        }
        None => {
            println!("not reproduced: {} violations of other kinds: {:?}", out.violations.len(),
                out.violations.iter().map(|v| v.sig.clone()).collect::<Vec<_>>());
            0
        }
    }
}

/// Determinism self-test: every seed is executed twice (separate threads) and, when
/// `VERIF_DET_DUMP` is set, hashes are written so that separate processes can be diffed.
pub fn determinism(world: &Arc<dyn World>, seed: u64, runs: u64, tier: Tier) -> i32 {
    let mut bad = 0;
    let mut dump = String::new();
    let workers = std::thread::available_parallelism().map(|n| n.get()).unwrap_or(8);
    let next = Arc::new(AtomicU64::new(0));
    let results = Arc::new(Mutex::new(BTreeMap::new()));
    let mut hs = vec![];
    for _ in 0..workers {
        let world = world.clone();
        let next = next.clone();
        let results = results.clone();
        hs.push(std::thread::spawn(move || loop {
            let i = next.fetch_add(1, Ordering::Relaxed);
            if i >= runs {
                break;
            }
            let _run_seed = mix(seed, world.name(), i);
            let sc = world.generate_at(seed, i, tier);
            let sc2 = world.generate_at(seed, i, tier);
            let a = execute_isolated(&world, &sc, false);
            let b = execute_isolated(&world, &sc2, false);
            results.lock().unwrap().insert(i, (a.log_hash, b.log_hash, sc == sc2, a.steps));
        }));
    }
    for h in hs {
        let _ = h.join();
    }
    for (i, (a, b, same_sc, steps)) in results.lock().unwrap().iter() {
        if a != b || !same_sc {
            bad += 1;
            if bad < 10 {
                eprintln!("NONDETERMINISTIC run {i}: {a:x} vs {b:x} same_scenario={same_sc}");
            }
        }
        dump.push_str(&format!("{i} {a:016x} {steps}\n"));
    }
    if let Ok(p) = std::env::var("VERIF_DET_DUMP") {
        let _ = std::fs::write(p, &dump);
    }
    println!("determinism world={} runs={} mismatches={}", world.name(), runs, bad);
    if bad > 0 {
        2
    } else {
        0
    }
}
