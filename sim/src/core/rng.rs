//! SplitMix64 based PRNG with labelled, independent sub-streams.
//!
//! One integer (`VERIF_SEED`) decides everything: the per-run seed is `mix(VERIF_SEED, world, i)`
//! and every consumer (scenario generation, schedule, chunking, faults, tokio's `select!` seed)
//! derives its own stream by hashing a label, so adding a draw in one stream never perturbs another.

#[derive(Clone, Debug)]
pub struct Rng(u64);

fn splitmix(state: &mut u64) -> u64 {
    *state = state.wrapping_add(0x9E37_79B9_7F4A_7C15);
    let mut z = *state;
    z = (z ^ (z >> 30)).wrapping_mul(0xBF58_476D_1CE4_E5B9);
    z = (z ^ (z >> 27)).wrapping_mul(0x94D0_49BB_1331_11EB);
    z ^ (z >> 31)
}

pub fn fnv1a(bytes: &[u8]) -> u64 {
    let mut h: u64 = 0xcbf2_9ce4_8422_2325;
    for b in bytes {
        h ^= *b as u64;
        h = h.wrapping_mul(0x0000_0100_0000_01B3);
    }
    h
}

/// Mixes a seed with a label and an index into a new seed.
pub fn mix(seed: u64, label: &str, index: u64) -> u64 {
    let mut s = seed ^ fnv1a(label.as_bytes()).rotate_left(17) ^ index.wrapping_mul(0xD6E8_FEB8_6659_FD93);
    let a = splitmix(&mut s);
    let b = splitmix(&mut s);
    a ^ b.rotate_left(32)
}

impl Rng {
    pub fn new(seed: u64) -> Rng {
        Rng(seed)
    }

    /// An independent stream derived from this one's *seed state* and a label (does not draw).
    pub fn sub(&self, label: &str) -> Rng {
        Rng(mix(self.0, label, 0))
    }

    pub fn next_u64(&mut self) -> u64 {
        splitmix(&mut self.0)
    }

    /// Uniform in `0..n` (n > 0).
    pub fn below(&mut self, n: u64) -> u64 {
        debug_assert!(n > 0);
        // Multiply-shift; bias is irrelevant for the purposes of a simulator.
        ((self.next_u64() as u128 * n as u128) >> 64) as u64
    }

    pub fn usize_below(&mut self, n: usize) -> usize {
        self.below(n as u64) as usize
    }

    /// Uniform in `lo..=hi`.
    pub fn range(&mut self, lo: u64, hi: u64) -> u64 {
        debug_assert!(lo <= hi);
        lo + self.below(hi - lo + 1)
    }

    pub fn range_i(&mut self, lo: i64, hi: i64) -> i64 {
        lo + self.below((hi - lo + 1) as u64) as i64
    }

    /// True with probability `num/den`.
    pub fn chance(&mut self, num: u64, den: u64) -> bool {
        self.below(den) < num
    }

    pub fn pick<'a, T>(&mut self, items: &'a [T]) -> &'a T {
        &items[self.usize_below(items.len())]
    }

    pub fn pick_weighted<'a, T>(&mut self, items: &'a [(u64, T)]) -> &'a T {
        let total: u64 = items.iter().map(|(w, _)| *w).sum();
        let mut x = self.below(total);
        for (w, t) in items {
            if x < *w {
                return t;
            }
            x -= *w;
        }
        &items[items.len() - 1].1
    }

    pub fn shuffle<T>(&mut self, items: &mut [T]) {
        for i in (1..items.len()).rev() {
            let j = self.usize_below(i + 1);
            items.swap(i, j);
        }
    }

    pub fn bytes32(&mut self) -> [u8; 32] {
        let mut out = [0u8; 32];
        for c in out.chunks_mut(8) {
            c.copy_from_slice(&self.next_u64().to_le_bytes());
        }
        out
    }
}
