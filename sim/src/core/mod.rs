pub mod exec;
pub mod log;
pub mod rng;
pub mod runner;
pub mod tok;

use std::collections::BTreeMap;

use serde::{Deserialize, Serialize};
use serde_json::Value as Json;

#[derive(Debug, Clone, Copy, PartialEq, Eq)]
pub enum Tier {
    Quick,
    Thorough,
}

impl Tier {
    pub fn name(&self) -> &'static str {
        match self {
            Tier::Quick => "quick",
            Tier::Thorough => "thorough",
        }
    }
}

/// A rule of an oracle that did not hold in a run.
#[derive(Debug, Clone, Serialize, Deserialize, PartialEq, Eq)]
pub struct Violation {
    /// Property id (C01, ...).
    pub property: String,
    /// Stable rule id (`C01.subseq`, ...).
    pub rule: String,
    /// Signature: rule id plus the selected detail fields that define the "same violation class"
    /// (used by minimisation and by known_findings.json).
    pub sig: String,
    /// Human readable detail.
    pub detail: String,
}

impl Violation {
    pub fn new(property: &str, rule: &str, sig_detail: &str, detail: String) -> Violation {
        let sig = if sig_detail.is_empty() {
            rule.to_string()
        } else {
            format!("{}:{}", rule, sig_detail)
        };
        Violation {
            property: property.to_string(),
            rule: rule.to_string(),
            sig,
            detail,
        }
    }
}

/// What one simulated run produced.
#[derive(Debug, Clone, Default)]
pub struct Outcome {
    pub violations: Vec<Violation>,
    pub log_hash: u64,
    pub log_lines: Vec<String>,
    pub steps: u64,
    /// Scheduling decisions with more than one ready node.
    pub decisions: u64,
    pub sim_time_ms: u64,
    /// Fault kinds that actually fired, probes for rare branches, work counters.
    pub counters: BTreeMap<String, u64>,
    /// True if the run differed from the happy path by the world's stated rule.
    pub nontrivial: bool,
    /// A harness-side problem (never reported as a violation).
    pub harness_error: Option<String>,
}

impl Outcome {
    pub fn count(&mut self, key: &str, n: u64) {
        if n > 0 {
            *self.counters.entry(key.to_string()).or_insert(0) += n;
        }
    }
}

/// A simulated world: real code under test plus harness peers, a scenario generator and oracles.
pub trait World: Sync + Send {
    fn name(&self) -> &'static str;
    /// Generates the explicit scenario (scripts, knobs, faults, sub-seeds) of run `seed`.
    fn generate(&self, seed: u64, tier: Tier) -> Json;
    /// Generates run `index` of the batch with master seed `verif_seed`. By default every run has an
    /// independent seed; a world may override this to *enumerate* fault placements systematically
    /// (e.g. every crash point of one base scenario on consecutive indices).
    fn generate_at(&self, verif_seed: u64, index: u64, tier: Tier) -> Json {
        self.generate(crate::core::rng::mix(verif_seed, self.name(), index), tier)
    }
    /// Executes a scenario. Called on a fresh OS thread. Must be a pure function of the scenario
    /// and the code under test.
    fn execute(&self, scenario: &Json, keep_log: bool) -> Outcome;
    /// Smaller candidate scenarios, simplest first.
    fn shrink(&self, scenario: &Json) -> Vec<Json>;
    /// How runs are generated and what makes one non-trivial / distinct (for the evidence).
    fn rule(&self) -> String;
    /// Which components ran real code and which a stub.
    fn components(&self) -> Json;
}
