//! Append-only event log. Never draws from a PRNG, never reads a real clock.

#[derive(Debug, Clone)]
pub struct EventLog {
    hash: u64,
    count: u64,
    keep: bool,
    lines: Vec<String>,
}

impl EventLog {
    pub fn new(keep: bool) -> EventLog {
        EventLog {
            hash: 0xcbf2_9ce4_8422_2325,
            count: 0,
            keep,
            lines: vec![],
        }
    }

    fn feed(&mut self, bytes: &[u8]) {
        let mut h = self.hash;
        for b in bytes {
            h ^= *b as u64;
            h = h.wrapping_mul(0x0000_0100_0000_01B3);
        }
        self.hash = h;
    }

    pub fn rec(&mut self, step: u64, kind: &str, detail: &str) {
        self.feed(&step.to_le_bytes());
        self.feed(kind.as_bytes());
        self.feed(&[0]);
        self.feed(detail.as_bytes());
        self.feed(&[0xff]);
        self.count += 1;
        if self.keep {
            self.lines.push(format!("{:>6} {:<10} {}", step, kind, detail));
        }
    }

    pub fn hash(&self) -> u64 {
        self.hash
    }

    pub fn count(&self) -> u64 {
        self.count
    }

    pub fn keeps(&self) -> bool {
        self.keep
    }

    pub fn lines(&self) -> &[String] {
        &self.lines
    }
}
