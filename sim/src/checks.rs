//! Registry: which worlds decide which property, and with how many runs per tier.

use std::sync::Arc;

use crate::core::runner::{CheckSpec, Part};
use crate::core::World;
use crate::worlds::agent::AgentWorld;
use crate::worlds::dlrt::DlrtWorld;
use crate::worlds::dltask::DlTaskWorld;
use crate::worlds::hosted::HostedWorld;
use crate::worlds::vote::VoteWorld;
use crate::worlds::store::StoreWorld;
use crate::worlds::codec::CodecWorld;
use crate::worlds::chan::ChanWorld;
use crate::worlds::recon::ReconWorld;
use crate::worlds::socket::SocketWorld;
use crate::worlds::links::LinksWorld;
use crate::worlds::uplinks::UplinksWorld;
use crate::worlds::queues::QueuesWorld;
use crate::worlds::handlers::HandlersWorld;

fn agent(focus: &'static str, name: &'static str) -> Arc<dyn World> {
    Arc::new(AgentWorld { focus, name })
}

pub fn world_names() -> Vec<&'static str> {
    vec!["agent-c01", "agent-c02", "agent-c03", "agent-c04", "agent-c05", "agent-c05f", "agent-c14", "agent-c04f", "agent-c20", "agent-mix", "agent-dyn", "dlrt-value", "dlrt-map", "dltask-value", "dltask-map", "hosted-value", "hosted-map", "vote", "store-mem", "store-rocks", "codec", "chan", "recon", "handlers", "links", "uplinks", "queues", "socket"]
}

pub fn world_by_name(name: &str) -> Option<Arc<dyn World>> {
    Some(match name {
        "agent-c01" => agent("C01", "agent-c01"),
        "agent-c02" => agent("C02", "agent-c02"),
        "agent-c03" => agent("C03", "agent-c03"),
        "agent-c04" => agent("C04", "agent-c04"),
        "agent-c04f" => agent("C04F", "agent-c04f"),
        "agent-c05f" => agent("C05F", "agent-c05f"),
        "agent-c05" => agent("C05", "agent-c05"),
        "agent-c14" => agent("C14", "agent-c14"),
        "agent-c20" => agent("C20", "agent-c20"),
        "agent-mix" => agent("MIX", "agent-mix"),
        "agent-dyn" => agent("DYN", "agent-dyn"),
        "dlrt-value" => Arc::new(DlrtWorld { map: false }),
        "dlrt-map" => Arc::new(DlrtWorld { map: true }),
        "dltask-value" => Arc::new(DlTaskWorld { map: false }),
        "dltask-map" => Arc::new(DlTaskWorld { map: true }),
        "hosted-value" => Arc::new(HostedWorld { map: false }),
        "hosted-map" => Arc::new(HostedWorld { map: true }),
        "vote" => Arc::new(VoteWorld),
        "codec" => Arc::new(CodecWorld),
        "chan" => Arc::new(ChanWorld),
        "recon" => Arc::new(ReconWorld),
        "socket" => Arc::new(SocketWorld),
        "links" => Arc::new(LinksWorld),
        "uplinks" => Arc::new(UplinksWorld),
        "queues" => Arc::new(QueuesWorld),
        "handlers" => Arc::new(HandlersWorld),
        "store-mem" => Arc::new(StoreWorld { kind: "mem", name: "store-mem" }),
        "store-rocks" => Arc::new(StoreWorld { kind: "rocks", name: "store-rocks" }),
        _ => return None,
    })
}

fn part(world: &str, quick: u64, thorough: u64) -> Part {
    Part { world: world_by_name(world).expect("world"), quick_runs: quick, thorough_runs: thorough }
}

const AGENT_ASSUMPTIONS: &[&str] = &[
    "the agent + runtime future is polled as one task (as the server does with tokio::spawn); interleavings finer than one poll are approximated by forced yields after k byte-channel operations (k drawn per run, down to 1)",
    "remote peers, command targets and the store are harness code speaking the product's own codecs over the product's byte channels",
    "a clean batch is evidence for the explored seeds, not a proof",
];

const CHAN_ASSUMPTIONS: &[&str] = &[
    "single-threaded operation simulator: every access to the shared Conduit (poll_read, poll_write, poll_flush, poll_shutdown, both Drop impls) is serialised by one parking_lot::Mutex, so each multi-threaded execution is an interleaving of these atomic operations, which is what the scripted sequences enumerate; the coop budget is thread-local and never shared between threads",
    "one waker per side (a side that re-polls with a different waker than it registered is not modelled); capacities 1..=9, request sizes 0..=12, up to 40 operations per sequence, 256 independent sequences per run (75_000 quick runs = 19.2M sequences)",
    "a Pending during which the polled side's own waker fired is treated as a legal cooperative yield; a budget of 1 is excluded (it yields on every poll by construction)",
    "seeded random exploration, not exhaustive: a clean batch is evidence for the explored sequences, not a proof",
];

const RECON_ASSUMPTIONS: &[&str] = &[
    "the incremental decoders are driven the way the product drives them: one value per bounded body (FramedRead: decode while bytes arrive, decode_eof at the end; WithLenRecognizerDecoder: length prefix + consume_bounded); the result of a decode is the first frame",
    "the one-shot reference is parse_recognize(text, allow_comments = false), the flag RecognizerDecoder is built with; parse_recon_document is compared with the one-shot parse of `{` text `}` under its own flag",
    "single cuts are exhaustive for texts up to 256 bytes and sampled (64 positions, both ends dense) for longer ones; multi-cuts are sampled; a clean batch is evidence for the explored seeds, not a proof",
    "a synchronous endless loop inside one decode call would be caught only by a 60 s wall-clock fail-safe (the poll bound sees Ok(None)-for-ever and spinning wake-ups)",
];

const STORE_ASSUMPTIONS: &[&str] = &[
    "RocksDB and the file system are real, not simulated: the run is deterministic in its recorded history (operations and answers) because every call is synchronous and single-threaded, not because RocksDB's background threads are controlled",
    "a kill is SIGKILL of a real writer process at an operation boundary (after the acknowledgement of an operation); kills inside an operation and power loss (loss of the page cache) are not explored",
    "each (agent, item) is used consistently as a value or as a map: the persistence traits do not define mixed use (in-memory answers InvalidOperation, RocksDB keeps both)",
    "a clean batch is evidence for the explored seeds, not a proof",
];

const HANDLERS_ASSUMPTIONS: &[&str] = &[
    "the observation point is a trace recorded through context.effect closures (one extra effect step before every action, at the start and at the end of every lifecycle handler); the top-level order of triggers (programs received on `run`, continuations of suspended futures) is schedule dependent and is taken from the recorded trace, everything inside a trigger is decided by the reference interpreter",
    "documents silent, code followed: set_value always triggers on_event/on_set, also when the value does not change; update of an existing key triggers on_update with prev = Some(old); remove of an absent key triggers no handler; clear of an empty map triggers on_clear(empty map); the map passed to on_update/on_remove is the map after the change; a Get inside a cascade sees the current state (all completed nested handlers included); on_set receives Some(previous) even for the first set (previous = the initial 0)",
    "both lifecycle functions of a value item (on_event, on_set) are *called* (to build their handlers) when the item_event is created, before either runs; only the execution of the returned handlers is ordered, which is what the trace records",
    "failure: a failing action ends its handler and all handlers it interrupted, nothing is rolled back. Whether the *agent* stops after a failure is outside the property text: docs/event_handler.md says 'all execution will stop and the agent will fail', the code does that for suspended continuations, on_start and on_stop but only logs an EffectError raised in a trigger started by a lane command and carries on. The reference accepts both; the discrepancy with the document is counted (probe.fail_swallowed_agent_continued), not reported",
    "acyclic programs only: a handler of item i (and every continuation it suspends) modifies only items > i in the order v0<v1<v2<m0<m1; top-level programs, on_start and on_stop may modify everything; Fail is not generated in on_start",
    "a continuation suspended inside on_stop never runs (the agent ends); continuations that are still pending when the harness stops the agent after a quiet window of 250 simulated ms (delays are <= 50 ms) are reported as cont_never_ran",
    "the agent + runtime future is polled as one task; remote peers are harness code speaking the product's codecs over the product's byte channels; a clean batch is evidence for the explored seeds, not a proof",
];

const SOCKET_ASSUMPTIONS: &[&str] = &[
    "each RemoteTask is polled as one task (as the server does with tokio::spawn); interleavings finer than one poll are approximated by forced yields after k byte-channel operations (k drawn per run) and by short reads / writes of the byte pipe",
    "the web socket handshake is skipped (ratchet WebSocket::from_upgraded, no extension); the byte pipe, the agents, the downlinks, the FindNode resolver and (one-sided topologies) the web socket peer are harness code speaking the product's codecs",
    "node and lane are compared exactly; bodies exactly except for blanks between header and body (skipped by the header peeler) and an empty unlinked body being the same as none (indistinguishable on a byte channel)",
    "what must arrive: envelopes written after the addressee's attachment completed, while the socket is up and the addressee stays attached; after a cut / bad frame / detach only order, no duplication and no gaps are demanded; for agents that come and go only order and no duplication",
    "an agent that stopped and was resolved again is a new source (new channel): only the order within one instance is demanded; the socket task interleaves the old channel's remaining envelopes with the new channel's (observed, not judged)",
    "one-sided topologies: the scripted peer's own writes never block (its direction of the pipe is unbounded), because ratchet's split receiver needs the shared writer to answer a ping / note a pong and would stop reading behind a blocked writer; the direction written by the real task stays bounded with short writes",
    "liveness of attachment is judged too: with the socket up and the task alive a downlink that asked to be attached must be told so (the product's clients only start reading after that)",
    "raw socket bytes are never recorded or compared (the client role masks frames with keys outside the simulator's control); only decoded frames and lengths",
    "a clean batch is evidence for the explored seeds, not a proof",
];

pub fn spec_for(property: &str) -> Option<CheckSpec> {
    let a = || AGENT_ASSUMPTIONS.iter().map(|s| s.to_string()).collect::<Vec<_>>();
    Some(match property {
        "C01" => CheckSpec { property: "C01", level: "exploration", parts: vec![part("agent-c01", 3000, 300_000), part("agent-mix", 1000, 100_000), part("uplinks", 2000, 200_000), part("agent-dyn", 1000, 100_000)], assumptions: a() },
        "C02" => CheckSpec { property: "C02", level: "exploration", parts: vec![part("agent-c02", 3000, 300_000), part("agent-mix", 1000, 100_000), part("queues", 3000, 300_000), part("uplinks", 2000, 200_000), part("agent-dyn", 2000, 200_000)], assumptions: a() },
        "C03" => CheckSpec { property: "C03", level: "exploration", parts: vec![part("agent-c03", 3000, 300_000), part("agent-mix", 1000, 100_000), part("queues", 3000, 300_000), part("uplinks", 2000, 200_000)], assumptions: a() },
        "C04" => CheckSpec { property: "C04", level: "exploration", parts: vec![part("agent-c04", 3000, 300_000), part("agent-c04f", 2000, 200_000), part("agent-mix", 1000, 100_000), part("uplinks", 3000, 300_000), part("agent-c05", 1000, 100_000)], assumptions: a() },
        "C05" => CheckSpec { property: "C05", level: "fault_enumeration", parts: vec![part("agent-c05", 3000, 300_000), part("agent-c05f", 1500, 150_000), part("agent-mix", 1000, 100_000)], assumptions: a() },
        "C20" => CheckSpec { property: "C20", level: "exploration", parts: vec![part("agent-c20", 3000, 300_000), part("agent-c04f", 1000, 100_000), part("agent-mix", 1000, 100_000), part("links", 3000, 300_000)], assumptions: a() },
        "C06" => CheckSpec {
            property: "C06",
            level: "exploration",
            parts: vec![part("handlers", 3000, 300_000)],
            assumptions: HANDLERS_ASSUMPTIONS.iter().map(|s| s.to_string()).collect(),
        },
        "C07" => CheckSpec { property: "C07", level: "exploration", parts: vec![part("dlrt-value", 3000, 300_000), part("dlrt-map", 3000, 300_000), part("queues", 2000, 200_000)], assumptions: vec![
            "the downlink runtime is polled as one task; the remote lane and the consumers are scripted harness code speaking the product's codecs over the product's byte channels".into(),
            "workloads use one writer per map key and clears only in single-writer runs so that 'as if all were sent' is unambiguous".into()] },
        "C08" => CheckSpec { property: "C08", level: "exploration", parts: vec![part("dltask-value", 4000, 400_000), part("dltask-map", 4000, 400_000), part("hosted-value", 3000, 300_000), part("hosted-map", 4000, 400_000)], assumptions: vec![
            "the stand-alone client downlinks (dltask-*) and the agent-hosted downlinks inside a real agent + agent runtime (hosted-*) are driven by the same script generator; every legal hosted scenario is also executed on the client implementation and the two callback sequences are compared (normalisations N1-N5 in worlds/hosted/mod.rs)".into(),
            "the reference fold is the documented semantics: state = fold of notifications since linked; callbacks only when synced or events_when_not_synced".into()] },
        "C17" => CheckSpec {
            property: "C17",
            level: "exploration",
            parts: vec![part("vote", 20_000, 2_000_000), part("dlrt-value", 2000, 100_000), part("agent-c04", 1000, 50_000)],
            assumptions: vec![
                "ops are applied sequentially to the real coordinator (each vote/rescind/drop/poll is atomic); interleavings inside one op are explored by the separate shuttle harness (/verif/shuttle)".to_string(),
                "the answer of a vote cast after unanimity is not judged (the property text says nothing about it; counted in vote_pending_after_unanimity)".to_string(),
                "system level: the downlink runtime with idle consumers must not stop when time passes (dlrt idle probe); agent time-out endings are exercised by the agent world".to_string(),
            ],
        },
        "C09" => CheckSpec {
            property: "C09",
            level: "exploration",
            parts: vec![part("recon", 1000, 150_000)],
            assumptions: RECON_ASSUMPTIONS.iter().map(|s| s.to_string()).collect(),
        },
        "C10" => CheckSpec {
            property: "C10",
            level: "fault_enumeration",
            parts: vec![part("codec", 20_000, 1_000_000), part("recon", 300, 10_000)],
            assumptions: vec![
                "every codec pair is driven through the real tokio_util FramedRead over a scripted AsyncRead (SimPipe); the encoded stream comes from the product's own encoders".to_string(),
                "corruptions are aimed with harness knowledge of the wire layout (tag bytes, length fields, Recon body regions); the oracle for corrupted streams demands only: no panic/abort, termination, an error for undefined tags (where the decoder has such an error path), no message from a frame that can never complete, exact decoding of the frames before the corruption".to_string(),
                "typed bodies are restricted to i32 / String / Value shapes whose compact Recon text reads back unambiguously (checked per run with the non-incremental parser)".to_string(),
                "an infinite loop inside a single decode() call would hang the harness instead of being reported (only non-termination across polls is bounded)".to_string(),
                "a clean batch is evidence for the explored seeds, not a proof".to_string(),
            ],
        },
        "C11" => CheckSpec {
            property: "C11",
            level: "exploration",
            parts: vec![part("socket", 2000, 100_000)],
            assumptions: SOCKET_ASSUMPTIONS.iter().map(|s| s.to_string()).collect(),
        },
        "C12" => CheckSpec { property: "C12", level: "exploration", parts: vec![part("chan", 75_000, 7_500_000)], assumptions: CHAN_ASSUMPTIONS.iter().map(|s| s.to_string()).collect() },
        "C13" => CheckSpec {
            property: "C13",
            level: "fault_enumeration",
            // store-mem: one run = a batch of 32 sequences (microseconds each); store-rocks: one run = one
            // sequence on a real RocksDB directory with up to 3 reopen / kill boundaries (tens of ms each).
            parts: vec![part("store-mem", 12_000, 1_500_000), part("store-rocks", 400, 40_000)],
            assumptions: STORE_ASSUMPTIONS.iter().map(|s| s.to_string()).collect(),
        },
        "C14" => CheckSpec { property: "C14", level: "exploration", parts: vec![part("agent-c14", 2000, 200_000), part("agent-mix", 1000, 100_000), part("uplinks", 2000, 200_000)], assumptions: a() },
        _ => return None,
    })
}
