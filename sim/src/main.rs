#![allow(clippy::type_complexity, clippy::too_many_arguments, dead_code)]
mod checks;
mod core;
mod worlds;

// Crate-root shim module trees for the component worlds `links`, `uplinks`, `queues`: PRIVATE source files of
// the product are compiled into the harness with `#[path]` and import their siblings through `crate::...`,
// so these five modules must live at the crate root under exactly these names (see src/shims/*.rs).
#[path = "shims/rt_agent.rs"]
mod agent;
#[allow(dead_code, unused_imports, clippy::all)]
#[path = "/repo/runtime/swimos_runtime/src/backpressure/mod.rs"]
mod backpressure;
#[allow(dead_code, unused_imports, clippy::all)]
#[path = "/repo/server/swimos_agent/src/event_queue/mod.rs"]
mod event_queue;
#[allow(dead_code, unused_imports, clippy::all)]
#[path = "/repo/server/swimos_agent/src/map_storage/mod.rs"]
mod map_storage;
#[path = "shims/ag_lanes.rs"]
mod lanes;

use std::sync::Arc;

use crate::core::runner::{self, ReplayFile};
use crate::core::{Tier, World};

/// Seam for std's `RandomState` keys: std resolves `getrandom` as a weak symbol and documents that
/// it may be interposed "to disable randomness for consistency". Every run executes on a fresh
/// thread, so the thread-local hash keys start from the same value and evolve identically. The value
/// they start from is part of the scenario (`hash_seed`, 0 = the legacy fixed pattern): the iteration
/// order of the product's `HashMap`s (e.g. the order in which an agent registers its items, hence the
/// numeric ids of its lanes and stores) is a source of nondeterminism that varies per run and replays.
#[no_mangle]
pub unsafe extern "C" fn getrandom(buf: *mut u8, len: usize, _flags: u32) -> isize {
    let seed = HASH_SEED.try_with(|c| c.get()).unwrap_or(0);
    if seed == 0 {
        for i in 0..len {
            *buf.add(i) = (i as u8).wrapping_mul(37).wrapping_add(11);
        }
    } else {
        let mut x = seed;
        for i in 0..len {
            if i % 8 == 0 {
                // splitmix64
                x = x.wrapping_add(0x9E37_79B9_7F4A_7C15);
            }
            let mut z = x;
            z = (z ^ (z >> 30)).wrapping_mul(0xBF58_476D_1CE4_E5B9);
            z = (z ^ (z >> 27)).wrapping_mul(0x94D0_49BB_1331_11EB);
            z ^= z >> 31;
            *buf.add(i) = (z >> ((i % 8) * 8)) as u8;
        }
    }
    len as isize
}

thread_local! {
    static HASH_SEED: std::cell::Cell<u64> = const { std::cell::Cell::new(0) };
}

/// Must be called first thing on the run's fresh thread (before any `HashMap` is created there).
pub fn set_thread_hash_seed(seed: u64) {
    HASH_SEED.with(|c| c.set(seed));
}

fn usage() -> ! {
    eprintln!(
        "usage:\n  simctl check <property> <quick|thorough>\n  simctl replay <file>\n  simctl determinism <world> [runs]\n  simctl run <world> <seed-index> [--log]   (one run of the default seed family)\n  simctl worlds"
    );
    std::process::exit(2)
}

fn main() {
    // Injected panics (store kill) and caught product panics must not spam stderr; they are
    // recorded by the executor.
    std::panic::set_hook(Box::new(|info| {
        // The codec world reports where a decoder panicked.
        if let Some(loc) = info.location() {
            let _ = worlds::codec::LAST_PANIC_LOCATION.try_with(|l| {
                if let Ok(mut l) = l.try_borrow_mut() {
                    *l = Some(format!("{}:{}", loc.file(), loc.line()));
                }
            });
        }
        if std::env::var("VERIF_SHOW_PANICS").is_ok() {
            eprintln!("panic: {info}");
        }
    }));
    if let Ok(filter) = std::env::var("VERIF_TRACING") {
        // Diagnostics: print the product's own tracing events (e.g. VERIF_TRACING=trace).
        let _ = tracing_subscriber::fmt()
            .with_env_filter(tracing_subscriber::EnvFilter::new(filter))
            .with_writer(std::io::stderr)
            .without_time()
            .try_init();
    }
    let args: Vec<String> = std::env::args().collect();
    if args.len() < 2 {
        usage();
    }
    if args[1] == "store-child" {
        // Hidden sub-command of the `store` world: runs a segment of store operations against a
        // RocksDB directory (job on stdin) and kills itself with SIGKILL.
        worlds::store::child_main();
    }
    let seed = runner::env_seed();
    match args[1].as_str() {
        "check" => {
            if args.len() < 4 {
                usage();
            }
            let tier = match args[3].as_str() {
                "quick" => Tier::Quick,
                "thorough" => Tier::Thorough,
                _ => usage(),
            };
            let Some(spec) = checks::spec_for(&args[2]) else {
                eprintln!("unknown property {}", args[2]);
                std::process::exit(2);
            };
            let r = runner::run_check(&spec, tier, seed);
            std::process::exit(r.exit_code);
        }
        "replay" => {
            if args.len() < 3 {
                usage();
            }
            let text = std::fs::read_to_string(&args[2]).unwrap_or_else(|e| {
                eprintln!("cannot read {}: {e}", args[2]);
                std::process::exit(2)
            });
            let file: ReplayFile = serde_json::from_str(&text).unwrap_or_else(|e| {
                eprintln!("bad replay file: {e}");
                std::process::exit(2)
            });
            let Some(world) = checks::world_by_name(&file.world) else {
                eprintln!("unknown world {}", file.world);
                std::process::exit(2);
            };
            std::process::exit(runner::replay(&world, &file, &args[2]));
        }
        "minimise" => {
            if args.len() < 3 {
                usage();
            }
            let text = std::fs::read_to_string(&args[2]).expect("read");
            let mut file: ReplayFile = serde_json::from_str(&text).expect("parse");
            let world = checks::world_by_name(&file.world).expect("world");
            let secs: f64 = args.get(3).and_then(|s| s.parse().ok()).unwrap_or(300.0);
            let (min, execs) = runner::minimise(&world, &file.scenario, &file.property, &file.violation.sig, 100_000, secs);
            let out = runner::execute_isolated(&world, &min, true);
            file.scenario = min;
            file.log = out.log_lines.clone();
            file.log_hash = format!("{:016x}", out.log_hash);
            if let Some(v) = out.violations.iter().find(|v| v.sig == file.violation.sig) {
                file.violation = v.clone();
            }
            std::fs::write(&args[2], serde_json::to_string_pretty(&file).unwrap()).expect("write");
            println!("minimised with {execs} executions");
        }
        "determinism" => {
            if args.len() < 3 {
                usage();
            }
            let Some(world) = checks::world_by_name(&args[2]) else {
                eprintln!("unknown world {}", args[2]);
                std::process::exit(2);
            };
            let runs = args.get(3).and_then(|s| s.parse().ok()).unwrap_or(2000);
            std::process::exit(runner::determinism(&world, seed, runs, Tier::Quick));
        }
        "run" => {
            if args.len() < 4 {
                usage();
            }
            let Some(world) = checks::world_by_name(&args[2]) else {
                eprintln!("unknown world {}", args[2]);
                std::process::exit(2);
            };
            let i: u64 = args[3].parse().unwrap_or(0);
            let run_seed = crate::core::rng::mix(seed, world.name(), i);
            let _ = run_seed;
            let tier = if args.iter().any(|a| a == "--thorough") { Tier::Thorough } else { Tier::Quick };
            let sc = world.generate_at(seed, i, tier);
            let world: Arc<dyn World> = world;
            let out = runner::execute_isolated(&world, &sc, true);
            if args.iter().any(|a| a == "--scenario") {
                println!("{}", serde_json::to_string_pretty(&sc).unwrap());
            }
            if args.iter().any(|a| a == "--log") {
                for l in &out.log_lines {
                    println!("{l}");
                }
            }
            println!("steps={} decisions={} hash={:016x} nontrivial={} counters={:?}", out.steps, out.decisions, out.log_hash, out.nontrivial, out.counters);
            for v in &out.violations {
                println!("VIOL {} {} :: {}", v.property, v.sig, v.detail);
            }
            if let Some(e) = out.harness_error {
                println!("HARNESS-ERROR {e}");
            }
        }
        "codec-child" => {
            // Hidden: one codec case in a process of its own (the decoder under test may abort it).
            std::process::exit(worlds::codec::child_main());
        }
        "recon-keys" => {
            // Hidden: ReconKey equality / hash of the product against the key classes of the `queues` world.
            print!("{}", worlds::queues::key_report());
        }
        "corpus-verify" => {
            // Every corpus entry must be clean on the tree it is kept for (apart from open known findings); with
            // --prune the entries that are not are deleted (used when the corpus is built from changed trees).
            let prune = args.iter().any(|a| a == "--prune");
            let root = runner::verif_root().join("corpus");
            let known = runner::load_known_findings();
            let mut bad = 0;
            let mut total = 0;
            let mut props: Vec<String> = std::fs::read_dir(&root).map(|rd| rd.flatten().map(|e| e.file_name().to_string_lossy().to_string()).collect()).unwrap_or_default();
            props.sort();
            for prop in props {
                let mut names: Vec<String> = std::fs::read_dir(root.join(&prop)).map(|rd| rd.flatten().map(|e| e.file_name().to_string_lossy().to_string()).collect()).unwrap_or_default();
                names.sort();
                for n in names {
                    let path = root.join(&prop).join(&n);
                    let Ok(text) = std::fs::read_to_string(&path) else { continue };
                    let entry: runner::CorpusEntry = match serde_json::from_str(&text) {
                        Ok(e) => e,
                        Err(e) => {
                            println!("UNREADABLE {} {e}", path.display());
                            bad += 1;
                            continue;
                        }
                    };
                    let Some(world) = checks::world_by_name(&entry.world) else {
                        println!("UNKNOWN-WORLD {} {}", path.display(), entry.world);
                        bad += 1;
                        continue;
                    };
                    let world: Arc<dyn World> = world;
                    total += 1;
                    let out = runner::execute_isolated(&world, &entry.scenario, false);
                    let mut why = vec![];
                    if let Some(e) = &out.harness_error {
                        why.push(format!("harness error {e}"));
                    }
                    for v in &out.violations {
                        let is_known = known.findings.iter().any(|k| k.status == "open" && k.property == v.property && v.sig.starts_with(&k.sig_prefix));
                        if v.property == prop && !is_known {
                            why.push(v.sig.clone());
                        }
                    }
                    if !why.is_empty() {
                        bad += 1;
                        println!("NOT-CLEAN {} {:?}", path.display(), why);
                        if prune {
                            let _ = std::fs::remove_file(&path);
                        }
                    }
                }
            }
            println!("corpus entries={total} not_clean={bad}");
            std::process::exit(if bad == 0 { 0 } else { 1 });
        }
        "worlds" => {
            for w in checks::world_names() {
                println!("{w}");
            }
        }
        _ => usage(),
    }
}
