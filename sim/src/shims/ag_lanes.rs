//! Shim for `crate::lanes` as seen by the PRIVATE source files of `swimos_agent` that the `queues` world
//! compiles into the harness with `#[path]`.
//!
//! Must be mounted at the crate root as `mod lanes;` next to
//!   `mod event_queue;`  = /repo/server/swimos_agent/src/event_queue/mod.rs
//!   `mod map_storage;`  = /repo/server/swimos_agent/src/map_storage/mod.rs
//! because these files import each other through `crate::event_queue`, `crate::map_storage` and
//! `crate::lanes::map::MapLaneEvent`.
//!
//!   crate::lanes::map::MapLaneEvent = swimos_agent::lanes::map::MapLaneEvent (public)
//!   crate::lanes::queues            = /repo/server/swimos_agent/src/lanes/queues/mod.rs

pub mod map {
    pub use swimos_agent::lanes::map::MapLaneEvent;
}

#[allow(dead_code, unused_imports, clippy::all)]
#[path = "/repo/server/swimos_agent/src/lanes/queues/mod.rs"]
pub mod queues;
