//! Shim for `crate::agent` as seen by the PRIVATE source files of `swimos_runtime` that the component
//! worlds (`links`, `uplinks`) compile into the harness with `#[path]`.
//!
//! Must be mounted at the crate root as `mod agent;` because the product files import
//! `crate::agent::reporting::UplinkReporter`, `crate::agent::DisconnectionReason` and
//! `crate::agent::task::write_fut::{..}`. Only re-exports of public product items and `#[path]` includes of
//! real product files live here; nothing is copied.
//!
//!   crate::agent::DisconnectionReason        = swimos_runtime::agent::DisconnectionReason (public)
//!   crate::agent::reporting::*               = swimos_runtime::agent::reporting::* (public)
//!   crate::agent::task::links                = /repo/runtime/swimos_runtime/src/agent/task/links.rs
//!   crate::agent::task::write_fut            = /repo/runtime/swimos_runtime/src/agent/task/write_fut/mod.rs
//!   crate::agent::task::remotes              = /repo/runtime/swimos_runtime/src/agent/task/remotes/mod.rs
//!                                              (directory module: registry.rs, sender/mod.rs, uplink/mod.rs)

pub use swimos_runtime::agent::DisconnectionReason;

pub mod reporting {
    pub use swimos_runtime::agent::reporting::*;
}

pub mod task {
    #[allow(dead_code, unused_imports, clippy::all)]
    #[path = "/repo/runtime/swimos_runtime/src/agent/task/links.rs"]
    pub mod links;

    #[allow(dead_code, unused_imports, clippy::all)]
    #[path = "/repo/runtime/swimos_runtime/src/agent/task/write_fut/mod.rs"]
    pub mod write_fut;

    #[allow(dead_code, unused_imports, clippy::all)]
    #[path = "/repo/runtime/swimos_runtime/src/agent/task/remotes/mod.rs"]
    pub mod remotes;
}
