//! W-QUEUES: op-sequence simulator for the coalescing queues of map lanes (properties C02 and C03, small-scope
//! engine).
//!
//! Code under test, compiled from /repo by `#[path]` as crate-root modules (see `src/main.rs`, nothing is copied):
//!   `mapq`    runtime/swimos_runtime/src/backpressure/map_queue/mod.rs  `MapOperationQueue` (keyed by `ReconKey`,
//!             backpressure/key/mod.rs), driven through `MapBackpressure::{push, pop}` of backpressure/mod.rs
//!             (thin forwarders; `map_queue` is a private child of `backpressure`)
//!   `eventq`  server/swimos_agent/src/event_queue/mod.rs  `EventQueue<u8, u32>::{push, pop, is_empty}`
//!   `writeq`  server/swimos_agent/src/lanes/queues/mod.rs `WriteQueues<u8>` (event queue + sync queues) inside the
//!             real `MapStoreInner<u8, u32, WriteQueues<u8>, M>` of map_storage/mod.rs (M = BTreeMap or HashMap),
//!             i.e. exactly the state of a `MapLane`: `update / remove / clear`, `queue().sync(id, keys)` with
//!             `keys = content.keys()` (what `MapLane::sync` does), `pop_operation()`
//!
//! One run = a batch of independent sequences of <= 64 ops on a fresh queue:
//!   `u<k>=<id>` update key #k with value #id     `d<k>` remove     `c` clear     `p` pop
//!   `e<d>`      set `head_epoch` to usize::MAX - d through the hook of `poke.rs` (only while the queue is empty,
//!               otherwise skipped): the state after 2^64 - d - 1 pops; the following pushes / pops cross the wrap
//!   `y<r>` / `Y<r>`  (writeq) remote r asks to sync: `y` = a remote that has been linked from the start (its replica
//!               holds what was broadcast so far), `Y` = a remote that links by syncing (empty replica, receives
//!               broadcasts from now on). Skipped while r has a sync outstanding.
//! At the end the queue is drained (`p` until empty).
//! For `mapq` key #k is a key TEXT of the table `KEY_TEXTS`; texts that parse to the same Recon value (`1`, ` 1`,
//! `1 `; `@a`, `@a{}`, `@a {}`; `a`, `"a"`) form one logical key (class), near-misses (`1.0`, `@a{1}`, `@b`, `"1"`)
//! are distinct. Classes come from the Recon parser (`Value` equality), not from the code under test.
//!
//! Reference for `mapq` / `eventq` (values travel with the ops): a replica that applies every popped op, and the
//! truth that applies every pushed op, both starting from the SAME NON-EMPTY map (every key present), so that a
//! dropped remove or clear is visible.
//!   C02.queue.replica         at every moment the queue is empty the replica equals the truth
//!   C02.queue.fabricated      a popped update/remove/clear that was never pushed (or an unknown key text), more
//!                             pops than pushes
//!   C02.queue.per_key_order   per key the popped values are an in-order subsequence of the pushed ones
//!   C02.queue.clear_order     an update older than a delivered clear is popped after it (`old_after_clear`), or
//!                             an op newer than a pushed clear is popped before that clear (`new_before_clear`)
//!   C02.queue.empty           `pop() == None` although the queue claims data, or the reverse
//!   C02.queue.panic           (debug assertions are on: `debug_assert!(index < queue.len())`)
//! Coalescing itself is not demanded (C02 says "however operations were coalesced"): the probes
//! `probe.coalesced` / `probe.len_exceeds_keys` report it.
//!
//! Reference for `writeq` (values are read from the lane's map at pop time):
//!   C02.queue.replica         observer replica (all standard events) == the lane's map whenever everything is drained
//!   C02.queue.stale_event     a popped update carries a value the map does not hold now / a remove for a present key
//!   C02.queue.fabricated / C02.queue.clear_order   as above, on the set of dirty keys
//!   C03.queue.sync_event      a SyncEvent for a remote without outstanding sync (`unrequested`), with a value that
//!                             is not the current one (`stale_value`)
//!   C03.queue.synced          a Synced without outstanding sync (`unrequested`); a sync that never gets its Synced
//!                             (`missing`); so every sync gets exactly one Synced, after its SyncEvents
//!   C03.queue.snapshot        at Synced(r), for every key: the value in r's replica (or its absence) is one the
//!                             lane's map held at some moment between the sync request and now (`key_missing`,
//!                             `key_stale`, `key_wrong`) - EXCEPT keys for which a live event pushed BEFORE the sync
//!                             request is still queued at that instant (directly, or absorbed by a queued clear):
//!                             that is the open finding C03.snapshot:key_stale ("pop alternates between the event queue
//!                             and the sync queue, so synced can overtake a live event queued before the sync
//!                             request"); probes `probe.synced_overtook_older_event.{stale,missing}`; `"strict": true`
//!                             reports them as `C03.queue.snapshot:<kind>:overtaken_event`
//!   C03.queue.tail            after the final drain every remote that synced holds exactly the lane's map
//! Every remote here receives every standard event from its sync request on, so the other open finding
//! (C03.snapshot:key_missing:implicit_link, broadcast before the implicit link exists) cannot occur by construction.

pub mod poke;

use std::collections::{BTreeMap, BTreeSet, HashMap, VecDeque};
use std::fmt::Debug;
use std::sync::OnceLock;

use bytes::BytesMut;
use serde::{Deserialize, Serialize};
use serde_json::{json, Value as Json};
use swimos_agent_protocol::{LaneResponse, MapOperation};
use swimos_model::Value;
use swimos_recon::parser::parse_recognize;
use uuid::Uuid;

use crate::backpressure::{BackpressureStrategy, MapBackpressure};
use crate::core::rng::{mix, Rng};
use crate::core::{Outcome, Tier, Violation, World};
use crate::event_queue::EventQueue;
use crate::lanes::queues::WriteQueues;
use crate::map_storage::{MapOps, MapStoreInner};
use crate::worlds::opseq::{execute_batch, shrink_json, Batch, SeqCtx, SeqSpec};

pub const BATCH: u64 = 96;
pub const MAX_OPS: usize = 64;

/// Key texts for `mapq`.
pub const KEY_TEXTS: [&str; 16] = ["1", " 1", "1 ", "2", "@a", "@a{}", "@a {}", "a", "\"a\"", "1.0", "@a{1}", "@b", "\"1\"", "{1}", "{{1,2},3}", "{1,{2},3}"];

/// Class (index of the first text with the same Recon value) of every key text.
pub fn key_classes() -> Vec<usize> {
    let vals: Vec<Value> = KEY_TEXTS.iter().map(|k| parse_recognize::<Value>(*k, false).expect("key table")).collect();
    (0..KEY_TEXTS.len()).map(|i| (0..=i).find(|j| vals[*j] == vals[i]).unwrap()).collect()
}

fn val_bytes(id: u32) -> Vec<u8> {
    // Lengths vary with the id so that both the "fits the old buffer" and the "new buffer" branch are taken.
    let mut v = format!("v{id}").into_bytes();
    v.extend(std::iter::repeat(b'x').take((id as usize * 7) % 23));
    v
}

#[derive(Clone, Copy, Debug, PartialEq, Eq)]
pub enum Op {
    Upd(usize, u32),
    Rem(usize),
    Clr,
    Pop,
    Epoch(usize),
    /// (remote, fresh)
    Sync(usize, bool),
}

impl Op {
    pub fn code(&self) -> String {
        match self {
            Op::Upd(k, id) => format!("u{k}={id}"),
            Op::Rem(k) => format!("d{k}"),
            Op::Clr => "c".into(),
            Op::Pop => "p".into(),
            Op::Epoch(d) => format!("e{d}"),
            Op::Sync(r, false) => format!("y{r}"),
            Op::Sync(r, true) => format!("Y{r}"),
        }
    }

    pub fn parse(s: &str) -> Option<Op> {
        match s {
            "c" => return Some(Op::Clr),
            "p" => return Some(Op::Pop),
            _ => {}
        }
        let (k, a) = s.split_at(1);
        Some(match k {
            "u" => {
                let (k, id) = a.split_once('=')?;
                Op::Upd(k.parse().ok()?, id.parse().ok()?)
            }
            "d" => Op::Rem(a.parse().ok()?),
            "e" => Op::Epoch(a.parse().ok()?),
            "y" => Op::Sync(a.parse().ok()?, false),
            "Y" => Op::Sync(a.parse().ok()?, true),
            _ => return None,
        })
    }
}

#[derive(Clone, Debug, PartialEq, Serialize, Deserialize)]
pub struct Seq {
    /// "mapq", "eventq" or "writeq".
    pub kind: String,
    /// Number of keys (mapq: key texts of KEY_TEXTS) in use.
    pub keys: usize,
    /// writeq: the lane's map is a BTreeMap (true) or a HashMap.
    #[serde(default)]
    pub ordered: bool,
    pub ops: Vec<String>,
}

impl SeqSpec for Seq {
    fn generate(seed: u64, idx: u64) -> Seq {
        gen_seq(&mut Rng::new(mix(seed, "queues-seq", idx)))
    }

    fn op_count(&self) -> usize {
        self.ops.len()
    }

    fn without_ops(&self, start: usize, len: usize) -> Seq {
        let mut s = self.clone();
        s.ops.drain(start..start + len);
        s
    }

    fn simplify(&self) -> Vec<Seq> {
        let mut out = vec![];
        if self.kind == "writeq" && !self.ordered {
            out.push(Seq { ordered: true, ..self.clone() });
        }
        // Epoch ops away one by one is done by the chunk pass; fewer keys when the highest is unused.
        let ops: Vec<Op> = self.ops.iter().filter_map(|s| Op::parse(s)).collect();
        let uses = |k: usize| ops.iter().any(|o| matches!(o, Op::Upd(x, _) | Op::Rem(x) if *x == k));
        if self.keys > 1 && !uses(self.keys - 1) {
            out.push(Seq { keys: self.keys - 1, ..self.clone() });
        }
        out
    }
}

fn gen_seq(rng: &mut Rng) -> Seq {
    let kind = *rng.pick(&["mapq", "mapq", "eventq", "writeq", "writeq"]);
    let keys = match kind {
        "mapq" => *rng.pick(&[3usize, 6, 9, KEY_TEXTS.len()]),
        _ => rng.range(1, 5) as usize,
    };
    let ordered = rng.chance(1, 2);
    let len = match rng.below(4) {
        0 => rng.range(3, 12),
        1 => rng.range(10, 30),
        _ => rng.range(24, MAX_OPS as u64),
    } as usize;
    let w_pop = *rng.pick(&[2u64, 4, 8, 12]);
    let w_rem = rng.range(1, 4);
    let w_clr = rng.range(0, 2);
    let w_sync = if kind == "writeq" { rng.range(1, 4) } else { 0 };
    let epoch = rng.chance(1, 3);
    let mut ops = vec![];
    let mut id = 0u32;
    if epoch {
        // Close to the wrap from the start (the queue is empty), and again later.
        ops.push(Op::Epoch(rng.range(0, 6) as usize));
    }
    while ops.len() < len {
        let x = rng.below(w_pop + w_rem + w_clr + w_sync + 10);
        let k = rng.usize_below(keys);
        let op = if x < w_pop {
            Op::Pop
        } else if x < w_pop + w_rem {
            Op::Rem(k)
        } else if x < w_pop + w_rem + w_clr {
            Op::Clr
        } else if x < w_pop + w_rem + w_clr + w_sync {
            Op::Sync(rng.usize_below(3), rng.chance(1, 2))
        } else if epoch && rng.chance(1, 16) {
            Op::Epoch(rng.range(0, 6) as usize)
        } else {
            id += 1;
            Op::Upd(k, id)
        };
        ops.push(op);
    }
    Seq { kind: kind.to_string(), keys, ordered, ops: ops.iter().map(|o| o.code()).collect() }
}

// ---------------------------------------------------------------------------------------------
// mapq / eventq: queues whose entries carry the values
// ---------------------------------------------------------------------------------------------

#[derive(Debug, Clone, PartialEq, Eq)]
enum Popped {
    /// (key class or None for an unknown key text, value id or None for unknown bytes)
    Update(Option<usize>, Option<u32>),
    Remove(Option<usize>),
    Clear,
}

trait Carried: Debug {
    fn push_update(&mut self, k: usize, id: u32);
    fn push_remove(&mut self, k: usize);
    fn push_clear(&mut self);
    fn pop(&mut self, classes: &[usize], pushed_ids: &[u32]) -> Option<Popped>;
    fn has_data(&self) -> bool;
    fn offset() -> &'static OnceLock<Result<usize, String>>;
    fn class_of(&self, classes: &[usize], k: usize) -> usize;
}

fn class_of_text(classes: &[usize], text: &[u8]) -> Option<usize> {
    KEY_TEXTS.iter().position(|t| t.as_bytes() == text).map(|i| classes[i])
}

impl Carried for MapBackpressure {
    fn push_update(&mut self, k: usize, id: u32) {
        self.push(MapOperation::Update { key: BytesMut::from(KEY_TEXTS[k].as_bytes()), value: BytesMut::from(&val_bytes(id)[..]) }).expect("valid key");
    }
    fn push_remove(&mut self, k: usize) {
        self.push(MapOperation::Remove { key: BytesMut::from(KEY_TEXTS[k].as_bytes()) }).expect("valid key");
    }
    fn push_clear(&mut self) {
        self.push(MapOperation::Clear).expect("clear");
    }
    fn pop(&mut self, classes: &[usize], pushed_ids: &[u32]) -> Option<Popped> {
        MapBackpressure::pop(self).map(|op| match op {
            MapOperation::Update { key, value } => Popped::Update(class_of_text(classes, key.as_ref()), pushed_ids.iter().rev().copied().find(|id| val_bytes(*id) == value.as_ref())),
            MapOperation::Remove { key } => Popped::Remove(class_of_text(classes, key.as_ref())),
            MapOperation::Clear => Popped::Clear,
        })
    }
    fn has_data(&self) -> bool {
        BackpressureStrategy::has_data(self)
    }
    fn offset() -> &'static OnceLock<Result<usize, String>> {
        static OFF: OnceLock<Result<usize, String>> = OnceLock::new();
        &OFF
    }
    fn class_of(&self, classes: &[usize], k: usize) -> usize {
        classes[k]
    }
}

impl Carried for EventQueue<u8, u32> {
    fn push_update(&mut self, k: usize, id: u32) {
        self.push(MapOperation::Update { key: k as u8, value: id });
    }
    fn push_remove(&mut self, k: usize) {
        self.push(MapOperation::Remove { key: k as u8 });
    }
    fn push_clear(&mut self) {
        self.push(MapOperation::Clear);
    }
    fn pop(&mut self, _classes: &[usize], _pushed: &[u32]) -> Option<Popped> {
        EventQueue::pop(self).map(|op| match op {
            MapOperation::Update { key, value } => Popped::Update(Some(key as usize), Some(value)),
            MapOperation::Remove { key } => Popped::Remove(Some(key as usize)),
            MapOperation::Clear => Popped::Clear,
        })
    }
    fn has_data(&self) -> bool {
        !self.is_empty()
    }
    fn offset() -> &'static OnceLock<Result<usize, String>> {
        static OFF: OnceLock<Result<usize, String>> = OnceLock::new();
        &OFF
    }
    fn class_of(&self, _classes: &[usize], k: usize) -> usize {
        k
    }
}

/// The sequence uses both of the key texts `{{1,2},3}` and `{1,{2},3}` (different Recon values that the product's key
/// comparison takes for the same key: a recorded finding; violations of such sequences carry a tag).
fn uses_nested_record_keys(seq: &Seq) -> bool {
    let key_of = |o: &String| -> Option<usize> {
        let r = o.strip_prefix('u').or_else(|| o.strip_prefix('d'))?;
        r.split('=').next()?.parse::<usize>().ok()
    };
    seq.kind == "mapq" && seq.ops.iter().any(|o| key_of(o) == Some(14)) && seq.ops.iter().any(|o| key_of(o) == Some(15))
}

fn viol(ctx: &mut SeqCtx<'_>, seq: &Seq, oi: usize, prop: &str, rule: &str, sig: &str, detail: String) {
    let tagged;
    let sig = if uses_nested_record_keys(seq) {
        tagged = format!("nested_record_keys:{sig}");
        tagged.as_str()
    } else {
        sig
    };
    let v = Violation::new(prop, rule, sig, format!("{detail}; kind={} keys={} ordered={} ops={}", seq.kind, seq.keys, seq.ordered, seq.ops.join(" ")));
    ctx.violate(oi, v);
}

/// Sets head_epoch of an EMPTY queue close to the wrap; `Ok(false)` = skipped (queue not empty).
fn set_epoch<T: Debug>(q: &mut T, off: &Result<usize, String>, empty: bool, empty_marker: &str, delta: usize) -> Result<bool, String> {
    if !empty || !format!("{q:?}").contains(empty_marker) {
        return Ok(false);
    }
    let off = off.as_ref().map_err(|e| format!("epoch hook unavailable: {e}"))?;
    poke::poke_head_epoch(q, *off, usize::MAX - delta)?;
    Ok(true)
}

/// Watches `head_epoch` across pops to count actual wrap-arounds.
struct EpochWatch {
    active: bool,
    last: Option<usize>,
}

impl EpochWatch {
    fn after_pop<T: Debug>(&mut self, q: &T, ctx: &mut SeqCtx<'_>) {
        if !self.active {
            return;
        }
        let now = poke::read_head_epoch(q);
        if let (Some(a), Some(b)) = (self.last, now) {
            if a > usize::MAX - 64 && b < 64 && b == a.wrapping_add(1) {
                ctx.count("probe.epoch_wrapped", 1);
                ctx.out.nontrivial = true;
                self.active = false;
            }
        }
        self.last = now;
    }
}

fn run_carried<Q: Carried + 'static>(seq: &Seq, ops: &[Op], ctx: &mut SeqCtx<'_>, mut q: Q, fresh: fn() -> Q, empty_marker: &str) -> Result<(), String> {
    let classes = key_classes();
    let n_classes = classes.iter().copied().max().unwrap_or(0) + 1;
    let init = |c: usize| -> u32 { 1_000_000 + c as u32 };
    let universe: Vec<usize> = {
        let mut u: Vec<usize> = (0..seq.keys).map(|k| q.class_of(&classes, k)).collect();
        u.sort();
        u.dedup();
        u
    };
    let _ = n_classes;
    let mut truth: BTreeMap<usize, u32> = universe.iter().map(|c| (*c, init(*c))).collect();
    let mut replica = truth.clone();
    // Push history.
    let mut seqno: u64 = 0;
    let mut pushed_ids: Vec<u32> = vec![];
    let mut upd_seq: BTreeMap<(usize, u32), u64> = BTreeMap::new();
    let mut rem_seqs: BTreeMap<usize, Vec<u64>> = BTreeMap::new();
    let mut last_clear_pushed: u64 = 0;
    let mut clear_delivered: u64 = 0;
    let mut last_popped: BTreeMap<usize, u64> = BTreeMap::new();
    let mut pushes: u64 = 0;
    let mut pops: u64 = 0;
    let mut in_queue_estimate: BTreeSet<usize> = BTreeSet::new();
    let mut coalesced = false;
    let mut watch = EpochWatch { active: false, last: None };

    let total = ops.len();
    let mut i = 0;
    let mut draining = false;
    loop {
        let (oi, op) = if i < total {
            (i + 1, ops[i])
        } else {
            draining = true;
            if !q.has_data() {
                break;
            }
            if pops > pushes + 2 {
                break;
            }
            (total + 1, Op::Pop)
        };
        i += 1;
        match op {
            Op::Upd(k, id) => {
                let c = q.class_of(&classes, k);
                seqno += 1;
                pushes += 1;
                pushed_ids.push(id);
                upd_seq.insert((c, id), seqno);
                truth.insert(c, id);
                if !in_queue_estimate.insert(c) {
                    coalesced = true;
                    ctx.count("probe.coalesced", 1);
                }
                q.push_update(k, id);
                ctx.count("ops.update", 1);
                ctx.rec(oi, "update", &format!("key#{k} class {c} = {id}"));
            }
            Op::Rem(k) => {
                let c = q.class_of(&classes, k);
                seqno += 1;
                pushes += 1;
                rem_seqs.entry(c).or_default().push(seqno);
                truth.remove(&c);
                if !in_queue_estimate.insert(c) {
                    coalesced = true;
                    ctx.count("probe.coalesced", 1);
                }
                q.push_remove(k);
                ctx.count("ops.remove", 1);
                ctx.rec(oi, "remove", &format!("key#{k} class {c}"));
            }
            Op::Clr => {
                seqno += 1;
                pushes += 1;
                last_clear_pushed = seqno;
                truth.clear();
                if !in_queue_estimate.is_empty() {
                    ctx.count("probe.clear_drops_queue", 1);
                    coalesced = true;
                }
                in_queue_estimate.clear();
                q.push_clear();
                ctx.count("ops.clear", 1);
                ctx.rec(oi, "clear", "");
            }
            Op::Sync(..) => {
                ctx.rec(oi, "skip", "sync on a plain queue");
            }
            Op::Epoch(d) => {
                let off = Q::offset().get_or_init(|| {
                    poke::discover_on_thread(fresh, |s: &mut Q| {
                        s.push_update(0, 1);
                        let _ = s.pop(&[0; 32], &[1]);
                    })
                });
                let empty = !q.has_data();
                if set_epoch(&mut q, off, empty, empty_marker, d)? {
                    ctx.count("probe.epoch_set", 1);
                    ctx.rec(oi, "epoch", &format!("head_epoch := MAX-{d}"));
                    watch.active = true;
                    watch.last = poke::read_head_epoch(&q);
                } else {
                    ctx.count("ops.epoch_skipped", 1);
                    ctx.rec(oi, "epoch", "skipped (queue not empty)");
                }
            }
            Op::Pop => {
                let claimed = q.has_data();
                let got = q.pop(&classes, &pushed_ids);
                if !draining {
                    ctx.count("ops.pop", 1);
                } else {
                    ctx.count("ops.pop_drain", 1);
                }
                ctx.rec(oi, "pop", &format!("{got:?}"));
                watch.after_pop(&q, ctx);
                match &got {
                    None => {
                        if claimed {
                            viol(ctx, seq, oi, "C02", "C02.queue.empty", "none_with_data", format!("op #{oi}: pop returned nothing although the queue claims data"));
                        }
                    }
                    Some(p) => {
                        pops += 1;
                        if !claimed {
                            viol(ctx, seq, oi, "C02", "C02.queue.empty", "data_when_empty", format!("op #{oi}: pop returned {p:?} although the queue claims to be empty"));
                        }
                        if pops > pushes {
                            viol(ctx, seq, oi, "C02", "C02.queue.fabricated", "more_pops_than_pushes", format!("op #{oi}: {pops} ops popped, {pushes} pushed"));
                        }
                        match p {
                            Popped::Clear => {
                                if last_clear_pushed <= clear_delivered {
                                    viol(ctx, seq, oi, "C02", "C02.queue.fabricated", "clear", format!("op #{oi}: a clear was popped, every pushed clear had been delivered"));
                                }
                                clear_delivered = last_clear_pushed;
                                replica.clear();
                            }
                            Popped::Update(c, id) => match (c, id) {
                                (Some(c), Some(id)) if upd_seq.contains_key(&(*c, *id)) => {
                                    let s = upd_seq[&(*c, *id)];
                                    in_queue_estimate.remove(c);
                                    if s <= last_popped.get(c).copied().unwrap_or(0) {
                                        viol(ctx, seq, oi, "C02", "C02.queue.per_key_order", "update", format!("op #{oi}: value {id} of key class {c} popped after a newer state of that key"));
                                    }
                                    if s < clear_delivered {
                                        viol(ctx, seq, oi, "C02", "C02.queue.clear_order", "old_after_clear", format!("op #{oi}: update {id} of key class {c} is older than a clear that was already delivered"));
                                    }
                                    if last_clear_pushed > clear_delivered && last_clear_pushed < s {
                                        viol(ctx, seq, oi, "C02", "C02.queue.clear_order", "new_before_clear", format!("op #{oi}: update {id} of key class {c} was pushed after a clear that has not been delivered yet"));
                                    }
                                    last_popped.insert(*c, s);
                                    replica.insert(*c, *id);
                                }
                                _ => {
                                    viol(ctx, seq, oi, "C02", "C02.queue.fabricated", "update", format!("op #{oi}: popped {p:?}: this key / value pair was never pushed"));
                                }
                            },
                            Popped::Remove(c) => {
                                let lp = c.map(|c| last_popped.get(&c).copied().unwrap_or(0)).unwrap_or(0);
                                let m = c.and_then(|c| rem_seqs.get(&c)).and_then(|v| v.iter().copied().find(|s| *s > lp && *s > clear_delivered));
                                match (c, m) {
                                    (Some(c), Some(s)) => {
                                        in_queue_estimate.remove(c);
                                        if last_clear_pushed > clear_delivered && last_clear_pushed < s {
                                            viol(ctx, seq, oi, "C02", "C02.queue.clear_order", "new_before_clear", format!("op #{oi}: remove of key class {c} was pushed after a clear that has not been delivered yet"));
                                        }
                                        // The newest remove not after the next update would be tighter; the oldest candidate is the sound choice.
                                        last_popped.insert(*c, s);
                                        replica.remove(c);
                                    }
                                    _ => {
                                        viol(ctx, seq, oi, "C02", "C02.queue.fabricated", "remove", format!("op #{oi}: popped {p:?}: no remove of that key is outstanding"));
                                    }
                                }
                            }
                        }
                    }
                }
            }
        }
        if in_queue_estimate.len() > universe.len() {
            ctx.count("probe.len_exceeds_keys", 1);
        }
        if ctx.failed() {
            return Ok(());
        }
        if !q.has_data() && replica != truth {
            let missing: Vec<_> = truth.keys().filter(|k| !replica.contains_key(k)).collect();
            let extra: Vec<_> = replica.keys().filter(|k| !truth.contains_key(k)).collect();
            let what = if !extra.is_empty() { "extra_key" } else if !missing.is_empty() { "missing_key" } else { "wrong_value" };
            viol(ctx, seq, oi, "C02", "C02.queue.replica", what, format!("after op #{oi} the queue is empty; replica {replica:?} != truth {truth:?} (key classes -> value ids)"));
            return Ok(());
        }
    }
    if q.has_data() {
        viol(ctx, seq, total + 1, "C02", "C02.queue.fabricated", "never_empty", format!("the queue still claims data after {pops} pops for {pushes} pushes"));
    }
    if coalesced {
        ctx.count("nontrivial_seqs", 1);
        ctx.out.nontrivial = true;
    }
    Ok(())
}

// ---------------------------------------------------------------------------------------------
// writeq: MapStoreInner + WriteQueues
// ---------------------------------------------------------------------------------------------

type Store<M> = MapStoreInner<u8, u32, WriteQueues<u8>, M>;

#[derive(Debug)]
enum WPop {
    Event(MapOperation<u8, u32>),
    SyncEvent(Uuid, MapOperation<u8, u32>),
    Synced(Uuid),
    Initialized,
}

trait Backing: MapOps<u8, u32> + Debug + Default + Sized + 'static {
    fn offset() -> &'static OnceLock<Result<usize, String>>;
    fn contents(&self) -> BTreeMap<u8, u32>;
}

impl Backing for BTreeMap<u8, u32> {
    fn offset() -> &'static OnceLock<Result<usize, String>> {
        static OFF: OnceLock<Result<usize, String>> = OnceLock::new();
        &OFF
    }
    fn contents(&self) -> BTreeMap<u8, u32> {
        self.clone()
    }
}

impl Backing for HashMap<u8, u32> {
    fn offset() -> &'static OnceLock<Result<usize, String>> {
        static OFF: OnceLock<Result<usize, String>> = OnceLock::new();
        &OFF
    }
    fn contents(&self) -> BTreeMap<u8, u32> {
        self.iter().map(|(k, v)| (*k, *v)).collect()
    }
}

fn copy_op(op: MapOperation<u8, &u32>) -> MapOperation<u8, u32> {
    match op {
        MapOperation::Update { key, value } => MapOperation::Update { key, value: *value },
        MapOperation::Remove { key } => MapOperation::Remove { key },
        MapOperation::Clear => MapOperation::Clear,
    }
}

fn pop_store<M: Backing>(s: &mut Store<M>) -> Option<WPop> {
    s.pop_operation().map(|r| match r {
        LaneResponse::StandardEvent(op) => WPop::Event(copy_op(op)),
        LaneResponse::SyncEvent(id, op) => WPop::SyncEvent(id, copy_op(op)),
        LaneResponse::Synced(id) => WPop::Synced(id),
        LaneResponse::Initialized => WPop::Initialized,
    })
}

fn remote_uuid(r: usize) -> Uuid {
    Uuid::from_u128(0x5000 + r as u128)
}

struct SyncState {
    /// Per key: every state the lane's map held since the sync request.
    hist: BTreeMap<u8, Vec<Option<u32>>>,
    /// Keys with a live event queued that was first pushed before the sync request; a queued clear that was
    /// pushed before it or absorbed such events.
    pending_before: BTreeSet<u8>,
    clear_before: bool,
}

struct RemoteRep {
    joined: bool,
    replica: BTreeMap<u8, u32>,
    sync: Option<SyncState>,
    synced_count: u64,
}

fn apply(rep: &mut BTreeMap<u8, u32>, op: &MapOperation<u8, u32>) {
    match op {
        MapOperation::Update { key, value } => {
            rep.insert(*key, *value);
        }
        MapOperation::Remove { key } => {
            rep.remove(key);
        }
        MapOperation::Clear => rep.clear(),
    }
}

fn run_writeq<M: Backing>(seq: &Seq, ops: &[Op], ctx: &mut SeqCtx<'_>) -> Result<(), String> {
    let keys: Vec<u8> = (0..seq.keys as u8).collect();
    let init = |k: u8| 1_000_000 + k as u32;
    let make = || -> Store<M> {
        let mut m = M::default();
        for k in 0..seq.keys as u8 {
            m.insert(k, init(k));
        }
        Store::<M>::new(m)
    };
    let mut store = make();
    let mut truth: BTreeMap<u8, u32> = keys.iter().map(|k| (*k, init(*k))).collect();
    let mut observer = truth.clone();
    let mut remotes: Vec<RemoteRep> = (0..3).map(|_| RemoteRep { joined: false, replica: BTreeMap::new(), sync: None, synced_count: 0 }).collect();
    let mut dirty: BTreeSet<u8> = BTreeSet::new();
    let mut clear_pending = false;
    let mut watch = EpochWatch { active: false, last: None };
    let mut nontrivial = false;
    let mut pops_since_progress = 0u32;

    // Records a change of the lane's map in the windows of all outstanding syncs.
    fn note_change(remotes: &mut [RemoteRep], truth: &BTreeMap<u8, u32>, keys: &[u8]) {
        for r in remotes.iter_mut() {
            if let Some(s) = r.sync.as_mut() {
                for k in keys {
                    let now = truth.get(k).copied();
                    let h = s.hist.entry(*k).or_default();
                    if h.last() != Some(&now) {
                        h.push(now);
                    }
                }
            }
        }
    }

    let total = ops.len();
    let mut i = 0;
    loop {
        let (oi, op) = if i < total {
            (i + 1, ops[i])
        } else {
            if store.queue().is_empty() {
                break;
            }
            if pops_since_progress > 400 {
                return Err("drain does not terminate".into());
            }
            pops_since_progress += 1;
            (total + 1, Op::Pop)
        };
        i += 1;
        match op {
            Op::Upd(k, id) => {
                let k = k as u8;
                store.update(k, id);
                truth.insert(k, id);
                if !dirty.insert(k) {
                    ctx.count("probe.coalesced", 1);
                    nontrivial = true;
                }
                note_change(&mut remotes, &truth, &keys);
                ctx.count("ops.update", 1);
                ctx.rec(oi, "update", &format!("key {k} = {id}"));
            }
            Op::Rem(k) => {
                let k = k as u8;
                let present = truth.contains_key(&k);
                store.remove(&k);
                if present {
                    truth.remove(&k);
                    if !dirty.insert(k) {
                        ctx.count("probe.coalesced", 1);
                        nontrivial = true;
                    }
                    note_change(&mut remotes, &truth, &keys);
                } else {
                    ctx.count("probe.remove_absent", 1);
                }
                ctx.count("ops.remove", 1);
                ctx.rec(oi, "remove", &format!("key {k} (present: {present})"));
            }
            Op::Clr => {
                store.clear();
                truth.clear();
                for r in remotes.iter_mut() {
                    if let Some(s) = r.sync.as_mut() {
                        s.clear_before = s.clear_before || !s.pending_before.is_empty();
                        s.pending_before.clear();
                    }
                }
                if !dirty.is_empty() {
                    ctx.count("probe.clear_drops_queue", 1);
                    nontrivial = true;
                }
                dirty.clear();
                clear_pending = true;
                note_change(&mut remotes, &truth, &keys);
                ctx.count("ops.clear", 1);
                ctx.rec(oi, "clear", "");
            }
            Op::Epoch(d) => {
                let off = M::offset().get_or_init(|| {
                    let n = seq.keys as u8;
                    poke::discover_on_thread(
                        move || {
                            let mut m = M::default();
                            for k in 0..n {
                                m.insert(k, 1_000_000 + k as u32);
                            }
                            Store::<M>::new(m)
                        },
                        |s: &mut Store<M>| {
                            s.update(0, 1);
                            let _ = s.pop_operation();
                        },
                    )
                });
                let empty = dirty.is_empty() && !clear_pending;
                if set_epoch(&mut store, off, empty, "events: []", d)? {
                    ctx.count("probe.epoch_set", 1);
                    ctx.rec(oi, "epoch", &format!("head_epoch := MAX-{d}"));
                    watch.active = true;
                    watch.last = poke::read_head_epoch(&store);
                } else {
                    ctx.count("ops.epoch_skipped", 1);
                    ctx.rec(oi, "epoch", "skipped (queue not empty)");
                }
            }
            Op::Sync(r, fresh) => {
                if r >= remotes.len() || remotes[r].sync.is_some() {
                    ctx.count("ops.sync_skipped", 1);
                    ctx.rec(oi, "skip", &format!("sync of remote {r}: one is outstanding"));
                } else {
                    // What MapLane::sync does.
                    let snapshot: VecDeque<u8> = store.get_map(|m| MapOps::keys(m).cloned().collect());
                    let n = snapshot.len();
                    store.queue().sync(remote_uuid(r), snapshot);
                    let rep = &mut remotes[r];
                    if !rep.joined {
                        rep.joined = true;
                        // `y`: linked from the start, holds what was broadcast so far; `Y`: links now, holds nothing.
                        rep.replica = if fresh { BTreeMap::new() } else { observer.clone() };
                    }
                    rep.sync = Some(SyncState { hist: keys.iter().map(|k| (*k, vec![truth.get(k).copied()])).collect(), pending_before: dirty.clone(), clear_before: clear_pending });
                    if !dirty.is_empty() || clear_pending {
                        ctx.count("probe.sync_with_events_pending", 1);
                        nontrivial = true;
                    }
                    if remotes.iter().filter(|r| r.sync.is_some()).count() > 1 {
                        ctx.count("probe.concurrent_syncs", 1);
                        nontrivial = true;
                    }
                    ctx.count(if fresh { "ops.sync_fresh" } else { "ops.sync_linked" }, 1);
                    ctx.rec(oi, "sync", &format!("remote {r} fresh={fresh} snapshot of {n} keys"));
                }
            }
            Op::Pop => 'pop: {
                let claimed_empty = store.queue().is_empty();
                let got = pop_store(&mut store);
                ctx.count(if i <= total { "ops.pop" } else { "ops.pop_drain" }, 1);
                ctx.rec(oi, "pop", &format!("{got:?}"));
                watch.after_pop(&store, ctx);
                match got {
                    None => {
                        // Legal with work queued only if all of it was skipped (updates of absent keys cannot occur here).
                        if !claimed_empty && !store.queue().is_empty() {
                            viol(ctx, seq, oi, "C02", "C02.queue.empty", "none_with_data", format!("op #{oi}: pop returned nothing although the queues are not empty"));
                        }
                    }
                    Some(WPop::Initialized) => {
                        viol(ctx, seq, oi, "C02", "C02.queue.fabricated", "initialized", format!("op #{oi}: Initialized popped from a map lane queue"));
                    }
                    Some(WPop::Event(op)) => {
                        pops_since_progress = 0;
                        match &op {
                            MapOperation::Clear => {
                                if !clear_pending {
                                    viol(ctx, seq, oi, "C02", "C02.queue.fabricated", "clear", format!("op #{oi}: a clear was popped, none is outstanding"));
                                }
                                clear_pending = false;
                                for r in remotes.iter_mut() {
                                    if let Some(s) = r.sync.as_mut() {
                                        s.clear_before = false;
                                    }
                                }
                            }
                            MapOperation::Update { key, .. } | MapOperation::Remove { key } => {
                                if clear_pending {
                                    viol(ctx, seq, oi, "C02", "C02.queue.clear_order", "new_before_clear", format!("op #{oi}: {op:?} popped while an older clear is still queued"));
                                }
                                if !dirty.remove(key) {
                                    viol(ctx, seq, oi, "C02", "C02.queue.fabricated", "event", format!("op #{oi}: {op:?} popped, no change of key {key} is outstanding"));
                                }
                                for r in remotes.iter_mut() {
                                    if let Some(s) = r.sync.as_mut() {
                                        s.pending_before.remove(key);
                                    }
                                }
                                let ok = match &op {
                                    MapOperation::Update { key, value } => truth.get(key) == Some(value),
                                    MapOperation::Remove { key } => !truth.contains_key(key),
                                    _ => true,
                                };
                                if !ok {
                                    viol(ctx, seq, oi, "C02", "C02.queue.stale_event", if matches!(op, MapOperation::Remove { .. }) { "remove_of_present_key" } else { "update_value" }, format!("op #{oi}: {op:?} popped, the lane's map holds {:?} for that key", truth.get(key)));
                                }
                            }
                        }
                        apply(&mut observer, &op);
                        for r in remotes.iter_mut().filter(|r| r.joined) {
                            apply(&mut r.replica, &op);
                        }
                    }
                    Some(WPop::SyncEvent(id, op)) => {
                        pops_since_progress = 0;
                        let Some(r) = (0..remotes.len()).find(|r| remote_uuid(*r) == id) else {
                            viol(ctx, seq, oi, "C03", "C03.queue.sync_event", "unknown_remote", format!("op #{oi}: SyncEvent for an unknown remote"));
                            break 'pop;
                        };
                        if remotes[r].sync.is_none() {
                            viol(ctx, seq, oi, "C03", "C03.queue.sync_event", "unrequested", format!("op #{oi}: SyncEvent for remote {r}, which has no sync outstanding"));
                        }
                        match &op {
                            MapOperation::Update { key, value } => {
                                if truth.get(key) != Some(value) {
                                    viol(ctx, seq, oi, "C03", "C03.queue.sync_event", "stale_value", format!("op #{oi}: SyncEvent {op:?}, the lane's map holds {:?}", truth.get(key)));
                                }
                            }
                            _ => {
                                viol(ctx, seq, oi, "C03", "C03.queue.sync_event", "not_an_update", format!("op #{oi}: SyncEvent {op:?}"));
                            }
                        }
                        ctx.count("probe.sync_events", 1);
                        apply(&mut remotes[r].replica, &op);
                    }
                    Some(WPop::Synced(id)) => {
                        pops_since_progress = 0;
                        let Some(r) = (0..remotes.len()).find(|r| remote_uuid(*r) == id) else {
                            viol(ctx, seq, oi, "C03", "C03.queue.synced", "unknown_remote", format!("op #{oi}: Synced for an unknown remote"));
                            break 'pop;
                        };
                        let Some(s) = remotes[r].sync.take() else {
                            viol(ctx, seq, oi, "C03", "C03.queue.synced", "unrequested", format!("op #{oi}: Synced for remote {r}, which has no sync outstanding"));
                            break 'pop;
                        };
                        remotes[r].synced_count += 1;
                        ctx.count("probe.synced", 1);
                        let rep = remotes[r].replica.clone();
                        for k in &keys {
                            let have = rep.get(k).copied();
                            let hist = &s.hist[k];
                            if hist.contains(&have) {
                                break 'pop;
                            }
                            let kind = match have {
                                None => "key_missing",
                                Some(_) if hist.iter().all(|h| h.is_none()) => "key_stale",
                                Some(_) => "key_wrong",
                            };
                            let excused = s.clear_before || s.pending_before.contains(k);
                            if excused {
                                ctx.count(&format!("probe.synced_overtook_older_event.{}", &kind[4..]), 1);
                                nontrivial = true;
                                // This used to be excused (recorded finding C03.snapshot:key_stale); the defect was repaired
                                // in /repo (a0af5f8), so it is a violation like any other now.
                                let _ = ctx.strict;
                                viol(ctx, seq, oi, "C03", "C03.queue.snapshot", &format!("{kind}:overtaken_event"), format!("op #{oi}: at Synced remote {r} holds {have:?} for key {k}; between its sync request and now the lane held {hist:?}; a live event for the key pushed before the sync request is still queued"));
                            } else {
                                viol(ctx, seq, oi, "C03", "C03.queue.snapshot", kind, format!("op #{oi}: at Synced remote {r} holds {have:?} for key {k}; between its sync request and now the lane held {hist:?} and no older live event for the key is queued"));
                            }
                        }
                    }
                }
            }
        }
        if ctx.failed() {
            return Ok(());
        }
        // Harness sanity: the real map against the reference.
        let real = store.get_map(|m| m.contents());
        if real != truth {
            return Err(format!("after op #{oi} the lane's map {real:?} differs from the reference {truth:?}"));
        }
        if store.queue().is_empty() {
            if observer != truth {
                let what = if observer.keys().any(|k| !truth.contains_key(k)) { "extra_key" } else if truth.keys().any(|k| !observer.contains_key(k)) { "missing_key" } else { "wrong_value" };
                viol(ctx, seq, oi, "C02", "C02.queue.replica", what, format!("after op #{oi} the queues are empty; observer replica {observer:?} != lane map {truth:?}"));
                return Ok(());
            }
            for (r, rep) in remotes.iter().enumerate() {
                if rep.sync.is_some() {
                    viol(ctx, seq, oi, "C03", "C03.queue.synced", "missing", format!("after op #{oi} the queues are empty but remote {r} never got its Synced"));
                    return Ok(());
                }
                if rep.joined && rep.replica != truth {
                    let what = if rep.replica.keys().any(|k| !truth.contains_key(k)) { "extra_key" } else if truth.keys().any(|k| !rep.replica.contains_key(k)) { "missing_key" } else { "wrong_value" };
                    viol(ctx, seq, oi, "C03", "C03.queue.tail", what, format!("after op #{oi} the queues are empty; remote {r} holds {:?}, the lane {truth:?}", rep.replica));
                    return Ok(());
                }
            }
        }
    }
    if remotes.iter().any(|r| r.synced_count > 0) && nontrivial {
        ctx.count("nontrivial_seqs", 1);
        ctx.out.nontrivial = true;
    }
    Ok(())
}

fn run_seq(seq: &Seq, ctx: &mut SeqCtx<'_>) -> Result<(), String> {
    let max_keys = match seq.kind.as_str() {
        "mapq" => KEY_TEXTS.len(),
        "eventq" | "writeq" => 8,
        k => return Err(format!("unknown kind {k}")),
    };
    if seq.keys == 0 || seq.keys > max_keys {
        return Err(format!("keys must be 1..={max_keys}"));
    }
    let mut ops = vec![];
    for s in &seq.ops {
        let op = Op::parse(s).ok_or_else(|| format!("bad op {s}"))?;
        match op {
            Op::Upd(k, _) | Op::Rem(k) if k >= seq.keys => return Err(format!("op {s}: key out of range")),
            Op::Epoch(d) if d > 1000 => return Err(format!("op {s}: delta too large")),
            Op::Sync(r, _) if r >= 3 => return Err(format!("op {s}: remote out of range")),
            _ => {}
        }
        ops.push(op);
    }
    ctx.rec(0, "seq", &format!("kind={} keys={} ordered={} ops={}", seq.kind, seq.keys, seq.ordered, seq.ops.join(" ")));
    ctx.count(&format!("seqs.{}", seq.kind), 1);
    match seq.kind.as_str() {
        "mapq" => run_carried(seq, &ops, ctx, MapBackpressure::default(), MapBackpressure::default, "queue: []"),
        "eventq" => run_carried(seq, &ops, ctx, EventQueue::<u8, u32>::default(), EventQueue::<u8, u32>::default, "events: []"),
        _ => {
            if seq.ordered {
                run_writeq::<BTreeMap<u8, u32>>(seq, &ops, ctx)
            } else {
                run_writeq::<HashMap<u8, u32>>(seq, &ops, ctx)
            }
        }
    }
}

/// Diagnostic: how the product's `ReconKey` equality relates to the key classes of the harness.
pub fn key_report() -> String {
    use std::hash::{Hash, Hasher};
    let classes = key_classes();
    let mut out = String::new();
    for (i, a) in KEY_TEXTS.iter().enumerate() {
        out.push_str(&format!("{:>8?} class {:>2}:", a, classes[i]));
        for (j, b) in KEY_TEXTS.iter().enumerate() {
            let eq = swimos_recon::compare_recon_values(a, b);
            let mut ha = std::collections::hash_map::DefaultHasher::new();
            let mut hb = std::collections::hash_map::DefaultHasher::new();
            swimos_recon::recon_hash(a, &mut ha);
            swimos_recon::recon_hash(b, &mut hb);
            let heq = ha.finish() == hb.finish();
            let want = classes[i] == classes[j];
            out.push(match (eq, heq, want) {
                (true, true, true) => '=',
                (false, _, false) => '.',
                (true, _, false) => 'E',
                (false, _, true) => 'N',
                (true, false, true) => 'H',
            });
        }
        let _ = (0u8).hash(&mut std::collections::hash_map::DefaultHasher::new());
        out.push('\n');
    }
    out.push_str("= equal (compare + hash agree with Value equality), . distinct, E compare says equal but Values differ, N Values equal but compare says different, H equal but hashes differ\n");
    out
}

pub struct QueuesWorld;

impl World for QueuesWorld {
    fn name(&self) -> &'static str {
        "queues"
    }

    fn generate(&self, seed: u64, _tier: Tier) -> Json {
        serde_json::to_value(Batch::<Seq>::seeded(seed, BATCH)).unwrap()
    }

    fn execute(&self, scenario: &Json, keep_log: bool) -> Outcome {
        let mut out = execute_batch::<Seq>(scenario, keep_log, MAX_OPS, run_seq, |seq, msg| {
            Violation::new("C02", "C02.queue.panic", &seq.kind, format!("the queue panicked: {msg}; kind={} keys={} ops={}", seq.kind, seq.keys, seq.ops.join(" ")))
        });
        // The downlink runtime relieves back-pressure on its map commands with the very same queue (`MapBackpressure`,
        // downlink/backpressure.rs): what that queue loses, reorders or fabricates is the subject of C07 as well.
        let mirrored: Vec<Violation> = out
            .violations
            .iter()
            .filter(|v| v.property == "C02" && v.detail.contains("kind=mapq"))
            .map(|v| Violation {
                property: "C07".to_string(),
                rule: v.rule.replacen("C02.", "C07.", 1),
                sig: v.sig.replacen("C02.", "C07.", 1),
                detail: v.detail.clone(),
            })
            .collect();
        out.violations.extend(mirrored);
        out
    }

    fn shrink(&self, scenario: &Json) -> Vec<Json> {
        shrink_json::<Seq>(scenario)
    }

    fn rule(&self) -> String {
        format!(
            "one run = {BATCH} seeded op sequences (<= {MAX_OPS} ops of update/remove/clear/pop, per-sequence pop weight so that queues run long or \
             short) on a fresh real queue: 2/5 MapOperationQueue via MapBackpressure over {} key texts in Recon-equality classes with near-misses, 1/5 \
             EventQueue<u8,u32>, 2/5 MapStoreInner+WriteQueues (BTreeMap or HashMap lane map, 1..=5 keys) with sync requests of up to 3 remotes (linked \
             before, or linking by syncing); one sequence in three starts with head_epoch set to usize::MAX-d through the verified raw-pointer hook so \
             that the epoch arithmetic wraps. Every pop is judged against the reference (see module doc), the replica against the truth whenever the \
             queue is empty and after the final drain. Non-trivial = a push hit a key that was already queued / a clear dropped queued entries \
             (mapq, eventq), a sync completed in a sequence with coalescing, pending events at the sync request or concurrent syncs (writeq), or the \
             epoch actually wrapped (probe.epoch_wrapped); distinct = distinct hash of the full history",
            KEY_TEXTS.len()
        )
    }

    fn components(&self) -> Json {
        json!({
            "real": [
                "swimos_runtime/src/backpressure/map_queue/mod.rs (MapOperationQueue::{push, pop, is_empty}) + backpressure/key/mod.rs (ReconKey: compare_recon_values / recon_hash) + backpressure/mod.rs (MapBackpressure::{push, pop, has_data}) - compiled from /repo by #[path] as crate-root module `backpressure`",
                "swimos_agent/src/event_queue/mod.rs (EventQueue::{push, pop, is_empty}, to_operation) - by #[path] as crate-root module `event_queue`",
                "swimos_agent/src/lanes/queues/mod.rs (WriteQueues::{push_operation, sync, pop, is_empty}, SyncQueue, MapEventQueue impl) - by #[path] via the crate-root shim `lanes`",
                "swimos_agent/src/map_storage/mod.rs (MapStoreInner::{new, update, remove, clear, queue, pop_operation, get_map}, MapOps for BTreeMap / HashMap) - by #[path] as crate-root module `map_storage`",
                "swimos_recon::{compare_recon_values, recon_hash} (inside ReconKey), swimos_recon parser (key classes of the harness)"
            ],
            "stub": [
                "the map lane item (lanes/map/mod.rs): its two-line `sync` (keys of the map -> queue().sync) is replayed by the harness on the real MapStoreInner",
                "remotes: replicas applying the popped events; every remote receives every standard event from its sync request on (no link registry here)",
                "head_epoch hook: a verified raw-pointer write on an EMPTY queue (poke.rs) stands for 2^64-d pops; the wrap is unreachable otherwise"
            ]
        })
    }
}
