//! Hook for the private `head_epoch: usize` field of the product's coalescing queues.
//!
//! `head_epoch` only grows by one per pop (and is reset by a clear), so its wrap-around is reachable only after
//! 2^64 pops without a clear: not by running ops. The queues are compiled from /repo unchanged and the field is
//! private, so the hook writes it through a raw pointer instead:
//!
//!  * the field's word offset inside the queue type is DISCOVERED at run time on a scratch instance: it is
//!    driven through `n` push+pop cycles (so that `head_epoch == n`, read back from the type's `Debug` output),
//!    the words equal to `n` are the candidates, one more cycle must turn exactly one candidate into `n + 1`;
//!  * the write is then VERIFIED on the real instance through `Debug` (`head_epoch: <new value>`).
//!
//! The value of `head_epoch` has no meaning while the queue is empty (every stored epoch is relative to it and
//! the epoch map is empty), so setting it on an EMPTY queue produces exactly the state that 2^64 - delta pops
//! would have produced. The hook refuses to touch a non-empty queue.

use std::fmt::Debug;

/// `head_epoch` as printed by the derived `Debug` of the queue (or of a struct containing exactly one queue).
pub fn read_head_epoch<T: Debug>(t: &T) -> Option<usize> {
    let s = format!("{t:?}");
    let i = s.find("head_epoch: ")?;
    let rest = &s[i + "head_epoch: ".len()..];
    let end = rest.find(|c: char| !c.is_ascii_digit())?;
    rest[..end].parse().ok()
}

fn words<T>(t: &T) -> Vec<usize> {
    let n = std::mem::size_of::<T>() / std::mem::size_of::<usize>();
    let p = t as *const T as *const usize;
    // SAFETY: reads `n` aligned words inside `*t`; the queue types consist of word-sized fields only.
    (0..n).map(|i| unsafe { std::ptr::read(p.add(i)) }).collect()
}

/// Runs `discover_offset` on a thread of its own: the scratch instance draws a `RandomState`, which must not
/// shift the (deterministic, per-thread) hash keys of the run that happens to trigger the discovery.
pub fn discover_on_thread<T: Debug + 'static>(make: impl FnOnce() -> T + Send + 'static, cycle: impl FnMut(&mut T) + Send + 'static) -> Result<usize, String> {
    std::thread::spawn(move || {
        let mut scratch = make();
        discover_offset(&mut scratch, cycle)
    })
    .join()
    .unwrap_or_else(|_| Err("offset discovery panicked".to_string()))
}

/// Finds the word offset of `head_epoch` in `T`. `cycle` must perform one push + one pop on the scratch instance
/// (each increments `head_epoch` by one and leaves the queue empty).
pub fn discover_offset<T: Debug>(scratch: &mut T, mut cycle: impl FnMut(&mut T)) -> Result<usize, String> {
    if std::mem::align_of::<T>() < std::mem::align_of::<usize>() {
        return Err("type is not word aligned".into());
    }
    const N: usize = 935;
    for _ in 0..N {
        cycle(scratch);
    }
    if read_head_epoch(scratch) != Some(N) {
        return Err(format!("head_epoch after {N} cycles reads {:?}", read_head_epoch(scratch)));
    }
    let before = words(scratch);
    cycle(scratch);
    let after = words(scratch);
    let cands: Vec<usize> = (0..before.len()).filter(|i| before[*i] == N && after[*i] == N + 1).collect();
    if cands.len() != 1 {
        return Err(format!("{} candidate words for head_epoch", cands.len()));
    }
    Ok(cands[0])
}

/// Overwrites `head_epoch` of `*t` (word offset `off`, from `discover_offset` for the same type) and verifies
/// the write through `Debug`.
pub fn poke_head_epoch<T: Debug>(t: &mut T, off: usize, value: usize) -> Result<(), String> {
    let cur = read_head_epoch(t).ok_or("no head_epoch in Debug output")?;
    let w = words(t);
    if off >= w.len() || w[off] != cur {
        return Err("offset does not hold the current head_epoch".into());
    }
    // SAFETY: `off` is the offset of the `usize` field `head_epoch` of `*t` (discovered and cross-checked against
    // the Debug output above); any bit pattern is a valid usize.
    unsafe {
        let p = t as *mut T as *mut usize;
        std::ptr::write(p.add(off), value);
    }
    if read_head_epoch(t) != Some(value) {
        return Err("head_epoch write not visible in Debug output".into());
    }
    Ok(())
}
