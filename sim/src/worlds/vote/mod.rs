//! W-VOTE: sequential op simulator for the inactivity-vote coordinator (property C17).
//!
//! Code under test: `/repo/runtime/swimos_runtime/src/timeout_coord/mod.rs`. The module is private in
//! `swimos_runtime` and has no crate-internal dependencies, so the *real source file* is compiled into
//! this crate with `#[path]` (nothing is copied).
//!
//! One run = a batch of 64 short op sequences; every sequence gets a fresh coordinator
//! (`downlink_timeout_coordinator()` for two parties, `agent_timeout_coordinator()` for three), the real
//! `Voter::{vote, rescind}`, `Drop for Voter` and `Receiver::poll` are called in the drawn order and
//! compared with a reference model derived from the property text, op by op.
//!
//! Reference model (from the text of C17, not from the implementation):
//! * every party is `Idle` (present, no outstanding vote), `Voting` or `Dropped`; `latched` = unanimity
//!   has been reached at some moment;
//! * unanimity is reached at the first moment every party is `Voting` or `Dropped` ("a task that
//!   disappears without voting counts as having voted");
//! * `Vote(i)`: i becomes `Voting`; the answer is `Unanimous` iff this vote reaches unanimity. For a vote
//!   cast *after* unanimity the property text demands nothing about the answer (both are accepted; a
//!   `UnanimityPending` there is counted in the probe `vote_pending_after_unanimity`, it deviates from
//!   the doc comment of `vote` only);
//! * `Rescind(i)` before unanimity: i becomes `Idle`, answer `UnanimityPending`; after unanimity the
//!   rescind is refused: answer `Unanimous`, nothing changes (sticky);
//! * `Drop(i)`: i becomes `Dropped` (counts as a vote for ever);
//! * the `Receiver` is ready iff `latched`; if it was polled `Pending` and unanimity is reached later,
//!   the waker of that poll must have been woken.

#[allow(dead_code, unused_imports, clippy::all)]
#[path = "/repo/runtime/swimos_runtime/src/timeout_coord/mod.rs"]
mod timeout_coord;

use std::future::Future;
use std::panic::{catch_unwind, AssertUnwindSafe};
use std::pin::Pin;
use std::sync::atomic::{AtomicU64, Ordering};
use std::sync::Arc;
use std::task::{Context, Poll, Wake, Waker};

use serde::{Deserialize, Serialize};
use serde_json::{json, Value as Json};

use crate::core::log::EventLog;
use crate::core::rng::{mix, Rng};
use crate::core::{Outcome, Tier, Violation, World};

use timeout_coord::{agent_timeout_coordinator, downlink_timeout_coordinator, Receiver, VoteResult, Voter};

pub const SEQS_PER_RUN: usize = 64;
pub const MAX_OPS: usize = 24;
const PROP: &str = "C17";

// ---------------------------------------------------------------------------------------------
// Scenario
// ---------------------------------------------------------------------------------------------

#[derive(Clone, Copy, Debug, PartialEq, Eq)]
pub enum Op {
    Vote(usize),
    Rescind(usize),
    Drop(usize),
    Poll,
}

impl Op {
    pub fn code(&self) -> String {
        match self {
            Op::Vote(i) => format!("v{i}"),
            Op::Rescind(i) => format!("r{i}"),
            Op::Drop(i) => format!("d{i}"),
            Op::Poll => "p".to_string(),
        }
    }

    pub fn parse(s: &str) -> Option<Op> {
        if s == "p" {
            return Some(Op::Poll);
        }
        let (k, p) = s.split_at(1);
        let p: usize = p.parse().ok()?;
        match k {
            "v" => Some(Op::Vote(p)),
            "r" => Some(Op::Rescind(p)),
            "d" => Some(Op::Drop(p)),
            _ => None,
        }
    }

    fn party(&self) -> Option<usize> {
        match self {
            Op::Vote(i) | Op::Rescind(i) | Op::Drop(i) => Some(*i),
            Op::Poll => None,
        }
    }
}

/// One op sequence on a fresh coordinator: `n` parties; ops are `v<i>` vote, `r<i>` rescind,
/// `d<i>` drop the voter, `p` poll the receiver once.
#[derive(Clone, Debug, PartialEq, Serialize, Deserialize)]
pub struct Seq {
    pub n: usize,
    pub ops: Vec<String>,
}

#[derive(Clone, Debug, PartialEq, Serialize, Deserialize)]
pub struct VoteScenario {
    pub seqs: Vec<Seq>,
    /// If set, the run additionally executes EVERY op sequence of length 1..=depth for 2 and for 3 parties
    /// (ops on an already dropped party, which the API makes impossible, are pruned).
    #[serde(default, skip_serializing_if = "Option::is_none")]
    pub sweep_depth: Option<usize>,
}

/// About one run in `SWEEP_ONE_IN` carries the exhaustive sweep (the run seed decides).
pub const SWEEP_ONE_IN_QUICK: u64 = 512;
pub const SWEEP_DEPTH_QUICK: usize = 5;
pub const SWEEP_ONE_IN_THOROUGH: u64 = 32_768;
pub const SWEEP_DEPTH_THOROUGH: usize = 6;

#[derive(Clone, Copy, Debug, PartialEq, Eq)]
enum P {
    Idle,
    Voting,
    Dropped,
}

impl P {
    fn ch(&self) -> char {
        match self {
            P::Idle => 'i',
            P::Voting => 'V',
            P::Dropped => 'D',
        }
    }
}

/// The reference model (see module doc).
#[derive(Clone, Debug)]
struct Model {
    st: Vec<P>,
    ever_voted: Vec<bool>,
    latched: bool,
    /// A party was dropped with no outstanding vote after having voted and rescinded / never having voted.
    dropped_after_rescind: bool,
    dropped_silent: bool,
}

#[derive(Clone, Copy, Debug, PartialEq, Eq)]
enum Want {
    Exactly(VoteResult),
    Any,
}

impl Model {
    fn new(n: usize) -> Model {
        Model { st: vec![P::Idle; n], ever_voted: vec![false; n], latched: false, dropped_after_rescind: false, dropped_silent: false }
    }

    fn all_in(&self) -> bool {
        self.st.iter().all(|p| *p != P::Idle)
    }

    fn idle_count(&self) -> usize {
        self.st.iter().filter(|p| **p == P::Idle).count()
    }

    fn vote(&mut self, i: usize) -> Want {
        self.st[i] = P::Voting;
        self.ever_voted[i] = true;
        if self.latched {
            Want::Any
        } else if self.all_in() {
            self.latched = true;
            Want::Exactly(VoteResult::Unanimous)
        } else {
            Want::Exactly(VoteResult::UnanimityPending)
        }
    }

    fn rescind(&mut self, i: usize) -> Want {
        if self.latched {
            Want::Exactly(VoteResult::Unanimous)
        } else {
            if self.st[i] == P::Voting {
                self.st[i] = P::Idle;
            }
            Want::Exactly(VoteResult::UnanimityPending)
        }
    }

    /// Returns true if the dropped party had no outstanding vote (the drop counts as its vote).
    fn drop_party(&mut self, i: usize) -> bool {
        let as_vote = self.st[i] == P::Idle;
        if as_vote {
            if self.ever_voted[i] {
                self.dropped_after_rescind = true;
            } else {
                self.dropped_silent = true;
            }
        }
        self.st[i] = P::Dropped;
        if !self.latched && self.all_in() {
            self.latched = true;
        }
        as_vote
    }

    fn show(&self) -> String {
        let s: String = self.st.iter().map(|p| p.ch()).collect();
        format!("[{}]{}", s, if self.latched { " UNANIMOUS" } else { "" })
    }

    /// Context class for signatures of "unanimity expected but missing" violations.
    fn missing_tag(&self) -> &'static str {
        if self.dropped_after_rescind {
            ":after_drop_of_rescinded_voter"
        } else if self.dropped_silent {
            ":after_drop_of_silent_voter"
        } else {
            ""
        }
    }
}

// ---------------------------------------------------------------------------------------------
// Generation
// ---------------------------------------------------------------------------------------------

fn gen_seq(rng: &mut Rng) -> Seq {
    let n = if rng.chance(1, 2) { 2 } else { 3 };
    let len = match rng.below(4) {
        0 => rng.range(1, 6),
        1 => rng.range(4, 12),
        _ => rng.range(8, MAX_OPS as u64),
    } as usize;
    // Swarm: per-sequence weights (out of 10) of the biased generators and of the op kinds.
    let w_near = rng.range(0, 6);
    let w_repeat = rng.range(0, 4);
    let kinds: [(u64, u8); 4] = [(rng.range(1, 4), 0), (rng.range(1, 4), 1), (rng.range(0, 2), 2), (rng.range(0, 3), 3)];
    let mut m = Model::new(n);
    let mut ops: Vec<Op> = vec![];
    let mut last: Option<Op> = None;
    while ops.len() < len {
        let live: Vec<usize> = (0..n).filter(|i| m.st[*i] != P::Dropped).collect();
        if live.is_empty() {
            ops.push(Op::Poll);
            break;
        }
        let x = rng.below(10);
        let op = if x < w_near {
            let idle: Vec<usize> = (0..n).filter(|i| m.st[*i] == P::Idle).collect();
            let voting: Vec<usize> = (0..n).filter(|i| m.st[*i] == P::Voting).collect();
            if idle.len() > 1 {
                // Drive towards "all but one voted".
                Op::Vote(*rng.pick(&idle))
            } else if idle.len() == 1 {
                let missing = idle[0];
                match rng.below(10) {
                    0..=3 if !voting.is_empty() => Op::Rescind(*rng.pick(&voting)),
                    4..=5 => Op::Poll,
                    6..=7 => Op::Vote(missing),
                    8 => Op::Drop(missing),
                    _ => {
                        if !voting.is_empty() && rng.chance(1, 2) {
                            Op::Vote(*rng.pick(&voting))
                        } else {
                            Op::Rescind(missing)
                        }
                    }
                }
            } else {
                match rng.below(8) {
                    0..=2 => Op::Rescind(*rng.pick(&live)),
                    3..=4 => Op::Vote(*rng.pick(&live)),
                    5..=6 => Op::Poll,
                    _ => Op::Drop(*rng.pick(&live)),
                }
            }
        } else if x < w_near + w_repeat && last.and_then(|o| o.party()).map(|p| m.st[p] != P::Dropped).unwrap_or(false) {
            // Repeated vote / rescind by the same party.
            let p = last.and_then(|o| o.party()).unwrap();
            match (last.unwrap(), rng.below(10)) {
                (Op::Vote(_), 0..=6) => Op::Rescind(p),
                (Op::Vote(_), _) => Op::Vote(p),
                (Op::Rescind(_), 0..=4) => Op::Vote(p),
                (Op::Rescind(_), 5..=7) => Op::Rescind(p),
                (_, _) => Op::Drop(p),
            }
        } else {
            let p = *rng.pick(&live);
            match *rng.pick_weighted(&kinds) {
                0 => Op::Vote(p),
                1 => Op::Rescind(p),
                2 => Op::Drop(p),
                _ => Op::Poll,
            }
        };
        match op {
            Op::Vote(i) => {
                m.vote(i);
            }
            Op::Rescind(i) => {
                m.rescind(i);
            }
            Op::Drop(i) => {
                m.drop_party(i);
            }
            Op::Poll => {}
        }
        if op.party().is_some() {
            last = Some(op);
        }
        ops.push(op);
    }
    Seq { n, ops: ops.iter().map(|o| o.code()).collect() }
}

pub fn generate(seed: u64, tier: Tier) -> VoteScenario {
    let seqs = (0..SEQS_PER_RUN)
        .map(|i| {
            let mut rng = Rng::new(mix(seed, "vote-seq", i as u64));
            gen_seq(&mut rng)
        })
        .collect();
    let (one_in, depth) = match tier {
        Tier::Quick => (SWEEP_ONE_IN_QUICK, SWEEP_DEPTH_QUICK),
        Tier::Thorough => (SWEEP_ONE_IN_THOROUGH, SWEEP_DEPTH_THOROUGH),
    };
    let sweep_depth = if mix(seed, "vote-sweep", 0) % one_in == 0 { Some(depth) } else { None };
    VoteScenario { seqs, sweep_depth }
}

/// Exhaustive enumeration: calls `f` for every op sequence of length 1..=depth over `n` parties in which no op
/// addresses a party that was dropped earlier in the sequence.
fn enumerate_seqs(n: usize, depth: usize, f: &mut dyn FnMut(&[Op])) {
    fn rec(n: usize, depth: usize, prefix: &mut Vec<Op>, dropped: u8, f: &mut dyn FnMut(&[Op])) {
        if prefix.len() == depth {
            return;
        }
        let mut alphabet: Vec<Op> = vec![];
        for i in 0..n {
            if dropped & (1 << i) == 0 {
                alphabet.push(Op::Vote(i));
                alphabet.push(Op::Rescind(i));
                alphabet.push(Op::Drop(i));
            }
        }
        alphabet.push(Op::Poll);
        for op in alphabet {
            prefix.push(op);
            f(prefix);
            let d = if let Op::Drop(i) = op { dropped | (1 << i) } else { dropped };
            rec(n, depth, prefix, d, f);
            prefix.pop();
        }
    }
    rec(n, depth, &mut vec![], 0, f);
}

/// Runs the exhaustive sweep; returns the first violating sequence of every distinct signature.
fn run_sweep(depth: usize, out: &mut Outcome, log: &mut EventLog) -> Result<Vec<(Violation, Seq)>, String> {
    let mut found: Vec<(Violation, Seq)> = vec![];
    let mut err = None;
    // The per-op history of the sweep is hashed but never kept (hundreds of thousands of lines).
    let mut hlog = EventLog::new(false);
    for n in [2usize, 3] {
        let mut count = 0u64;
        enumerate_seqs(n, depth, &mut |ops| {
            if err.is_some() {
                return;
            }
            count += 1;
            let seq = Seq { n, ops: ops.iter().map(|o| o.code()).collect() };
            match catch_unwind(AssertUnwindSafe(|| run_seq(0, &seq, &mut hlog, out))) {
                Ok(Ok(Some(v))) => {
                    if !found.iter().any(|(w, _)| w.sig == v.sig) {
                        found.push((v, seq));
                    }
                }
                Ok(Ok(None)) => {}
                Ok(Err(e)) => err = Some(e),
                Err(_) => err = Some(format!("panic in sweep sequence {}", seq.ops.join(" "))),
            }
        });
        out.count("sweep.sequences", count);
        log.rec(1_000_000 + n as u64, "sweep", &format!("parties={n} depth<={depth} sequences={count} history_hash={:016x}", hlog.hash()));
    }
    out.count("sweep.runs", 1);
    if let Some(e) = err {
        return Err(e);
    }
    Ok(found)
}

// ---------------------------------------------------------------------------------------------
// Execution + oracles
// ---------------------------------------------------------------------------------------------

struct CountWaker(AtomicU64);

impl Wake for CountWaker {
    fn wake(self: Arc<Self>) {
        self.0.fetch_add(1, Ordering::SeqCst);
    }
    fn wake_by_ref(self: &Arc<Self>) {
        self.0.fetch_add(1, Ordering::SeqCst);
    }
}

fn rname(r: VoteResult) -> &'static str {
    match r {
        VoteResult::Unanimous => "unanimous",
        VoteResult::UnanimityPending => "pending",
    }
}

#[derive(Default)]
struct SeqStats {
    unanimity: bool,
    near_rescind: bool,
}

struct SeqRun<'a> {
    si: usize,
    n: usize,
    voters: Vec<Option<Voter>>,
    rx: Receiver,
    cw: Arc<CountWaker>,
    model: Model,
    /// Evidence from the real answers only (independent of the model).
    told_unanimous: bool,
    seen_ready: bool,
    /// Parties whose last action was a rescind answered `UnanimityPending`.
    pending_rescinder: Vec<bool>,
    /// Wake count at the time of the receiver's last poll, if that poll was `Pending`.
    rx_waiting: Option<u64>,
    log: &'a mut EventLog,
    out: &'a mut Outcome,
    stats: SeqStats,
}

impl<'a> SeqRun<'a> {
    fn viol(&self, rule: &str, sig: &str, detail: String, seq: &Seq) -> Violation {
        Violation::new(PROP, rule, sig, format!("{detail}; parties={} ops={}", seq.n, seq.ops.join(" ")))
    }

    /// Polls the real receiver once; returns readiness and evaluates the receiver oracles.
    fn poll(&mut self, oi: usize, why: &str, seq: &Seq) -> (bool, Option<Violation>) {
        let waker = Waker::from(self.cw.clone());
        let mut cx = Context::from_waker(&waker);
        let ready = matches!(Pin::new(&mut self.rx).poll(&mut cx), Poll::Ready(()));
        let wakes = self.cw.0.load(Ordering::SeqCst);
        self.log.rec(
            (self.si * 100 + oi) as u64,
            "poll",
            &format!("{why} -> {} wakes={} model={}", if ready { "Ready" } else { "Pending" }, wakes, self.model.show()),
        );
        let mut v = None;
        // Real-answer oracles first (they do not depend on the model).
        if !ready && self.seen_ready {
            v = Some(self.viol("C17.unanimous_sticky", "receiver_unready_after_ready", "the receiver was ready at an earlier poll and is pending now".into(), seq));
        } else if !ready && self.told_unanimous {
            v = Some(self.viol(
                "C17.unanimous_sticky",
                "receiver_unready_after_unanimous_answer",
                "a party was told Unanimous but the receiver is not ready (the runtime will not stop)".into(),
                seq,
            ));
        } else if ready && self.pending_rescinder.iter().any(|b| *b) {
            let who: Vec<usize> = (0..self.n).filter(|i| self.pending_rescinder[*i]).collect();
            v = Some(self.viol(
                "C17.rescind_pending_sound",
                "ready_while_rescinder_pending",
                format!("receiver ready although the last action of party {who:?} was a rescind answered UnanimityPending"),
                seq,
            ));
        } else if ready != self.model.latched {
            v = Some(if ready {
                self.viol("C17.unanimous_iff_all", "ready_without_unanimity", format!("receiver ready but the parties never all voted at once: model {}", self.model.show()), seq)
            } else {
                let tag = self.model.missing_tag();
                self.viol(
                    "C17.unanimous_iff_all",
                    &format!("unanimity_not_ready{tag}"),
                    format!("every party has an outstanding vote or is gone, but the receiver is pending: model {}", self.model.show()),
                    seq,
                )
            });
        }
        if ready {
            self.seen_ready = true;
            self.rx_waiting = None;
        } else {
            self.rx_waiting = Some(wakes);
        }
        (ready, v)
    }

    fn step(&mut self, oi: usize, op: Op, seq: &Seq) -> Option<Violation> {
        let step = (self.si * 100 + oi) as u64;
        let latched_before = self.model.latched;
        let mut real_unanimous_now = false;
        match op {
            Op::Vote(i) | Op::Rescind(i) | Op::Drop(i) if i >= self.n || self.voters[i].is_none() => {
                // Impossible with the real API (a dropped voter cannot be used): skipped.
                self.log.rec(step, "skip", &op.code());
                self.out.count("ops.skipped", 1);
                return None;
            }
            Op::Vote(i) => {
                self.out.count("ops.vote", 1);
                let res = self.voters[i].as_ref().unwrap().vote();
                self.pending_rescinder[i] = false;
                let want = self.model.vote(i);
                self.log.rec(step, "vote", &format!("{i} -> {} model={}", rname(res), self.model.show()));
                if res == VoteResult::Unanimous {
                    self.told_unanimous = true;
                    real_unanimous_now = true;
                }
                match want {
                    Want::Exactly(w) if w != res => {
                        let tag = if w == VoteResult::Unanimous { self.model.missing_tag() } else { "" };
                        return Some(self.viol(
                            "C17.result",
                            &format!("vote:want_{}_got_{}{tag}", rname(w), rname(res)),
                            format!("vote by party {i} (op #{oi}) answered {res:?}, the property demands {w:?}: model after the op {}", self.model.show()),
                            seq,
                        ));
                    }
                    Want::Any if res == VoteResult::UnanimityPending => self.out.count("vote_pending_after_unanimity", 1),
                    _ => {}
                }
            }
            Op::Rescind(i) => {
                self.out.count("ops.rescind", 1);
                if !self.model.latched && self.model.st[i] == P::Voting && self.model.idle_count() == 1 {
                    self.out.count("rescind_at_unanimity_minus_one", 1);
                    self.stats.near_rescind = true;
                }
                let res = self.voters[i].as_ref().unwrap().rescind();
                let want = self.model.rescind(i);
                self.log.rec(step, "rescind", &format!("{i} -> {} model={}", rname(res), self.model.show()));
                if res == VoteResult::UnanimityPending && (self.told_unanimous || self.seen_ready) {
                    return Some(self.viol(
                        "C17.unanimous_sticky",
                        "rescind_pending_after_unanimity",
                        format!("rescind by party {i} (op #{oi}) answered UnanimityPending after unanimity had been observed (Unanimous answer or ready receiver)"),
                        seq,
                    ));
                }
                self.pending_rescinder[i] = res == VoteResult::UnanimityPending;
                if res == VoteResult::Unanimous {
                    self.told_unanimous = true;
                    real_unanimous_now = true;
                    if latched_before {
                        self.out.count("rescind_refused", 1);
                    }
                }
                if let Want::Exactly(w) = want {
                    if w != res {
                        return Some(self.viol(
                            "C17.result",
                            &format!("rescind:want_{}_got_{}", rname(w), rname(res)),
                            format!("rescind by party {i} (op #{oi}) answered {res:?}, the property demands {w:?}: model after the op {}", self.model.show()),
                            seq,
                        ));
                    }
                }
            }
            Op::Drop(i) => {
                self.out.count("ops.drop", 1);
                let v = self.voters[i].take();
                drop(v);
                self.pending_rescinder[i] = false;
                if self.model.drop_party(i) {
                    self.out.count("drops_as_votes", 1);
                }
                self.log.rec(step, "drop", &format!("{i} model={}", self.model.show()));
            }
            Op::Poll => {
                self.out.count("ops.poll", 1);
                let (_, v) = self.poll(oi, "drawn", seq);
                if v.is_some() {
                    return v;
                }
            }
        }
        if self.model.latched && !latched_before {
            // Unanimity has just been reached (by the property's definition).
            self.stats.unanimity = true;
            self.out.count("unanimity_reached", 1);
            let waiting = self.rx_waiting;
            let (ready, v) = self.poll(oi, "confirm", seq);
            if v.is_some() {
                return v;
            }
            if let (true, Some(c)) = (ready, waiting) {
                self.out.count("receiver_wakeups_checked", 1);
                if self.cw.0.load(Ordering::SeqCst) == c {
                    return Some(self.viol(
                        "C17.no_orphan_wait",
                        "",
                        format!("unanimity was reached by op #{oi} while the receiver's last poll was Pending, but its waker was never woken"),
                        seq,
                    ));
                }
            }
        } else if real_unanimous_now && !latched_before {
            // Told Unanimous without unanimity (already reported as C17.result above); unreachable here.
        }
        None
    }
}

/// Runs one sequence against the real code; returns the first violation (the state has diverged from
/// the model after it, so later answers of the same sequence are not judged).
fn run_seq(si: usize, seq: &Seq, log: &mut EventLog, out: &mut Outcome) -> Result<Option<Violation>, String> {
    let (voters, rx): (Vec<Option<Voter>>, Receiver) = match seq.n {
        2 => {
            let (a, b, r) = downlink_timeout_coordinator();
            (vec![Some(a), Some(b)], r)
        }
        3 => {
            let (a, b, c, r) = agent_timeout_coordinator();
            (vec![Some(a), Some(b), Some(c)], r)
        }
        n => return Err(format!("unsupported party count {n}")),
    };
    let mut ops = vec![];
    for s in &seq.ops {
        ops.push(Op::parse(s).ok_or_else(|| format!("bad op {s}"))?);
    }
    out.count(if seq.n == 2 { "seqs.two_party" } else { "seqs.three_party" }, 1);
    log.rec((si * 100) as u64, "seq", &format!("parties={} ops={}", seq.n, seq.ops.join(" ")));
    let mut run = SeqRun {
        si,
        n: seq.n,
        voters,
        rx,
        cw: Arc::new(CountWaker(AtomicU64::new(0))),
        model: Model::new(seq.n),
        told_unanimous: false,
        seen_ready: false,
        pending_rescinder: vec![false; seq.n],
        rx_waiting: None,
        log,
        out,
        stats: SeqStats::default(),
    };
    let mut found = None;
    for (oi, op) in ops.iter().enumerate() {
        run.out.steps += 1;
        if let Some(v) = run.step(oi + 1, *op, seq) {
            found = Some(v);
            break;
        }
    }
    if found.is_none() {
        let (_, v) = run.poll(ops.len() + 1, "final", seq);
        found = v;
    }
    if run.stats.unanimity || run.stats.near_rescind {
        run.out.count("nontrivial_seqs", 1);
        run.out.nontrivial = true;
    }
    if let Some(v) = &found {
        run.log.rec((si * 100 + 99) as u64, "violation", &v.sig);
    }
    Ok(found)
}

// ---------------------------------------------------------------------------------------------
// Shrinking
// ---------------------------------------------------------------------------------------------

pub fn shrink(sc: &VoteScenario) -> Vec<VoteScenario> {
    let mut out = vec![];
    if let Some(depth) = sc.sweep_depth {
        // Replace the sweep by the explicit first violating sequence of every signature it finds (cheap to
        // recompute), then by the random part alone.
        let mut o = Outcome::default();
        let mut l = EventLog::new(false);
        if depth <= 7 {
            if let Ok(found) = run_sweep(depth, &mut o, &mut l) {
                for (_, seq) in found {
                    out.push(VoteScenario { seqs: vec![seq], sweep_depth: None });
                }
            }
        }
        out.push(VoteScenario { seqs: sc.seqs.clone(), sweep_depth: None });
        return out;
    }
    if sc.seqs.len() > 1 {
        // First narrow to one sequence (shortest first).
        let mut idx: Vec<usize> = (0..sc.seqs.len()).collect();
        idx.sort_by_key(|i| (sc.seqs[*i].ops.len(), *i));
        for i in idx {
            out.push(VoteScenario { seqs: vec![sc.seqs[i].clone()], sweep_depth: None });
        }
        return out;
    }
    let Some(seq) = sc.seqs.first() else { return out };
    let len = seq.ops.len();
    // Remove chunks of ops, big chunks first, then single ops.
    let mut chunk = len / 2;
    while chunk >= 1 {
        let mut start = 0;
        while start + chunk <= len {
            let mut ops = seq.ops.clone();
            ops.drain(start..start + chunk);
            out.push(VoteScenario { seqs: vec![Seq { n: seq.n, ops }], sweep_depth: None });
            start += chunk;
        }
        chunk /= 2;
    }
    // Three parties -> two: remove one party with all its ops and renumber the others.
    if seq.n == 3 {
        for gone in (0..3usize).rev() {
            let ops: Vec<String> = seq
                .ops
                .iter()
                .filter_map(|s| match Op::parse(s)? {
                    Op::Poll => Some(Op::Poll),
                    o if o.party() == Some(gone) => None,
                    Op::Vote(p) => Some(Op::Vote(p - (p > gone) as usize)),
                    Op::Rescind(p) => Some(Op::Rescind(p - (p > gone) as usize)),
                    Op::Drop(p) => Some(Op::Drop(p - (p > gone) as usize)),
                })
                .map(|o| o.code())
                .collect();
            out.push(VoteScenario { seqs: vec![Seq { n: 2, ops }], sweep_depth: None });
        }
    }
    // Weaker ops: a drawn poll is removed by the chunk pass; a drop can become nothing only by removal.
    out
}

// ---------------------------------------------------------------------------------------------
// World
// ---------------------------------------------------------------------------------------------

pub struct VoteWorld;

impl World for VoteWorld {
    fn name(&self) -> &'static str {
        "vote"
    }

    fn generate(&self, seed: u64, tier: Tier) -> Json {
        serde_json::to_value(generate(seed, tier)).unwrap()
    }

    fn execute(&self, scenario: &Json, keep_log: bool) -> Outcome {
        let sc: VoteScenario = match serde_json::from_value(scenario.clone()) {
            Ok(s) => s,
            Err(e) => return Outcome { harness_error: Some(format!("bad scenario: {e}")), ..Default::default() },
        };
        let mut out = Outcome::default();
        let mut log = EventLog::new(keep_log);
        let mut violations = vec![];
        for (si, seq) in sc.seqs.iter().enumerate() {
            if seq.ops.len() > MAX_OPS {
                out.harness_error = Some(format!("sequence {si} has more than {MAX_OPS} ops"));
                break;
            }
            let r = catch_unwind(AssertUnwindSafe(|| run_seq(si, seq, &mut log, &mut out)));
            match r {
                Ok(Ok(Some(v))) => violations.push(v),
                Ok(Ok(None)) => {}
                Ok(Err(e)) => {
                    out.harness_error = Some(e);
                    break;
                }
                Err(p) => {
                    // A panic of vote/rescind/drop/poll: not a clause of C17; reported as a harness-side error
                    // with the sequence so that it is looked at.
                    let msg = p.downcast_ref::<&str>().map(|s| s.to_string()).or_else(|| p.downcast_ref::<String>().cloned()).unwrap_or_default();
                    out.harness_error = Some(format!("panic in sequence {si} ({}): {msg}", seq.ops.join(" ")));
                    break;
                }
            }
        }
        out.count("seqs", sc.seqs.len() as u64);
        if let (Some(depth), None) = (sc.sweep_depth, &out.harness_error) {
            if depth > 7 {
                out.harness_error = Some("sweep depth > 7".into());
            } else {
                match run_sweep(depth, &mut out, &mut log) {
                    Ok(found) => violations.extend(found.into_iter().map(|(v, _)| v)),
                    Err(e) => out.harness_error = Some(e),
                }
            }
        }
        out.violations = violations;
        out.log_hash = log.hash();
        out.log_lines = log.lines().to_vec();
        out
    }

    fn shrink(&self, scenario: &Json) -> Vec<Json> {
        let Ok(sc) = serde_json::from_value::<VoteScenario>(scenario.clone()) else { return vec![] };
        shrink(&sc).into_iter().map(|s| serde_json::to_value(s).unwrap()).collect()
    }

    fn rule(&self) -> String {
        format!(
            "one run = {SEQS_PER_RUN} seeded op sequences (<= {MAX_OPS} ops of vote(i)/rescind(i)/drop(i)/poll-receiver, 2 or 3 parties, \
             per-sequence swarm weights, bias towards all-but-one-voted states and repeated vote/rescind by one party), each on a fresh real \
             coordinator, every answer compared with the reference model of the property; non-trivial = in some sequence unanimity was reached \
             or a rescind happened while all but one party had voted (counter nontrivial_seqs counts sequences); distinct = distinct hash of the \
             full history (ops, answers, poll results, wake counts). In addition about one run in {SWEEP_ONE_IN_QUICK} (quick; one in \
             {SWEEP_ONE_IN_THOROUGH} thorough) executes the EXHAUSTIVE sweep of all op sequences of length <= {SWEEP_DEPTH_QUICK} (thorough: \
             {SWEEP_DEPTH_THOROUGH}) for 2 and 3 parties (counters sweep.runs, sweep.sequences; one completed sweep covers the depth bound)"
        )
    }

    fn components(&self) -> Json {
        json!({
            "real": ["swimos_runtime/src/timeout_coord/mod.rs compiled from /repo by #[path] (agent_timeout_coordinator, downlink_timeout_coordinator, Voter::vote/rescind, Drop for Voter, Receiver::poll)", "futures::task::AtomicWaker"],
            "stub": ["the waiting runtime task (a counting waker polled at drawn points)", "threads: none, ops are applied sequentially (interleavings inside one op are the subject of the shuttle harness)"]
        })
    }
}
