//! `HostAgent`: a real `swimos_agent::AgentModel` (derive macros) with one command lane. Its handlers
//! open ONE agent-hosted downlink (value `i32` or map `i32 -> i32`) to node "/remote", lane "lane" with
//! the configuration of the scenario, through the public builders of `HandlerContext` (stateless or
//! stateful flavour), and issue local writes through the downlink handle. Every lifecycle callback of
//! the downlink is recorded as a `Cb` (the same enum as the client world) with the global step.
//!
//! What is recorded is what the API hands to user code: the arguments of the callback at the moment the
//! product *creates* the handler (this is when the user closure runs); the entry is pushed to the trace
//! when the handler *executes* (so the order in the trace is the order of execution).

use std::collections::{BTreeMap, HashMap};
use std::sync::{Arc, Mutex};

use swimos::agent::agent_lifecycle::HandlerContext;
use swimos::agent::agent_model::downlink::{MapDownlinkHandle, ValueDownlinkHandle};
use swimos::agent::config::{MapDownlinkConfig, SimpleDownlinkConfig};
use swimos::agent::event_handler::{EventHandler, HandlerActionExt, LocalBoxEventHandler, UnitHandler};
use swimos::agent::lanes::CommandLane;
use swimos::agent::{lifecycle, projections, AgentLaneModel};
use swimos_form::Form;

use crate::core::exec::now_step;
use crate::worlds::dltask::Cb;

pub const REMOTE_NODE: &str = "/remote";
pub const REMOTE_LANE: &str = "lane";

#[projections]
#[derive(AgentLaneModel)]
pub struct HostAgent {
    #[item(transient)]
    ctl: CommandLane<HostCtl>,
}

/// Trigger commands (sent as Recon to the `ctl` lane by the harness peer).
#[derive(Form, Clone, Debug, PartialEq, Eq)]
pub enum HostCtl {
    /// Open the downlink (when it is not opened in `on_start`).
    #[form(tag = "open")]
    Open,
    /// `ValueDownlinkHandle::set`.
    #[form(tag = "set")]
    Set { v: i32 },
    /// `MapDownlinkHandle::update`.
    #[form(tag = "upd")]
    Upd { k: i32, v: i32 },
    /// `MapDownlinkHandle::remove`.
    #[form(tag = "rem")]
    Rem { k: i32 },
    /// `MapDownlinkHandle::clear`.
    #[form(tag = "clr")]
    Clr,
    /// `handle.stop()`.
    #[form(tag = "stop")]
    Stop,
    /// Proof of life: the agent still handles commands.
    #[form(tag = "ping")]
    Ping { n: i32 },
}

pub type Trace = Arc<Mutex<Vec<(u64, Cb)>>>;
pub type Events = Arc<Mutex<Vec<(u64, String)>>>;

#[derive(Clone, Copy, Debug)]
pub struct HostCfg {
    pub map: bool,
    pub events_when_not_synced: bool,
    pub terminate_on_unlinked: bool,
    /// Stateful builder (`with_state` / `with_shared_state`, handlers are fn items) or stateless (closures).
    pub stateful: bool,
    pub open_on_start: bool,
    /// Map downlink backed by a `BTreeMap` (`map_downlink_builder_for`) instead of the default `HashMap`.
    pub btree: bool,
}

#[derive(Clone)]
pub struct HostLifecycle {
    pub cfg: HostCfg,
    pub trace: Trace,
    /// Agent-side events that are not downlink callbacks: started, opened, ctl handled (with the result
    /// of the handle call), on_failed.
    pub events: Events,
    pub vh: Arc<Mutex<Option<ValueDownlinkHandle<i32>>>>,
    pub mh: Arc<Mutex<Option<MapDownlinkHandle<i32, i32>>>>,
}

type Ctx = HandlerContext<HostAgent>;
type Boxed = LocalBoxEventHandler<'static, HostAgent>;

pub trait Snap {
    fn snap(&self) -> BTreeMap<i32, i32>;
}

impl Snap for HashMap<i32, i32> {
    fn snap(&self) -> BTreeMap<i32, i32> {
        self.iter().map(|(k, v)| (*k, *v)).collect()
    }
}

impl Snap for BTreeMap<i32, i32> {
    fn snap(&self) -> BTreeMap<i32, i32> {
        self.clone()
    }
}

/// Shared state of the stateful lifecycles.
pub struct Shared {
    trace: Trace,
    events: Events,
}

fn push(t: &Trace, cb: Cb) {
    t.lock().unwrap().push((now_step(), cb));
}

fn st_linked(s: &Shared, ctx: Ctx) -> impl EventHandler<HostAgent> + '_ {
    ctx.effect(move || push(&s.trace, Cb::Linked))
}

fn st_unlinked(s: &Shared, ctx: Ctx) -> impl EventHandler<HostAgent> + '_ {
    ctx.effect(move || push(&s.trace, Cb::Unlinked))
}

fn st_failed(s: &Shared, ctx: Ctx) -> impl EventHandler<HostAgent> + '_ {
    ctx.effect(move || s.events.lock().unwrap().push((now_step(), "on_failed".to_string())))
}

fn st_v_synced<'a>(s: &'a Shared, ctx: Ctx, v: &i32) -> impl EventHandler<HostAgent> + 'a {
    let cb = Cb::Synced(Some(*v), BTreeMap::new());
    ctx.effect(move || push(&s.trace, cb))
}

fn st_v_event<'a>(s: &'a Shared, ctx: Ctx, v: &i32) -> impl EventHandler<HostAgent> + 'a {
    let cb = Cb::Event(*v);
    ctx.effect(move || push(&s.trace, cb))
}

fn st_v_set<'a>(s: &'a Shared, ctx: Ctx, new: &i32, old: Option<i32>) -> impl EventHandler<HostAgent> + 'a {
    let cb = Cb::Set(old, *new);
    ctx.effect(move || push(&s.trace, cb))
}

fn st_m_synced<'a, M: Snap>(s: &'a Shared, ctx: Ctx, m: &M) -> impl EventHandler<HostAgent> + 'a {
    let cb = Cb::Synced(None, m.snap());
    ctx.effect(move || push(&s.trace, cb))
}

fn st_m_update<'a, M: Snap>(s: &'a Shared, ctx: Ctx, m: &M, k: i32, old: Option<i32>, new: &i32) -> impl EventHandler<HostAgent> + 'a {
    let cb = Cb::Update { k, old, new: *new, map: m.snap() };
    ctx.effect(move || push(&s.trace, cb))
}

fn st_m_remove<'a, M: Snap>(s: &'a Shared, ctx: Ctx, m: &M, k: i32, old: i32) -> impl EventHandler<HostAgent> + 'a {
    let cb = Cb::Remove { k, old, map: m.snap() };
    ctx.effect(move || push(&s.trace, cb))
}

fn st_m_clear<'a, M: Snap>(s: &'a Shared, ctx: Ctx, m: M) -> impl EventHandler<HostAgent> + 'a {
    let cb = Cb::Clear(m.snap());
    ctx.effect(move || push(&s.trace, cb))
}

/// Completes a map downlink builder (any backing map type) with recording callbacks.
macro_rules! open_map {
    ($me:expr, $context:expr, $builder:expr, $m:ty) => {{
        let me = $me.clone();
        let context: Ctx = $context;
        let store = move |h: MapDownlinkHandle<i32, i32>| {
            context.effect(move || {
                *me.mh.lock().unwrap() = Some(h);
                me.ev("opened map".to_string());
            })
        };
        if $me.cfg.stateful {
            $builder
                .with_state(Shared { trace: $me.trace.clone(), events: $me.events.clone() })
                .on_linked(st_linked)
                .on_synced(st_m_synced::<$m>)
                .on_update::<_, i32>(st_m_update::<$m>)
                .on_remove(st_m_remove::<$m>)
                .on_clear(st_m_clear::<$m>)
                .on_unlinked(st_unlinked)
                .on_failed(st_failed)
                .done()
                .and_then(store)
                .boxed_local()
        } else {
            let (t1, t2, t3, t4, t5, t6) = ($me.trace.clone(), $me.trace.clone(), $me.trace.clone(), $me.trace.clone(), $me.trace.clone(), $me.trace.clone());
            let ev = $me.events.clone();
            $builder
                .on_linked(move |ctx: Ctx| {
                    let t = t1.clone();
                    ctx.effect(move || push(&t, Cb::Linked))
                })
                .on_synced(move |ctx: Ctx, m: &$m| {
                    let t = t2.clone();
                    let cb = Cb::Synced(None, m.snap());
                    ctx.effect(move || push(&t, cb))
                })
                .on_update::<_, i32>(move |ctx: Ctx, k: i32, m: &$m, old: Option<i32>, new: &i32| {
                    let t = t3.clone();
                    let cb = Cb::Update { k, old, new: *new, map: m.snap() };
                    ctx.effect(move || push(&t, cb))
                })
                .on_remove(move |ctx: Ctx, k: i32, m: &$m, old: i32| {
                    let t = t4.clone();
                    let cb = Cb::Remove { k, old, map: m.snap() };
                    ctx.effect(move || push(&t, cb))
                })
                .on_clear(move |ctx: Ctx, m: $m| {
                    let t = t5.clone();
                    let cb = Cb::Clear(m.snap());
                    ctx.effect(move || push(&t, cb))
                })
                .on_unlinked(move |ctx: Ctx| {
                    let t = t6.clone();
                    ctx.effect(move || push(&t, Cb::Unlinked))
                })
                .on_failed(move |ctx: Ctx| {
                    let ev = ev.clone();
                    ctx.effect(move || ev.lock().unwrap().push((now_step(), "on_failed".to_string())))
                })
                .done()
                .and_then(store)
                .boxed_local()
        }
    }};
}

impl HostLifecycle {
    pub fn new(cfg: HostCfg) -> HostLifecycle {
        HostLifecycle {
            cfg,
            trace: Arc::new(Mutex::new(vec![])),
            events: Arc::new(Mutex::new(vec![])),
            vh: Arc::new(Mutex::new(None)),
            mh: Arc::new(Mutex::new(None)),
        }
    }

    fn ev(&self, text: String) {
        self.events.lock().unwrap().push((now_step(), text));
    }

    /// The handler that opens the downlink and stores its handle.
    fn open(&self, context: Ctx) -> Boxed {
        let cfg = self.cfg;
        if cfg.map {
            let config = MapDownlinkConfig {
                events_when_not_synced: cfg.events_when_not_synced,
                terminate_on_unlinked: cfg.terminate_on_unlinked,
            };
            if cfg.btree {
                open_map!(
                    self,
                    context,
                    context.map_downlink_builder_for::<i32, i32, BTreeMap<i32, i32>>(None, REMOTE_NODE, REMOTE_LANE, config),
                    BTreeMap<i32, i32>
                )
            } else {
                open_map!(
                    self,
                    context,
                    context.map_downlink_builder::<i32, i32>(None, REMOTE_NODE, REMOTE_LANE, config),
                    HashMap<i32, i32>
                )
            }
        } else {
            let config = SimpleDownlinkConfig {
                events_when_not_synced: cfg.events_when_not_synced,
                terminate_on_unlinked: cfg.terminate_on_unlinked,
            };
            let me = self.clone();
            let store = move |h: ValueDownlinkHandle<i32>| {
                context.effect(move || {
                    *me.vh.lock().unwrap() = Some(h);
                    me.ev("opened value".to_string());
                })
            };
            let builder = context.value_downlink_builder::<i32>(None, REMOTE_NODE, REMOTE_LANE, config);
            if cfg.stateful {
                builder
                    .with_shared_state(Shared { trace: self.trace.clone(), events: self.events.clone() })
                    .on_linked(st_linked)
                    .on_synced::<_, i32>(st_v_synced)
                    .on_event::<_, i32>(st_v_event)
                    .on_set::<_, i32>(st_v_set)
                    .on_unlinked(st_unlinked)
                    .on_failed(st_failed)
                    .done()
                    .and_then(store)
                    .boxed_local()
            } else {
                let (t1, t2, t3, t4, t5) = (self.trace.clone(), self.trace.clone(), self.trace.clone(), self.trace.clone(), self.trace.clone());
                let ev = self.events.clone();
                builder
                    .on_linked(move |ctx: Ctx| {
                        let t = t1.clone();
                        ctx.effect(move || push(&t, Cb::Linked))
                    })
                    .on_synced::<_, i32>(move |ctx: Ctx, v: &i32| {
                        let t = t2.clone();
                        let cb = Cb::Synced(Some(*v), BTreeMap::new());
                        ctx.effect(move || push(&t, cb))
                    })
                    .on_event::<_, i32>(move |ctx: Ctx, v: &i32| {
                        let t = t3.clone();
                        let cb = Cb::Event(*v);
                        ctx.effect(move || push(&t, cb))
                    })
                    .on_set::<_, i32>(move |ctx: Ctx, old: Option<i32>, new: &i32| {
                        let t = t4.clone();
                        let cb = Cb::Set(old, *new);
                        ctx.effect(move || push(&t, cb))
                    })
                    .on_unlinked(move |ctx: Ctx| {
                        let t = t5.clone();
                        ctx.effect(move || push(&t, Cb::Unlinked))
                    })
                    .on_failed(move |ctx: Ctx| {
                        let ev = ev.clone();
                        ctx.effect(move || ev.lock().unwrap().push((now_step(), "on_failed".to_string())))
                    })
                    .done()
                    .and_then(store)
                    .boxed_local()
            }
        }
    }

    /// Executes a local write / stop through the stored handle.
    fn apply(&self, ctl: HostCtl) {
        let text = match &ctl {
            HostCtl::Open => "open".to_string(),
            HostCtl::Set { v } => {
                let mut g = self.vh.lock().unwrap();
                match g.as_mut() {
                    Some(h) => format!("set {v} -> {}", if h.set(*v).is_ok() { "ok" } else { "err" }),
                    None => format!("set {v} -> no-handle"),
                }
            }
            HostCtl::Upd { k, v } => {
                let g = self.mh.lock().unwrap();
                match g.as_ref() {
                    Some(h) => format!("upd {k} {v} -> {}", if h.update(*k, *v).is_ok() { "ok" } else { "err" }),
                    None => format!("upd {k} {v} -> no-handle"),
                }
            }
            HostCtl::Rem { k } => {
                let g = self.mh.lock().unwrap();
                match g.as_ref() {
                    Some(h) => format!("rem {k} -> {}", if h.remove(*k).is_ok() { "ok" } else { "err" }),
                    None => format!("rem {k} -> no-handle"),
                }
            }
            HostCtl::Clr => {
                let g = self.mh.lock().unwrap();
                match g.as_ref() {
                    Some(h) => format!("clr -> {}", if h.clear().is_ok() { "ok" } else { "err" }),
                    None => "clr -> no-handle".to_string(),
                }
            }
            HostCtl::Stop => {
                let mut stopped = "no-handle";
                if let Some(h) = self.vh.lock().unwrap().as_mut() {
                    h.stop();
                    stopped = "ok";
                }
                if let Some(h) = self.mh.lock().unwrap().as_mut() {
                    h.stop();
                    stopped = "ok";
                }
                format!("stop -> {stopped}")
            }
            HostCtl::Ping { n } => format!("ping {n}"),
        };
        self.ev(text);
    }
}

#[lifecycle(HostAgent)]
impl HostLifecycle {
    #[on_start]
    pub fn on_start(&self, context: Ctx) -> impl EventHandler<HostAgent> {
        let me = self.clone();
        let started = context.effect(move || me.ev("started".to_string()));
        let open: Boxed = if self.cfg.open_on_start { self.open(context) } else { UnitHandler::default().boxed_local() };
        started.followed_by(open)
    }

    #[on_stop]
    pub fn on_stop(&self, context: Ctx) -> impl EventHandler<HostAgent> {
        let me = self.clone();
        context.effect(move || me.ev("stopped".to_string()))
    }

    #[on_command(ctl)]
    pub fn on_ctl(&self, context: Ctx, ctl: &HostCtl) -> impl EventHandler<HostAgent> {
        let me = self.clone();
        let ctl = ctl.clone();
        let h: Boxed = match ctl {
            HostCtl::Open => {
                let me2 = self.clone();
                context.effect(move || me2.ev("open".to_string())).followed_by(self.open(context)).boxed_local()
            }
            other => context.effect(move || me.apply(other)).boxed_local(),
        };
        h
    }
}
