//! Executes a `HostedScenario`: the real `AgentModel` of `HostAgent` + the real agent runtime
//! (`AgentRouteTask::run_agent`) as one node of the simulated executor. The harness plays
//!  * a remote peer that attaches to the agent and sends the trigger commands (open, local writes, pings),
//!  * the *downlink runtime*: it answers the agent's `LinkRequest::Downlink` with byte channels, writes the
//!    scripted `DownlinkNotification` frames into the channel the hosted downlink reads and decodes what the
//!    hosted downlink writes back.

use std::cell::RefCell;
use std::collections::HashMap;
use std::future::Future;
use std::num::NonZeroUsize;
use std::pin::Pin;
use std::rc::Rc;
use std::task::{Context, Poll};
use std::time::Duration;

use bytes::BytesMut;
use futures::future::{select, Either};
use futures::StreamExt;
use swimos_agent::agent_model::AgentModel;
use swimos_agent_protocol::encoding::downlink::DownlinkNotificationEncoder;
use swimos_agent_protocol::encoding::map::{MapMessageEncoder, MapOperationDecoder};
use swimos_agent_protocol::{DownlinkNotification, MapMessage, MapOperation};
use swimos_api::address::RelativeAddress;
use swimos_api::agent::{AgentConfig, DownlinkKind, LaneConfig};
use swimos_api::error::{DownlinkFailureReason, DownlinkRuntimeError};
use swimos_messages::protocol::{RawRequestMessageEncoder, RequestMessage};
use swimos_runtime::agent::{
    AgentAttachmentRequest, AgentExecError, AgentRouteChannels, AgentRouteDescriptor, AgentRouteTask,
    AgentRuntimeConfig, CombinedAgentConfig, LinkRequest,
};
use swimos_utilities::byte_channel::{byte_channel, ByteReader, ByteWriter};
use swimos_utilities::future::RetryStrategy;
use swimos_utilities::trigger::{self, promise};
use tokio::io::{AsyncReadExt, AsyncWriteExt};
use tokio::sync::mpsc;
use tokio_util::codec::{Encoder, FramedRead};
use uuid::Uuid;

use super::agent::{HostAgent, HostCfg, HostCtl, HostLifecycle, REMOTE_LANE, REMOTE_NODE};
use super::{EndMode, HostedScenario, LocalOp};
use crate::core::exec::{now_step, Exec, NodeFut, NodePanic, Policy, Scheduler};
use crate::core::log::EventLog;
use crate::core::rng::Rng;
use crate::worlds::dltask::{Cb, N};

pub const NODE_URI: &str = "/host";

/// What the hosted downlink wrote to its output channel.
#[derive(Debug, Clone, PartialEq, Eq)]
pub enum OutOp {
    Set(i32),
    Upd(i32, i32),
    Rem(i32),
    Clr,
    /// Bytes that do not decode.
    Garbage(String),
}

pub struct HostedRecord {
    pub sc: HostedScenario,
    /// Every downlink lifecycle callback the agent made, in execution order.
    pub trace: Vec<(u64, Cb)>,
    /// Agent-side events: started, opened, handled trigger commands, on_failed, stopped.
    pub events: Vec<(u64, String)>,
    /// (step, connection index, operation) written by the hosted downlink.
    pub outs: Vec<(u64, u32, OutOp)>,
    /// Harness-side history: link requests, connections, eof, phases.
    pub marks: Vec<(u64, String)>,
    /// Notifications completely written into the channel.
    pub fed: usize,
    /// Notifications of the session after the write failure completely written into the channel.
    pub fed2: usize,
    pub fed2_at_main_idle: usize,
    /// Step at which the link peer dropped the reader of the output channel (the fault fired).
    pub out_fail_step: Option<u64>,
    /// (connection index, step) of the connection established for the request that followed the fault.
    pub recon_after_fail: Option<(u32, u64)>,
    pub link_requests: u32,
    pub connections: u32,
    pub refused_requests: u32,
    pub bad_requests: Vec<String>,
    /// The main phase ended idle (not by the step limit).
    pub main_idle_step: Option<u64>,
    /// `fed` at the moment the main phase went idle, and whether a feeder was still alive then.
    pub fed_at_main_idle: usize,
    pub feeder_write_failed: bool,
    /// Step at which the harness ended the link (EOF / handle.stop()); callbacks after it are not
    /// part of the comparison with the reference or the client.
    pub end_step: Option<u64>,
    pub stop_step: Option<u64>,
    pub agent_done_at_main_idle: bool,
    pub agent_end: Option<(u64, String)>,
    pub agent_stop_timeout: bool,
    pub steps: u64,
    pub decisions: u64,
    pub sim_ms: u64,
    pub panics: Vec<NodePanic>,
    pub step_limit: bool,
}

struct Yield(bool);
impl Future for Yield {
    type Output = ();
    fn poll(mut self: Pin<&mut Self>, cx: &mut Context<'_>) -> Poll<()> {
        if self.0 {
            Poll::Ready(())
        } else {
            self.0 = true;
            cx.waker().wake_by_ref();
            Poll::Pending
        }
    }
}

async fn yield_n(n: u32) {
    for _ in 0..n {
        Yield(false).await;
    }
}

/// State shared between the harness nodes and the main loop (single threaded).
#[derive(Default)]
struct Ctrl {
    /// 0 = main, 1 = first ping, 2 = end of the link, 3 = second ping, 4 = agent stop.
    phase: u32,
    /// Next script index to feed.
    pos: usize,
    fed: usize,
    /// The current feeder closes its writer when this is set.
    eof: bool,
    /// A feeder closed the connection after `Unlinked` and expects the agent to reconnect.
    expect_reconnect: bool,
    feeders_alive: u32,
    write_failed: bool,
    link_requests: u32,
    connections: u32,
    refused: u32,
    bad_requests: Vec<String>,
    marks: Vec<(u64, String)>,
    outs: Vec<(u64, u32, OutOp)>,
    /// Output-channel fault: armed while the sender is here; triggering it makes the output decoders drop
    /// their readers and releases the peer's write. The receiver kept here is only cloned, never polled.
    out_fail_tx: Option<trigger::Sender>,
    out_fail_rx: Option<trigger::Receiver>,
    out_fail_step: Option<u64>,
    /// Output decoders that still hold a reader the fault has to take away, and the signal that the last of
    /// them is gone after the fault fired: only then may the peer issue its write (a write issued earlier
    /// could still find the channel intact and nothing would fail).
    armed_drains: u32,
    out_dropped_tx: Option<trigger::Sender>,
    out_dropped_rx: Option<trigger::Receiver>,
    recon_after_fail: Option<(u32, u64)>,
    /// Position in / notifications fed of the session served after the write failure.
    pos2: usize,
    fed2: usize,
}

/// The link peer drops the read half of the downlink's output channel (once). From now on the base script is
/// over: the next link request of the agent is accepted and gets the session after the write failure.
fn fire_out_fail(ctrl: &SharedCtrl, step: u64, by: &str) {
    let tx = {
        let mut c = ctrl.borrow_mut();
        let Some(tx) = c.out_fail_tx.take() else { return };
        c.out_fail_step = Some(step);
        c.expect_reconnect = true;
        let fed = c.fed;
        c.marks.push((step, format!("fault: the link peer drops the reader of the output channel after {fed} notifications ({by})")));
        tx
    };
    tx.trigger();
    readers_dropped(ctrl);
}

/// Releases the peer's write once the fault has fired and no output decoder holds a reader any more.
fn readers_dropped(ctrl: &SharedCtrl) {
    let tx = {
        let mut c = ctrl.borrow_mut();
        if c.out_fail_step.is_some() && c.armed_drains == 0 {
            c.out_dropped_tx.take()
        } else {
            None
        }
    };
    if let Some(tx) = tx {
        tx.trigger();
    }
}

/// An output decoder that could be hit by the fault has dropped its reader (because of it or not).
fn drain_gone(ctrl: &SharedCtrl, armed: bool) {
    if armed {
        ctrl.borrow_mut().armed_drains -= 1;
        readers_dropped(ctrl);
    }
}

type SharedCtrl = Rc<RefCell<Ctrl>>;
type SpawnQueue = Rc<RefCell<Vec<(String, usize, NodeFut)>>>;

/// Parks until the phase reaches `target` (the main loop wakes every node when it changes a flag).
struct WaitPhase {
    ctrl: SharedCtrl,
    target: u32,
}

impl Future for WaitPhase {
    type Output = ();
    fn poll(self: Pin<&mut Self>, _cx: &mut Context<'_>) -> Poll<()> {
        if self.ctrl.borrow().phase >= self.target {
            Poll::Ready(())
        } else {
            Poll::Pending
        }
    }
}

struct WaitEof {
    ctrl: SharedCtrl,
}

impl Future for WaitEof {
    type Output = ();
    fn poll(self: Pin<&mut Self>, _cx: &mut Context<'_>) -> Poll<()> {
        if self.ctrl.borrow().eof {
            Poll::Ready(())
        } else {
            Poll::Pending
        }
    }
}

fn encode_note(n: &N) -> BytesMut {
    let mut buf = BytesMut::new();
    let mut enc = DownlinkNotificationEncoder;
    let mut body = BytesMut::new();
    let note: DownlinkNotification<&[u8]> = match n {
        N::Linked => DownlinkNotification::Linked,
        N::Synced => DownlinkNotification::Synced,
        N::Unlinked => DownlinkNotification::Unlinked,
        N::Val(v) => {
            body.extend_from_slice(v.to_string().as_bytes());
            DownlinkNotification::Event { body: body.as_ref() }
        }
        other => {
            let msg: MapMessage<i32, i32> = match other {
                N::Update(k, v) => MapMessage::Update { key: *k, value: *v },
                N::Remove(k) => MapMessage::Remove { key: *k },
                N::Clear => MapMessage::Clear,
                N::Take(n) => MapMessage::Take(*n),
                N::Drop(n) => MapMessage::Drop(*n),
                _ => unreachable!(),
            };
            let mut menc = MapMessageEncoder::default();
            menc.encode(msg, &mut body).expect("encode");
            DownlinkNotification::Event { body: body.as_ref() }
        }
    };
    enc.encode(note, &mut buf).expect("encode");
    buf
}

/// The scripted link: writes the notifications of the script (from the shared position) into the channel
/// the hosted downlink reads. Keeps the channel open after the script until the harness ends the link.
/// `second`: the connection was asked for after the write failure and gets the session of the fault.
async fn feeder(mut tx: ByteWriter, ctrl: SharedCtrl, sc: HostedScenario, conn: u32, second: bool) {
    let fault = sc.out_fail_at();
    let script: &[N] = match fault {
        Some((of, _)) if second => &of.second,
        _ => &sc.base.script,
    };
    loop {
        let i = if second { ctrl.borrow().pos2 } else { ctrl.borrow().pos };
        if let (Some((of, at)), false) = (fault, second) {
            if i >= at {
                // The fault point: nothing more is sent on this link (its input stays open, only the output
                // fails). A racing fault fires now, a settled one when the system is idle (main loop).
                if !of.settle {
                    fire_out_fail(&ctrl, now_step(), "racing");
                }
                break;
            }
        }
        if i >= script.len() {
            break;
        }
        if ctrl.borrow().eof {
            break;
        }
        let buf = encode_note(&script[i]);
        if tx.write_all(&buf).await.is_err() {
            // The hosted downlink dropped its reader (it terminated).
            let mut c = ctrl.borrow_mut();
            c.write_failed = true;
            c.feeders_alive -= 1;
            let fed = if second { c.fed2 } else { c.fed };
            c.marks.push((now_step(), format!("conn{conn} feeder: reader gone after {fed} notifications")));
            return;
        }
        {
            let mut c = ctrl.borrow_mut();
            if second {
                c.pos2 = i + 1;
                c.fed2 += 1;
            } else {
                c.pos = i + 1;
                c.fed += 1;
            }
        }
        yield_n(sc.base.gap).await;
        if !second && sc.reconnect && !sc.base.terminate_on_unlinked && script[i] == N::Unlinked && i + 1 < script.len() {
            // The link is over; the next session arrives on a fresh connection (the agent reconnects a
            // downlink that does not terminate on unlinked).
            let mut c = ctrl.borrow_mut();
            c.expect_reconnect = true;
            c.feeders_alive -= 1;
            c.marks.push((now_step(), format!("conn{conn} feeder: eof after unlinked (session split)")));
            drop(tx);
            return;
        }
    }
    WaitEof { ctrl: ctrl.clone() }.await;
    let mut c = ctrl.borrow_mut();
    c.feeders_alive -= 1;
    c.marks.push((now_step(), format!("conn{conn} feeder: eof")));
    drop(tx);
}

/// `fut`, unless the output-channel fault fires first (`None`: the caller drops its reader). A trigger that can
/// no longer fire (no fault in this run, or the sender is gone) is forgotten.
async fn or_killed<F: Future + Unpin>(kill: &mut Option<trigger::Receiver>, fut: F) -> Option<F::Output> {
    match kill.as_mut() {
        None => Some(fut.await),
        Some(k) => match select(k, fut).await {
            Either::Left((Ok(()), _)) => None,
            Either::Left((Err(_), fut)) => {
                *kill = None;
                Some(fut.await)
            }
            Either::Right((out, _)) => Some(out),
        },
    }
}

/// Decodes what the hosted value downlink writes: `DownlinkOperation` frames (u64 length + Recon body).
async fn drain_value(mut rx: ByteReader, ctrl: SharedCtrl, conn: u32, mut kill: Option<trigger::Receiver>) {
    let armed = kill.is_some();
    let mut buf = BytesMut::new();
    let mut chunk = [0u8; 256];
    loop {
        let read = match or_killed(&mut kill, Box::pin(rx.read(&mut chunk))).await {
            Some(r) => r,
            None => {
                // The fault: the read half goes away with bytes possibly still in the channel.
                drop(rx);
                ctrl.borrow_mut().marks.push((now_step(), format!("conn{conn} output reader dropped (fault) leftover={}", buf.len())));
                drain_gone(&ctrl, armed);
                return;
            }
        };
        match read {
            Ok(0) | Err(_) => break,
            Ok(n) => {
                buf.extend_from_slice(&chunk[..n]);
                while buf.len() >= 8 {
                    let len = u64::from_be_bytes(buf[..8].try_into().unwrap()) as usize;
                    if buf.len() < 8 + len {
                        break;
                    }
                    let _ = buf.split_to(8);
                    let body = buf.split_to(len);
                    let op = match std::str::from_utf8(&body).ok().and_then(|t| t.trim().parse::<i32>().ok()) {
                        Some(v) => OutOp::Set(v),
                        None => OutOp::Garbage(String::from_utf8_lossy(&body).to_string()),
                    };
                    ctrl.borrow_mut().outs.push((now_step(), conn, op));
                }
            }
        }
    }
    drop(rx);
    ctrl.borrow_mut().marks.push((now_step(), format!("conn{conn} output closed leftover={}", buf.len())));
    drain_gone(&ctrl, armed);
}

/// Decodes what the hosted map downlink writes: `MapOperation` frames.
async fn drain_map(rx: ByteReader, ctrl: SharedCtrl, conn: u32, mut kill: Option<trigger::Receiver>) {
    let armed = kill.is_some();
    let mut framed = FramedRead::new(rx, MapOperationDecoder::<i32, i32>::default());
    loop {
        let item = match or_killed(&mut kill, framed.next()).await {
            Some(i) => i,
            None => {
                drop(framed);
                ctrl.borrow_mut().marks.push((now_step(), format!("conn{conn} output reader dropped (fault)")));
                drain_gone(&ctrl, armed);
                return;
            }
        };
        match item {
            None => break,
            Some(Ok(op)) => {
                let op = match op {
                    MapOperation::Update { key, value } => OutOp::Upd(key, value),
                    MapOperation::Remove { key } => OutOp::Rem(key),
                    MapOperation::Clear => OutOp::Clr,
                };
                ctrl.borrow_mut().outs.push((now_step(), conn, op));
            }
            Some(Err(e)) => {
                ctrl.borrow_mut().outs.push((now_step(), conn, OutOp::Garbage(format!("{e}"))));
                break;
            }
        }
    }
    drop(framed);
    ctrl.borrow_mut().marks.push((now_step(), format!("conn{conn} output closed")));
    drain_gone(&ctrl, armed);
}

/// The downlink runtime as far as the agent can see it.
async fn link_server(mut rx: mpsc::Receiver<LinkRequest>, ctrl: SharedCtrl, spawn: SpawnQueue, sc: HostedScenario) {
    while let Some(req) = rx.recv().await {
        match req {
            LinkRequest::Downlink(d) => {
                let want = if sc.base.map { DownlinkKind::Map } else { DownlinkKind::Value };
                {
                    let mut c = ctrl.borrow_mut();
                    c.link_requests += 1;
                    c.marks.push((now_step(), format!("link request kind={:?} node={} lane={} remote={:?}", d.kind, d.address.node, d.address.lane, d.remote)));
                    if d.kind != want || d.address.node.as_str() != REMOTE_NODE || d.address.lane.as_str() != REMOTE_LANE || d.remote.is_some() {
                        c.bad_requests.push(format!("kind={:?} node={} lane={}", d.kind, d.address.node, d.address.lane));
                    }
                }
                yield_n(sc.link_delay).await;
                let accept = {
                    let mut c = ctrl.borrow_mut();
                    let first = c.connections == 0;
                    let ok = (first || c.expect_reconnect) && !c.eof;
                    if ok {
                        c.expect_reconnect = false;
                    }
                    ok
                };
                if accept {
                    let (conn, second, kill) = {
                        let mut c = ctrl.borrow_mut();
                        c.connections += 1;
                        c.feeders_alive += 1;
                        let conn = c.connections - 1;
                        // After the fault has fired: this is the reconnection that follows the write failure.
                        let second = c.out_fail_step.is_some();
                        if second {
                            c.recon_after_fail = Some((conn, now_step()));
                        }
                        // The output of a connection made while the fault is armed can be made to fail.
                        let kill = if c.out_fail_tx.is_some() { c.out_fail_rx.clone() } else { None };
                        c.armed_drains += kill.is_some() as u32;
                        (conn, second, kill)
                    };
                    let (in_tx, in_rx) = byte_channel(NonZeroUsize::new(sc.base.in_cap.max(1) as usize).unwrap());
                    let (out_tx, out_rx) = byte_channel(NonZeroUsize::new(sc.base.out_cap.max(1) as usize).unwrap());
                    spawn.borrow_mut().push((format!("feeder{conn}"), 64, Box::pin(feeder(in_tx, ctrl.clone(), sc.clone(), conn, second))));
                    if sc.base.map {
                        spawn.borrow_mut().push((format!("drain{conn}"), 64, Box::pin(drain_map(out_rx, ctrl.clone(), conn, kill))));
                    } else {
                        spawn.borrow_mut().push((format!("drain{conn}"), 64, Box::pin(drain_value(out_rx, ctrl.clone(), conn, kill))));
                    }
                    ctrl.borrow_mut().marks.push((now_step(), format!("conn{conn} established")));
                    let _ = d.promise.send(Ok((out_tx, in_rx)));
                } else {
                    let mut c = ctrl.borrow_mut();
                    c.refused += 1;
                    c.marks.push((now_step(), "link request refused (the link is over)".to_string()));
                    drop(c);
                    let _ = d.promise.send(Err(DownlinkRuntimeError::DownlinkConnectionFailed(DownlinkFailureReason::UnresolvableLocal(
                        RelativeAddress::text(REMOTE_NODE, REMOTE_LANE),
                    ))));
                }
            }
            LinkRequest::Commander(c) => {
                ctrl.borrow_mut().bad_requests.push("commander request".to_string());
                drop(c);
            }
        }
    }
}

fn ctl_recon(c: &HostCtl) -> String {
    swimos_recon::print_recon_compact(c).to_string()
}

#[derive(Debug, Clone)]
enum PeerOp {
    Cmd(HostCtl),
    Pause(u32),
    WaitPhase(u32),
    /// Parks until the output-channel fault has fired and the reader is really gone.
    WaitOutFail,
}

fn local_ctl(op: &LocalOp) -> HostCtl {
    match op {
        LocalOp::Upd(k, v) => HostCtl::Upd { k: *k, v: *v },
        LocalOp::Rem(k) => HostCtl::Rem { k: *k },
        LocalOp::Clr => HostCtl::Clr,
        LocalOp::Set(v) => HostCtl::Set { v: *v },
    }
}

fn peer_script(sc: &HostedScenario) -> Vec<PeerOp> {
    let mut ops = vec![];
    if !sc.open_on_start {
        ops.push(PeerOp::Pause(sc.open_delay));
        ops.push(PeerOp::Cmd(HostCtl::Open));
    }
    // Local writes through the handle, at drawn points of the run.
    let mut local: Vec<(u32, HostCtl)> = vec![];
    if sc.base.map {
        for (after, op) in sc.map_ops.iter() {
            local.push((*after, local_ctl(op)));
        }
    } else {
        let mut sets = sc.base.local_sets.clone();
        sets.sort();
        for (after, v) in sets {
            local.push((after, HostCtl::Set { v }));
        }
    }
    local.sort_by_key(|(a, _)| *a);
    let mut at = 0u32;
    for (after, c) in local {
        ops.push(PeerOp::Pause(after.saturating_sub(at)));
        at = at.max(after);
        ops.push(PeerOp::Cmd(c));
    }
    if let Some((of, _)) = sc.out_fail_at() {
        // The write that meets the broken channel: whatever the drawn times of the other local writes, one
        // is issued after the fault.
        ops.push(PeerOp::WaitOutFail);
        ops.push(PeerOp::Cmd(local_ctl(&of.write)));
    }
    ops.push(PeerOp::WaitPhase(1));
    ops.push(PeerOp::Cmd(HostCtl::Ping { n: 1 }));
    ops.push(PeerOp::WaitPhase(2));
    if sc.end == EndMode::HandleStop {
        ops.push(PeerOp::Cmd(HostCtl::Stop));
    }
    ops.push(PeerOp::WaitPhase(3));
    ops.push(PeerOp::Cmd(HostCtl::Ping { n: 2 }));
    ops.push(PeerOp::WaitPhase(4));
    ops
}

/// The remote peer: attaches to the agent, sends the trigger commands, discards what the agent sends.
async fn peer(att_tx: mpsc::Sender<AgentAttachmentRequest>, ctrl: SharedCtrl, spawn: SpawnQueue, ops: Vec<PeerOp>) {
    let id = Uuid::from_u128(0x2001);
    let (to_agent_tx, to_agent_rx) = byte_channel(NonZeroUsize::new(4096).unwrap());
    let (from_agent_tx, mut from_agent_rx) = byte_channel(NonZeroUsize::new(4096).unwrap());
    let (done_tx, done_rx) = promise::promise();
    let req = AgentAttachmentRequest::TwoWay { id, io: (from_agent_tx, to_agent_rx), on_attached: None, completion: done_tx };
    if att_tx.send(req).await.is_err() {
        ctrl.borrow_mut().marks.push((now_step(), "peer: attach failed".to_string()));
        return;
    }
    spawn.borrow_mut().push((
        "peer.r".to_string(),
        64,
        Box::pin(async move {
            let mut chunk = [0u8; 512];
            loop {
                match from_agent_rx.read(&mut chunk).await {
                    Ok(0) | Err(_) => break,
                    Ok(_) => {}
                }
            }
        }),
    ));
    let c2 = ctrl.clone();
    spawn.borrow_mut().push((
        "peer.done".to_string(),
        64,
        Box::pin(async move {
            let r = done_rx.await;
            let text = match r {
                Ok(reason) => format!("{:?}", reason),
                Err(_) => "PromiseDropped".to_string(),
            };
            c2.borrow_mut().marks.push((now_step(), format!("peer closed: {text}")));
        }),
    ));
    let mut w = to_agent_tx;
    let mut enc = RawRequestMessageEncoder;
    let mut buf = BytesMut::new();
    for op in ops {
        match op {
            PeerOp::Pause(n) => yield_n(n).await,
            PeerOp::WaitPhase(p) => WaitPhase { ctrl: ctrl.clone(), target: p }.await,
            PeerOp::WaitOutFail => {
                let rx = ctrl.borrow().out_dropped_rx.clone();
                if let Some(rx) = rx {
                    let _ = rx.await;
                }
            }
            PeerOp::Cmd(c) => {
                let body = ctl_recon(&c);
                let frame: RequestMessage<&str, &[u8]> = RequestMessage::command(id, RelativeAddress::new(NODE_URI, "ctl"), body.as_bytes());
                buf.clear();
                enc.encode(frame, &mut buf).expect("encode");
                let ok = w.write_all(&buf).await.is_ok();
                ctrl.borrow_mut().marks.push((now_step(), format!("peer sent {body} ok={ok}")));
                if !ok {
                    return;
                }
            }
        }
    }
    // Phase 4: the agent is being stopped; keep the write half until the run ends.
    std::future::pending::<()>().await;
    drop(w);
}

fn nz(n: u32) -> NonZeroUsize {
    NonZeroUsize::new(n.max(1) as usize).unwrap()
}

fn flush_spawns(exec: &mut Exec, spawn: &SpawnQueue) {
    let items: Vec<_> = spawn.borrow_mut().drain(..).collect();
    for (name, budget, fut) in items {
        exec.spawn(&name, budget, fut);
    }
}

pub async fn run(sc: &HostedScenario, keep_log: bool) -> HostedRecord {
    let t0 = tokio::time::Instant::now();
    let policy = match sc.base.policy {
        0 => Policy::Lowest,
        1 => Policy::RoundRobin,
        _ => Policy::Random,
    };
    let mut exec = Exec::new(Scheduler::new(Rng::new(sc.base.sched_seed), policy, 2_000), EventLog::new(keep_log));
    exec.trace_polls = keep_log && std::env::var("VERIF_TRACE_POLLS").is_ok();
    let ctrl: SharedCtrl = Rc::new(RefCell::new(Ctrl::default()));
    if sc.out_fail_at().is_some() {
        let (tx, rx) = trigger::trigger();
        let mut c = ctrl.borrow_mut();
        c.out_fail_tx = Some(tx);
        c.out_fail_rx = Some(rx);
        let (tx, rx) = trigger::trigger();
        c.out_dropped_tx = Some(tx);
        c.out_dropped_rx = Some(rx);
    }
    let spawn: SpawnQueue = Rc::new(RefCell::new(vec![]));

    let cfg = HostCfg {
        map: sc.base.map,
        events_when_not_synced: sc.base.events_when_not_synced,
        terminate_on_unlinked: sc.base.terminate_on_unlinked,
        stateful: sc.stateful,
        open_on_start: sc.open_on_start,
        btree: sc.btree,
    };
    let lifecycle = HostLifecycle::new(cfg);
    let trace = lifecycle.trace.clone();
    let events = lifecycle.events.clone();
    let model = AgentModel::new(HostAgent::default, lifecycle.into_lifecycle());
    let (att_tx, att_rx) = mpsc::channel(8);
    let (http_tx, http_rx) = mpsc::channel(4);
    let (link_tx, link_rx) = mpsc::channel(8);
    let (stop_tx, stop_rx) = trigger::trigger();
    let lane_config = LaneConfig { input_buffer_size: nz(4096), output_buffer_size: nz(4096), transient: false };
    let shutdown_ms = 1_000u64;
    let config = CombinedAgentConfig {
        agent_config: AgentConfig { default_lane_config: Some(lane_config), keep_linked_retry: RetryStrategy::none() },
        runtime_config: AgentRuntimeConfig {
            attachment_queue_size: nz(8),
            agent_http_request_channel_size: nz(4),
            inactive_timeout: Duration::from_secs(3_600),
            prune_remote_delay: Duration::from_secs(3_600),
            shutdown_timeout: Duration::from_millis(shutdown_ms),
            item_init_timeout: Duration::from_secs(5),
            command_output_timeout: Duration::from_secs(30),
            command_output_retry: RetryStrategy::none(),
            command_msg_buffer: nz(4096),
            lane_http_request_channel_size: nz(4),
        },
    };
    let descriptor = AgentRouteDescriptor { identity: Uuid::from_u128(9), route: NODE_URI.parse().unwrap(), route_params: HashMap::new() };
    let channels = AgentRouteChannels::new(att_rx, http_rx, link_tx);
    let task = AgentRouteTask::new(&model, descriptor, channels, stop_rx, config, None);
    let fut: Pin<Box<dyn Future<Output = Result<(), AgentExecError>>>> = Box::pin(task.run_agent());
    let agent_end: Rc<RefCell<Option<(u64, String)>>> = Rc::new(RefCell::new(None));
    let end2 = agent_end.clone();
    // A byte-channel budget of 2 allows one channel operation per poll; `FramedWrite::poll_close` needs two
    // (flush + shutdown) in the same poll and would spin for ever (an artefact of the tiny budget, not of
    // the downlink): the agent node gets at least 3.
    let agent_node = exec.spawn("agent", sc.base.budget.max(3) as usize, async move {
        let r = fut.await;
        let text = match r {
            Ok(()) => "Ok".to_string(),
            Err(e) => format!("Err({e})"),
        };
        *end2.borrow_mut() = Some((now_step(), text));
    });
    exec.spawn("links", 64, link_server(link_rx, ctrl.clone(), spawn.clone(), sc.clone()));
    exec.spawn("peer.w", 64, peer(att_tx.clone(), ctrl.clone(), spawn.clone(), peer_script(sc)));

    let mut rec = HostedRecord {
        sc: sc.clone(),
        trace: vec![],
        events: vec![],
        outs: vec![],
        marks: vec![],
        fed: 0,
        fed2: 0,
        fed2_at_main_idle: 0,
        out_fail_step: None,
        recon_after_fail: None,
        link_requests: 0,
        connections: 0,
        refused_requests: 0,
        bad_requests: vec![],
        main_idle_step: None,
        fed_at_main_idle: 0,
        feeder_write_failed: false,
        end_step: None,
        stop_step: None,
        agent_done_at_main_idle: false,
        agent_end: None,
        agent_stop_timeout: false,
        steps: 0,
        decisions: 0,
        sim_ms: 0,
        panics: vec![],
        step_limit: false,
    };

    let mut stop_tx = Some(stop_tx);
    let mut time_advances = 0u32;
    'run: loop {
        loop {
            if exec.steps >= sc.max_steps {
                rec.step_limit = true;
                break 'run;
            }
            if !exec.step() {
                break;
            }
            flush_spawns(&mut exec, &spawn);
            // Fresh tokio coop budget for every node poll; deferred wake-ups are delivered.
            tokio::task::yield_now().await;
        }
        flush_spawns(&mut exec, &spawn);
        if exec.has_ready() {
            continue;
        }
        // Idle: nothing can make progress without the harness (or the passage of time).
        let phase = ctrl.borrow().phase;
        match phase {
            0 if ctrl.borrow().out_fail_tx.is_some() => {
                // The fault is still armed: a settled fault fires now that everything sent so far has been
                // consumed (or the peer never got to the fault point: the run is stuck, and said to be).
                // The main phase goes on with the write failure, the reconnection and the second session.
                fire_out_fail(&ctrl, exec.steps, "idle");
            }
            0 => {
                rec.main_idle_step = Some(exec.steps);
                rec.fed_at_main_idle = ctrl.borrow().fed;
                rec.fed2_at_main_idle = ctrl.borrow().fed2;
                rec.agent_done_at_main_idle = exec.is_done(agent_node);
                let mut c = ctrl.borrow_mut();
                c.marks.push((exec.steps, "main idle".to_string()));
                c.phase = 1;
                drop(c);
                exec.wake_all_except(&[agent_node]);
            }
            1 => {
                let mut c = ctrl.borrow_mut();
                c.phase = 2;
                rec.end_step = Some(exec.steps);
                match sc.end {
                    EndMode::Eof => {
                        c.eof = true;
                        c.marks.push((exec.steps, "end: eof".to_string()));
                    }
                    EndMode::HandleStop => {
                        c.marks.push((exec.steps, "end: handle.stop()".to_string()));
                    }
                    EndMode::KeepOpen => {
                        c.marks.push((exec.steps, "end: link kept open".to_string()));
                    }
                }
                drop(c);
                exec.wake_all_except(&[agent_node]);
            }
            2 => {
                let mut c = ctrl.borrow_mut();
                c.phase = 3;
                c.marks.push((exec.steps, "second ping".to_string()));
                drop(c);
                exec.wake_all_except(&[agent_node]);
            }
            3 => {
                let mut c = ctrl.borrow_mut();
                c.phase = 4;
                c.eof = true;
                c.marks.push((exec.steps, "stop agent".to_string()));
                drop(c);
                rec.stop_step = Some(exec.steps);
                if let Some(tx) = stop_tx.take() {
                    tx.trigger();
                }
                exec.wake_all_except(&[agent_node]);
            }
            _ => {
                if exec.is_done(agent_node) {
                    break 'run;
                }
                // Let simulated time pass (shutdown timeout of the runtime).
                time_advances += 1;
                if time_advances > 20 || !exec.wait_for_wake(Duration::from_millis(shutdown_ms + 1_000)).await {
                    rec.agent_stop_timeout = true;
                    break 'run;
                }
            }
        }
    }

    rec.trace = trace.lock().unwrap().clone();
    rec.events = events.lock().unwrap().clone();
    rec.agent_end = agent_end.borrow().clone();
    rec.steps = exec.steps;
    rec.decisions = exec.decisions;
    rec.sim_ms = (tokio::time::Instant::now() - t0).as_millis() as u64;
    rec.panics = exec.panics.clone();
    if exec.trace_polls {
        // Diagnostics only (VERIF_TRACE_POLLS): which node was polled at which step.
        for l in exec.log.lines() {
            eprintln!("{l}");
        }
    }
    drop(exec);
    drop(http_tx);
    drop(att_tx);
    let c = ctrl.borrow();
    rec.outs = c.outs.clone();
    rec.marks = c.marks.clone();
    rec.fed = c.fed;
    rec.fed2 = c.fed2;
    rec.out_fail_step = c.out_fail_step;
    rec.recon_after_fail = c.recon_after_fail;
    rec.link_requests = c.link_requests;
    rec.connections = c.connections;
    rec.refused_requests = c.refused;
    rec.bad_requests = c.bad_requests.clone();
    rec.feeder_write_failed = c.write_failed;
    rec
}
