//! W-HOSTED (`hosted-value`, `hosted-map`): the AGENT-HOSTED downlinks
//! (`swimos_agent::agent_model::downlink::hosted::{HostedValueDownlink, HostedMapDownlink}`) opened by
//! the handlers of a real agent (`HostAgent`, real `AgentModel` + real agent runtime) and driven by the same
//! scripted notification sequences as the stand-alone client downlinks in `worlds::dltask`.
//!
//! One scenario = one `dltask::DtScenario` (script, configuration, local sets, channel capacities, schedule)
//! plus knobs that only exist on the hosted side. `execute` runs the SAME base scenario
//!   1. on the client implementation (`dltask::run`, unchanged) and
//!   2. on the hosted implementation (`run::run`),
//! and checks
//!   * C08.hosted.{fold,callbacks,on_synced_state,..}: the hosted callback trace against the reference fold
//!     of `dltask::reference` with the comparison of `dltask::check` (literally that function), and
//!   * C08.equiv: the hosted callback sequence equals the client callback sequence, callback by callback,
//!     arguments included (legal scripts only).
//!
//! Normalisations applied before comparing the two implementations (everything else is compared verbatim):
//!   N1  The map handed to hosted map callbacks is a `HashMap<i32,i32>` (or the `BTreeMap` chosen with
//!       `map_downlink_builder_for`), the client hands a `BTreeMap`: both are converted to a `BTreeMap`.
//!   N2  End of the byte stream is not a notification. The client world closes the stream when the script
//!       is over (the client task then just returns); the hosted downlink turns EOF while linked into a
//!       synthetic `on_unlinked` and, if it does not terminate on unlinked, asks the runtime for a new
//!       connection. The hosted run therefore keeps the stream open until the system is idle, and only the
//!       callbacks made up to that point are compared. What happens after the harness ends the link
//!       (EOF / `handle.stop()`) is only checked for "no callback other than at most one on_unlinked, and
//!       only if the link was up".
//!   N3  `on_failed` exists only on the hosted side; it is recorded separately (never expected on a
//!       well-formed stream) and is not part of the compared sequence.
//!   N4  The hosted API creates the handler (runs the user's closure with the callback arguments) and
//!       executes it later in the same agent step; the recorded arguments are those passed at creation,
//!       the recorded order is the order of execution. The client awaits the callback in place.
//!   N5  Local writes: the client world only issues local *sets* of a value downlink, which make no
//!       callback in either implementation; hosted map runs additionally issue local update / remove /
//!       clear through the `MapDownlinkHandle` (they must not affect the local state: the reference fold
//!       ignores them). The commands written back to the link are checked separately, not compared.
//!   N6  Fault "the output channel fails while a local write is pending" (`HostedScenario::out_fail`, hosted
//!       side only, legal scripts of a downlink that does not terminate on unlinked): the link peer drops
//!       the read half of the channel the downlink writes its local operations to, a local write is issued
//!       afterwards, the write fails (`DownlinkChannelError::WriteFailed`) and the agent reconnects the
//!       downlink (`connect`) without any lifecycle callback. The peer then serves a fresh session on the
//!       new connection. Expected: the callbacks made up to the reconnection follow the reference fold of
//!       the part of the script fed before the fault, nothing is called for the loss itself, and the
//!       callbacks on the new connection are those of the reference fold of the new session started from
//!       an EMPTY state (`dltask::reference` / `dltask::check` on a scenario whose script is only that
//!       session). The client has no such fault: it runs the script up to the fault point and is compared
//!       with the hosted callbacks made before the reconnection.

pub mod agent;
pub mod run;

use std::collections::BTreeMap;

use serde::{Deserialize, Serialize};
use serde_json::{json, Value as Json};

use crate::core::log::EventLog;
use crate::core::rng::Rng;
use crate::core::tok::block_on_sim;
use crate::core::{Outcome, Tier, Violation, World};
use crate::worlds::dltask::{self, cb_name, Cb, DlTaskWorld, DtScenario, N};

use run::{HostedRecord, OutOp};

#[derive(Debug, Clone, Copy, Serialize, Deserialize, PartialEq, Eq)]
pub enum EndMode {
    /// The harness closes the stream after the script (end of the link).
    Eof,
    /// The agent calls `handle.stop()`.
    HandleStop,
    /// The link stays open until the agent is stopped.
    KeepOpen,
}

#[derive(Debug, Clone, Serialize, Deserialize, PartialEq, Eq)]
pub enum LocalOp {
    Upd(i32, i32),
    Rem(i32),
    Clr,
    /// `ValueDownlinkHandle::set` (only as the write that meets the failed output channel of a value downlink).
    Set(i32),
}

/// The output channel of the downlink fails while a local write is pending (N6).
#[derive(Debug, Clone, Serialize, Deserialize, PartialEq, Eq)]
pub struct OutFail {
    /// The link peer drops the read half of the output channel when this many notifications of the base
    /// script have been written to the link (clamped to the script); the rest of the base script is never sent.
    pub after_fed: u32,
    /// true: the fault fires only when everything fed so far has been consumed (the system is idle), so the
    /// callbacks before the reconnection are exactly those of the fed part; false: it fires as soon as the
    /// peer gets to the fault point, racing with the notifications still in the channel (which are lost
    /// with the abandoned connection: only a prefix of the callbacks of the fed part can be demanded).
    pub settle: bool,
    /// The local write issued after the fault (the one that finds the channel broken, unless an earlier
    /// local write of the scenario is still pending and fails first).
    pub write: LocalOp,
    /// The session the link peer serves on the connection the agent opens after the write failure.
    pub second: Vec<N>,
}

#[derive(Debug, Clone, Serialize, Deserialize, PartialEq, Eq)]
pub struct HostedScenario {
    /// The part that is executed on BOTH implementations.
    pub base: DtScenario,
    /// Stateful builder (fn item handlers with shared state) instead of the stateless one (closures).
    pub stateful: bool,
    /// Open the downlink in `on_start` (else: by a trigger command after `open_delay` polls).
    pub open_on_start: bool,
    pub open_delay: u32,
    /// Map downlink backed by a `BTreeMap` instead of the default `HashMap`.
    pub btree: bool,
    /// Every session arrives on a connection of its own: after `Unlinked` the stream ends and the agent
    /// reconnects (only when terminate_on_unlinked = false).
    pub reconnect: bool,
    /// Local writes through the `MapDownlinkHandle`: (after how many polls of the peer, operation).
    pub map_ops: Vec<(u32, LocalOp)>,
    pub end: EndMode,
    /// Polls before the link request is answered.
    pub link_delay: u32,
    pub max_steps: u64,
    /// Absent in scenarios recorded before the fault existed.
    #[serde(default, skip_serializing_if = "Option::is_none")]
    pub out_fail: Option<OutFail>,
}

impl HostedScenario {
    /// The output-channel fault and its (clamped) fault point, if it applies to this scenario: only legal
    /// scripts (the others are explored for "no panic" only, and may make the downlink fail on their own)
    /// of a downlink that does not terminate on unlinked (a terminating downlink cannot be restarted: the
    /// agent drops it after a write failure, there is no second session to observe).
    pub fn out_fail_at(&self) -> Option<(&OutFail, usize)> {
        match &self.out_fail {
            Some(of) if self.base.legal && !self.base.terminate_on_unlinked => Some((of, (of.after_fed as usize).min(self.base.script.len()))),
            _ => None,
        }
    }

    /// The base scenario restricted to what is sent before the fault (the whole base scenario without it).
    pub fn first_part(&self) -> DtScenario {
        let mut b = self.base.clone();
        if let Some((_, at)) = self.out_fail_at() {
            b.script.truncate(at);
        }
        b
    }

    /// The session served after the write failure as a scenario of its own (same configuration, EMPTY start).
    pub fn second_part(&self) -> Option<DtScenario> {
        self.out_fail_at().map(|(of, _)| {
            let mut b = self.base.clone();
            b.script = of.second.clone();
            b.local_sets.clear();
            b
        })
    }
}

/// Drawn from a stream of its own: the other fields of a scenario are those of the same seed without the fault.
fn generate_out_fail(seed: u64, base: &DtScenario) -> Option<OutFail> {
    let mut rng = Rng::new(seed).sub("out-fail");
    if !base.legal || base.terminate_on_unlinked || !rng.chance(1, 3) {
        return None;
    }
    let len = base.script.len() as u64;
    // Half of the fault points lie after the first `Synced` (the downlink holds synced state, callbacks are
    // dispatched), the others anywhere: before `Linked`, before `Synced`, after `Unlinked`, at the end.
    let synced_at = base.script.iter().position(|n| matches!(n, N::Synced)).map(|i| i as u64 + 1);
    let after_fed = match synced_at {
        Some(s) if rng.chance(1, 2) => rng.range(s, len),
        _ => rng.range(0, len),
    } as u32;
    let map = base.map;
    let mut next = 7000;
    let mut ev = |rng: &mut Rng| -> N {
        next += 1;
        if !map {
            return N::Val(next);
        }
        // Keys overlap those of the base script (0..=7) only in part: leftovers of the abandoned link
        // would show up next to, not under, the entries of the new session.
        let k = rng.range_i(2, 9) as i32;
        match rng.below(12) {
            0..=6 => N::Update(k, next),
            7..=8 => N::Remove(k),
            9 => N::Take(rng.range(0, 3)),
            10 => N::Drop(rng.range(0, 3)),
            _ => N::Clear,
        }
    };
    let mut second = vec![N::Linked];
    let pre = rng.range(0, 4);
    for _ in 0..pre {
        second.push(ev(&mut rng));
    }
    if rng.chance(5, 6) {
        // A value link always delivers a value before synced.
        if !map && pre == 0 {
            second.push(ev(&mut rng));
        }
        second.push(N::Synced);
        for _ in 0..rng.range(0, 5) {
            second.push(ev(&mut rng));
        }
    }
    if rng.chance(1, 4) {
        second.push(N::Unlinked);
    }
    let write = if map {
        let k = rng.range_i(0, 9) as i32;
        match rng.below(6) {
            0..=3 => LocalOp::Upd(k, 9001),
            4 => LocalOp::Rem(k),
            _ => LocalOp::Clr,
        }
    } else {
        LocalOp::Set(9001)
    };
    Some(OutFail { after_fed, settle: rng.chance(1, 2), write, second })
}

pub fn generate(seed: u64, map: bool) -> HostedScenario {
    // The same generator as the client world: legal sessions (linked, events, synced, events, unlinked,
    // relink), take / drop / clear, arbitrary orders for "no panic", the four configurations.
    let mut base = dltask::generate(seed, map);
    // The hosted runs issue their own local writes (`map_ops` below, racing with the notifications).
    base.map_ops.clear();
    // The hosted value downlink of the harness agent is a downlink of i32: no event without a value.
    for (i, n) in base.script.iter_mut().enumerate() {
        if matches!(n, N::Val(v) if *v == dltask::NONE_VALUE) {
            *n = N::Val(7_000_000 + i as i32);
        }
    }
    let mut rng = Rng::new(seed).sub("hosted");
    let mut map_ops = vec![];
    let mut next = 5000;
    if map && rng.chance(1, 2) {
        for _ in 0..rng.range(1, 4) {
            next += 1;
            let k = rng.range_i(0, 4) as i32;
            let op = match rng.below(6) {
                0..=3 => LocalOp::Upd(k, next),
                4 => LocalOp::Rem(k),
                _ => LocalOp::Clr,
            };
            map_ops.push((rng.range(1, 60) as u32, op));
        }
    }
    let out_fail = generate_out_fail(seed, &base);
    HostedScenario {
        base,
        stateful: rng.chance(1, 2),
        open_on_start: rng.chance(1, 2),
        open_delay: *rng.pick(&[0u32, 0, 2, 7]),
        btree: map && rng.chance(1, 3),
        reconnect: rng.chance(1, 3),
        map_ops,
        end: *rng.pick(&[EndMode::Eof, EndMode::Eof, EndMode::HandleStop, EndMode::KeepOpen]),
        link_delay: *rng.pick(&[0u32, 0, 1, 5]),
        max_steps: 40_000,
        out_fail,
    }
}

/// Facts about a legal script that the oracles and the counters need (a fold like `dltask::reference`).
#[derive(Default, Debug)]
struct ScriptFacts {
    /// The link is up after the last notification (and the downlink has not terminated).
    linked_at_end: bool,
    terminated: bool,
    /// drop(n) with n >= len on a non-empty map while callbacks are dispatched.
    drop_all_dispatched: u64,
    /// drop(n) / take(n) on an empty map while callbacks are dispatched.
    drop_on_empty: u64,
    /// take / drop removing at least two entries while callbacks are dispatched.
    multi_remove: u64,
    clear_dispatched: u64,
    events_suppressed: u64,
    /// The local state the downlink holds after the last notification: number of map entries, 1 for a value.
    state_at_end: usize,
}

fn facts(sc: &DtScenario) -> ScriptFacts {
    let mut f = ScriptFacts::default();
    let mut linked = false;
    let mut synced = false;
    let mut map: BTreeMap<i32, i32> = BTreeMap::new();
    let mut has_value = false;
    for n in sc.script.iter() {
        if f.terminated {
            break;
        }
        match n {
            N::Linked => {
                if !linked {
                    linked = true;
                    synced = false;
                    map.clear();
                    has_value = false;
                }
            }
            N::Synced => {
                if linked {
                    synced = true;
                }
            }
            N::Unlinked => {
                if sc.terminate_on_unlinked {
                    f.terminated = true;
                }
                linked = false;
                synced = false;
                map.clear();
                has_value = false;
            }
            ev => {
                if !linked {
                    continue;
                }
                let dispatch = synced || sc.events_when_not_synced;
                if !dispatch {
                    f.events_suppressed += 1;
                }
                match ev {
                    N::Val(_) => has_value = true,
                    N::Update(k, v) => {
                        map.insert(*k, *v);
                    }
                    N::Remove(k) => {
                        map.remove(k);
                    }
                    N::Clear => {
                        map.clear();
                        if dispatch {
                            f.clear_dispatched += 1;
                        }
                    }
                    N::Take(n) => {
                        let removed = map.len().saturating_sub(*n as usize);
                        if dispatch && removed >= 2 {
                            f.multi_remove += 1;
                        }
                        if dispatch && map.is_empty() {
                            f.drop_on_empty += 1;
                        }
                        let keys: Vec<i32> = map.keys().copied().skip(*n as usize).collect();
                        for k in keys {
                            map.remove(&k);
                        }
                    }
                    N::Drop(n) => {
                        let removed = map.len().min(*n as usize);
                        if dispatch && removed >= 2 {
                            f.multi_remove += 1;
                        }
                        if dispatch && map.is_empty() {
                            f.drop_on_empty += 1;
                        } else if dispatch && *n as usize >= map.len() {
                            f.drop_all_dispatched += 1;
                        }
                        let keys: Vec<i32> = map.keys().copied().take(*n as usize).collect();
                        for k in keys {
                            map.remove(&k);
                        }
                    }
                    _ => {}
                }
            }
        }
    }
    f.linked_at_end = linked && !f.terminated;
    f.state_at_end = map.len() + has_value as usize;
    f
}

/// The script in which every `Drop(n)` that arrives while the (linked) map holds at most `n` entries is
/// replaced by `Clear`: this is how the hosted implementation at the baseline treats such a drop
/// (`MapDlState::drop`: `if n >= map.len() { on_clear(take(map)) }`, also for an empty map). Used only to
/// CLASSIFY a deviation (signature detail `drop_as_clear`), never to excuse it. `None` if there is no such drop.
fn drop_as_clear_script(sc: &DtScenario) -> Option<DtScenario> {
    let mut linked = false;
    let mut terminated = false;
    let mut map: BTreeMap<i32, i32> = BTreeMap::new();
    let mut out = sc.clone();
    let mut changed = false;
    for (i, n) in sc.script.iter().enumerate() {
        if terminated {
            break;
        }
        match n {
            N::Linked => {
                if !linked {
                    linked = true;
                    map.clear();
                }
            }
            N::Synced | N::Val(_) => {}
            N::Unlinked => {
                linked = false;
                terminated = sc.terminate_on_unlinked;
            }
            _ if !linked => {}
            N::Update(k, v) => {
                map.insert(*k, *v);
            }
            N::Remove(k) => {
                map.remove(k);
            }
            N::Clear => map.clear(),
            N::Take(n) => {
                let keys: Vec<i32> = map.keys().copied().skip(*n as usize).collect();
                for k in keys {
                    map.remove(&k);
                }
            }
            N::Drop(n) => {
                if *n as usize >= map.len() {
                    out.script[i] = N::Clear;
                    changed = true;
                    map.clear();
                } else {
                    let keys: Vec<i32> = map.keys().copied().take(*n as usize).collect();
                    for k in keys {
                        map.remove(&k);
                    }
                }
            }
        }
    }
    if changed {
        Some(out)
    } else {
        None
    }
}

fn frag(sc: &DtScenario) -> &'static str {
    if sc.in_cap < 4096 {
        "fragmented"
    } else {
        "whole_frames"
    }
}

/// The hosted callbacks that are compared: those made before the harness ended the link.
fn main_trace(rec: &HostedRecord) -> Vec<(u64, Cb)> {
    match rec.end_step {
        Some(e) => rec.trace.iter().filter(|(s, _)| *s <= e).cloned().collect(),
        None => rec.trace.clone(),
    }
}

/// The values the value downlink wrote, in the order it wrote them. `outs` is in the order in which the
/// decoders of the connections happened to be polled; the downlink writes to a connection only after it
/// has given up the previous one, so its own order is by connection, then by position in the connection.
fn value_outs(rec: &HostedRecord) -> Vec<i32> {
    let mut outs: Vec<(u32, i32)> = rec.outs.iter().filter_map(|(_, c, o)| if let OutOp::Set(v) = o { Some((*c, *v)) } else { None }).collect();
    outs.sort_by_key(|(c, _)| *c);
    outs.into_iter().map(|(_, v)| v).collect()
}

fn out_op(o: &LocalOp) -> OutOp {
    match o {
        LocalOp::Upd(k, v) => OutOp::Upd(*k, *v),
        LocalOp::Rem(k) => OutOp::Rem(*k),
        LocalOp::Clr => OutOp::Clr,
        LocalOp::Set(v) => OutOp::Set(*v),
    }
}

/// The agent event recorded when the handle accepted the operation (`HostLifecycle::apply`).
fn handled_ok(o: &LocalOp) -> String {
    match o {
        LocalOp::Upd(k, v) => format!("upd {k} {v} -> ok"),
        LocalOp::Rem(k) => format!("rem {k} -> ok"),
        LocalOp::Clr => "clr -> ok".to_string(),
        LocalOp::Set(v) => format!("set {v} -> ok"),
    }
}

struct SessionCheck {
    violations: Vec<Violation>,
    /// The "drop as clear" variant of the script (classification only) and whether the trace follows it.
    quirk: Option<DtScenario>,
    quirk_explains: bool,
}

/// The hosted callbacks `trace` against the reference fold of `sc` (from an empty state), with the comparison
/// of the client world (literally `dltask::check`). `sig_suffix` distinguishes the session after a write failure.
fn check_session(rec: &HostedRecord, sc: &DtScenario, trace: &[(u64, Cb)], fed: usize, out_frames: Vec<i32>, tag: &str, sig_suffix: &str) -> SessionCheck {
    let record = |sc: &DtScenario| dltask::Record {
        sc: sc.clone(),
        trace: trace.to_vec(),
        result: Some("Ok".to_string()),
        out_frames: out_frames.clone(),
        steps: rec.steps,
        decisions: rec.decisions,
        panics: vec![],
        step_limit: false,
        fed,
        out_bodies: vec![],
        map_ops_issued: vec![],
    };
    let plain = dltask::check(&record(sc));
    // Classification only: does the trace equal the reference of the script in which the drops that empty
    // the map are clears (the baseline behaviour of MapDlState::drop)?
    let quirk = if plain.is_empty() { None } else { drop_as_clear_script(sc) };
    let quirk_explains = quirk.as_ref().map(|q| dltask::check(&record(q)).is_empty()).unwrap_or(false);
    let mut violations = vec![];
    for v in plain {
        if quirk_explains {
            violations.push(Violation::new("C08", "C08.hosted.callbacks", &format!("drop_as_clear{sig_suffix}"), format!("{tag} {} -- the whole hosted trace equals the reference of the script in which every drop(n) with n >= size is a clear: the hosted downlink reports such a drop as on_clear (also on an empty map) instead of on_remove per entry", v.detail)));
            break;
        }
        violations.push(Violation {
            property: v.property,
            rule: v.rule.replacen("C08.", "C08.hosted.", 1),
            sig: format!("{}{sig_suffix}", v.sig.replacen("C08.", "C08.hosted.", 1)),
            detail: format!("{tag} {}", v.detail),
        });
    }
    SessionCheck { violations, quirk, quirk_explains }
}

fn check(rec: &HostedRecord, client: Option<&dltask::Record>) -> Vec<Violation> {
    let mut out = vec![];
    let sc = &rec.sc.base;
    let fr = frag(sc);
    for p in &rec.panics {
        out.push(Violation::new("C08", "C08.hosted.panic", fr, format!("{} panicked: {}", p.node, p.message)));
    }
    for b in &rec.bad_requests {
        out.push(Violation::new("C08", "C08.hosted.bad_link_request", "", format!("the agent asked the runtime for an unexpected link: {b}")));
    }
    if rec.step_limit {
        return out;
    }
    // The agent survives whatever the link does (legal or not): both pings are handled, the agent task
    // has not ended before it was told to stop, and it ends cleanly.
    let handled = |n: i32| rec.events.iter().any(|(_, e)| e == &format!("ping {n}"));
    if rec.agent_done_at_main_idle {
        out.push(Violation::new("C08", "C08.hosted.agent_stopped", fr, format!("the agent task ended by itself: {:?}", rec.agent_end)));
    } else if rec.stop_step.is_some() && !(handled(1) && handled(2)) {
        out.push(Violation::new("C08", "C08.hosted.agent_dead", fr, format!("the agent did not handle the pings sent after the link activity (ping1={} ping2={}); agent end {:?}", handled(1), handled(2), rec.agent_end)));
    }
    if let Some((_, r)) = &rec.agent_end {
        if r != "Ok" && !rec.agent_done_at_main_idle {
            out.push(Violation::new("C08", "C08.hosted.agent_failed", fr, format!("the agent task failed: {r}")));
        }
    }
    if !sc.legal {
        return out;
    }
    let fault = rec.sc.out_fail_at();
    // What the callbacks are compared with: the whole base script or, when the output channel was made to
    // fail (N6), the part of it sent before the fault (callbacks up to the reconnection) and then the
    // session served on the new connection (callbacks after it), each with the reference fold started
    // from an empty state.
    let mut first_sc = rec.sc.first_part();
    if let Some((OutFail { write: LocalOp::Set(v), .. }, _)) = fault {
        // The write of the fault is the last local set of a value downlink (dltask::check: sets come out in order).
        first_sc.local_sets.push((u32::MAX, *v));
    }
    let second_sc = rec.sc.second_part();
    let sc = &first_sc;
    let all = main_trace(rec);
    let (main, after): (Vec<(u64, Cb)>, Vec<(u64, Cb)>) = match (fault, rec.recon_after_fail) {
        (Some(_), Some((_, at))) => all.into_iter().partition(|(s, _)| *s <= at),
        _ => (all, vec![]),
    };
    // Facts about the script the downlink saw last (what the end of the run is judged by).
    let f = match (&second_sc, rec.recon_after_fail) {
        (Some(s2), Some(_)) => facts(s2),
        _ => facts(sc),
    };
    let tag = format!("[hosted, stateful={} btree={} reconnect={}]", rec.sc.stateful, rec.sc.btree, rec.sc.reconnect);
    // (a) The reference fold, with the comparison of the client world (dltask::check). A racing fault loses
    // the notifications still in the abandoned channel: only a prefix can be demanded (`fed` never equals
    // the script length, which is how dltask::check is told not to ask for the missing callbacks).
    let racing = fault.map(|(of, _)| !of.settle).unwrap_or(false);
    let first = check_session(rec, sc, &main, if racing { usize::MAX } else { rec.fed_at_main_idle }, value_outs(rec), &tag, "");
    let (quirk, quirk_explains) = (first.quirk, first.quirk_explains);
    out.extend(first.violations);
    if let (Some((of, at)), Some(s2)) = (fault, &second_sc) {
        if rec.recon_after_fail.is_some() {
            let tag2 = format!("{tag} [session after the write failure; fault after {at} notifications, settle={}, local state then: {} entries]", of.settle, facts(sc).state_at_end);
            out.extend(check_session(rec, s2, &after, rec.fed2_at_main_idle, vec![], &tag2, ":after_write_failure").violations);
        } else {
            // A reconnection is demanded only if the fault took place as drawn: the downlink was connected, the
            // peer got to the fault point and the handle accepted the local write issued after the reader was dropped.
            let write_accepted = rec.out_fail_step.map(|fs| rec.events.iter().any(|(s, e)| *s > fs && *e == handled_ok(&of.write))).unwrap_or(false);
            if rec.connections > 0 && rec.fed_at_main_idle >= at && write_accepted {
                out.push(Violation::new("C08", "C08.hosted.no_reconnect_after_write_failure", fr, format!("{tag} the link peer dropped the reader of the output channel after {at} notifications and {:?} was issued through the handle afterwards, but the agent never obtained a new connection for the downlink (link requests {}, connections {}, refused {})", of.write, rec.link_requests, rec.connections, rec.refused_requests)));
            }
        }
    }
    // Liveness: the system went idle with every notification consumed (unless the downlink terminated).
    if rec.connections == 0 {
        out.push(Violation::new("C08", "C08.hosted.never_opened", "", format!("the agent never obtained a connection for the downlink (link requests {})", rec.link_requests)));
    } else if !f.terminated && rec.fed_at_main_idle < sc.script.len() {
        out.push(Violation::new("C08", "C08.hosted.stuck", fr, format!("the system went idle after {} of {} notifications were accepted by the hosted downlink (write failed: {})", rec.fed_at_main_idle, sc.script.len(), rec.feeder_write_failed)));
    } else if let (Some(s2), Some(_)) = (&second_sc, rec.recon_after_fail) {
        if !f.terminated && rec.fed2_at_main_idle < s2.script.len() {
            out.push(Violation::new("C08", "C08.hosted.stuck", &format!("{fr}:after_write_failure"), format!("the system went idle after {} of {} notifications of the session after the write failure were accepted by the hosted downlink (write failed: {})", rec.fed2_at_main_idle, s2.script.len(), rec.feeder_write_failed)));
        }
    }
    if let Some((_, e)) = rec.events.iter().find(|(s, e)| e == "on_failed" && rec.stop_step.map(|st| *s <= st).unwrap_or(true)) {
        out.push(Violation::new("C08", "C08.hosted.on_failed", fr, format!("{e} was called although every frame of the link was well formed")));
    }
    // After the harness ended the link: nothing but (at most) one on_unlinked, and only if the link was up.
    if let Some(end) = rec.end_step {
        let stop = rec.stop_step.unwrap_or(u64::MAX);
        let post: Vec<&Cb> = rec.trace.iter().filter(|(s, _)| *s > end && *s <= stop).map(|(_, c)| c).collect();
        let allowed = if f.linked_at_end && rec.sc.end != EndMode::KeepOpen { 1 } else { 0 };
        let bad = post.iter().any(|c| !matches!(c, Cb::Unlinked)) || post.len() > allowed;
        if bad {
            out.push(Violation::new("C08", "C08.hosted.after_end", fr, format!("callbacks without a notification after the link ended ({:?}, link up: {}): {:?}", rec.sc.end, f.linked_at_end, post)));
        }
    }
    // Commands written back to the link: only what the handlers issued.
    if sc.map {
        let issued: Vec<OutOp> = rec.sc.map_ops.iter().map(|(_, o)| out_op(o)).chain(fault.map(|(of, _)| out_op(&of.write))).collect();
        if let Some((_, _, o)) = rec.outs.iter().find(|(_, _, o)| !issued.contains(o)) {
            out.push(Violation::new("C08", "C08.hosted.local_op_unknown", fr, format!("the hosted downlink sent {:?} which no handler issued (issued {:?})", o, issued)));
        }
    } else if let Some((_, _, o)) = rec.outs.iter().find(|(_, _, o)| !matches!(o, OutOp::Set(_))) {
        out.push(Violation::new("C08", "C08.hosted.local_op_unknown", fr, format!("the hosted value downlink sent {:?}", o)));
    }
    // (b) Equivalence with the client implementation on the same scenario (N6: on the part of it sent before
    // the fault, with the hosted callbacks made before the reconnection; a racing fault leaves a prefix).
    if let Some(cl) = client {
        if !cl.step_limit && cl.panics.is_empty() {
            let c: Vec<&Cb> = cl.trace.iter().map(|(_, c)| c).collect();
            let h: Vec<&Cb> = main.iter().map(|(_, c)| c).collect();
            let n = c.len().min(h.len());
            let mut diff: Option<(usize, String)> = None;
            // A difference that is only the map snapshot handed to on_remove (same key, same old value) is
            // reported once and the comparison carries on, so that a later difference of another kind in
            // the same run is not hidden behind it.
            let mut snapshot_diff: Option<usize> = None;
            for i in 0..n {
                if c[i] != h[i] {
                    let kind = if !dltask::same_kind(c[i], h[i]) {
                        format!("client_{}_hosted_{}", cb_name(c[i]), cb_name(h[i]))
                    } else {
                        match (c[i], h[i]) {
                            (Cb::Remove { k: a, old: b, .. }, Cb::Remove { k: x, old: y, .. }) if a == x && b == y => {
                                if snapshot_diff.is_none() {
                                    snapshot_diff = Some(i);
                                }
                                continue;
                            }
                            _ => format!("{}_arguments", cb_name(c[i])),
                        }
                    };
                    diff = Some((i, kind));
                    break;
                }
            }
            if let Some(i) = snapshot_diff {
                out.push(Violation::new(
                    "C08",
                    "C08.equiv",
                    "remove_map_snapshot",
                    format!(
                        "callback #{i} differs between the implementations on the same legal script only in the map handed to on_remove: client made {:?}, hosted made {:?}; client trace {:?}; hosted trace {:?}",
                        c.get(i),
                        h.get(i),
                        c,
                        h
                    ),
                ));
            }
            if diff.is_none() && c.len() != h.len() && !(racing && h.len() < c.len()) {
                diff = Some((n, if c.len() > h.len() { format!("hosted_missing_{}", cb_name(c[n])) } else { format!("hosted_extra_{}", cb_name(h[n])) }));
            }
            // Classification: the first difference is exactly where the reference and the "drop as clear"
            // reference part, and the hosted trace follows the latter.
            if let (Some((i, _)), Some(q), true) = (diff.as_ref(), quirk.as_ref(), quirk_explains) {
                let (ep, _) = dltask::reference(sc);
                let (eq, _) = dltask::reference(q);
                let first = ep.iter().zip(eq.iter()).position(|(a, b)| a != b).unwrap_or(ep.len().min(eq.len()));
                if *i == first {
                    diff = Some((first, "drop_as_clear".to_string()));
                }
            }
            if let Some((i, kind)) = diff {
                out.push(Violation::new(
                    "C08",
                    "C08.equiv",
                    &kind,
                    format!(
                        "callback #{i} differs between the implementations on the same legal script (events_when_not_synced={} terminate_on_unlinked={}): client made {:?}, hosted made {:?}; client trace {:?}; hosted trace {:?}",
                        sc.events_when_not_synced,
                        sc.terminate_on_unlinked,
                        c.get(i),
                        h.get(i),
                        c,
                        h
                    ),
                ));
            }
        }
    }
    out
}

pub struct HostedWorld {
    pub map: bool,
}

fn build_log(rec: &HostedRecord, client: Option<&dltask::Record>, keep: bool) -> EventLog {
    let mut items: Vec<(u64, u8, usize, &'static str, String)> = vec![];
    for (i, (s, c)) in rec.trace.iter().enumerate() {
        items.push((*s, 0, i, "callback", format!("{:?}", c)));
    }
    for (i, (s, e)) in rec.events.iter().enumerate() {
        items.push((*s, 1, i, "agent", e.clone()));
    }
    for (i, (s, c, o)) in rec.outs.iter().enumerate() {
        items.push((*s, 2, i, "sent", format!("conn{c} {:?}", o)));
    }
    for (i, (s, m)) in rec.marks.iter().enumerate() {
        items.push((*s, 3, i, "mark", m.clone()));
    }
    if let Some((s, r)) = &rec.agent_end {
        items.push((*s, 4, 0, "agent-end", r.clone()));
    }
    for (i, p) in rec.panics.iter().enumerate() {
        items.push((p.step, 5, i, "panic", format!("{} {}", p.node, p.message)));
    }
    items.sort_by(|a, b| (a.0, a.1, a.2).cmp(&(b.0, b.1, b.2)));
    let mut log = EventLog::new(keep);
    for (s, _, _, k, d) in items {
        log.rec(s, k, &d);
    }
    log.rec(rec.steps, "result", &format!("fed={} connections={} requests={} refused={} end={:?} step_limit={}", rec.fed, rec.connections, rec.link_requests, rec.refused_requests, rec.agent_end, rec.step_limit));
    if rec.sc.out_fail_at().is_some() {
        log.rec(rec.steps, "result-out-fail", &format!("fired={:?} reconnected={:?} fed_after={}", rec.out_fail_step, rec.recon_after_fail, rec.fed2));
    }
    if let Some(cl) = client {
        for (s, c) in cl.trace.iter() {
            log.rec(*s, "client-cb", &format!("{:?}", c));
        }
        log.rec(cl.steps, "client-res", &format!("{:?} fed={} sent={:?}", cl.result, cl.fed, cl.out_frames));
    }
    log
}

impl World for HostedWorld {
    fn name(&self) -> &'static str {
        if self.map {
            "hosted-map"
        } else {
            "hosted-value"
        }
    }

    fn generate(&self, seed: u64, _tier: Tier) -> Json {
        serde_json::to_value(generate(seed, self.map)).unwrap()
    }

    fn execute(&self, scenario: &Json, keep_log: bool) -> Outcome {
        let sc: HostedScenario = match serde_json::from_value(scenario.clone()) {
            Ok(s) => s,
            Err(e) => return Outcome { harness_error: Some(format!("bad scenario: {e}")), ..Default::default() },
        };
        // The same base scenario on the client implementation (legal scripts only: the illegal ones are
        // explored for panics by the client world itself).
        // N6: the client has no output-channel fault; it gets what is sent before the fault point.
        let first = sc.first_part();
        let client = if sc.base.legal { Some(block_on_sim(sc.base.tokio_seed, dltask::run(&first))) } else { None };
        let rec = block_on_sim(sc.base.tokio_seed, run::run(&sc, keep_log));
        let log = build_log(&rec, client.as_ref(), keep_log);
        let violations = check(&rec, client.as_ref());
        let b = &sc.base;
        // Probes count what was sent: the part of the script before the fault, if there is one.
        let f = facts(&first);
        let second = sc.second_part().filter(|_| rec.recon_after_fail.is_some());
        let linked_at_end = second.as_ref().map(|s| facts(s).linked_at_end).unwrap_or(f.linked_at_end);
        let mut out = Outcome {
            violations,
            log_hash: log.hash(),
            log_lines: log.lines().to_vec(),
            steps: rec.steps + client.as_ref().map(|c| c.steps).unwrap_or(0),
            decisions: rec.decisions + client.as_ref().map(|c| c.decisions).unwrap_or(0),
            sim_time_ms: rec.sim_ms,
            ..Default::default()
        };
        let main = main_trace(&rec);
        out.count("notifications_fed", rec.fed as u64);
        out.count("callbacks", rec.trace.len() as u64);
        let before_reconnection = rec.recon_after_fail.map(|(_, s)| main.iter().filter(|(t, _)| *t <= s).count()).unwrap_or(main.len());
        out.count("callbacks_compared_with_client", client.as_ref().map(|_| before_reconnection).unwrap_or(0) as u64);
        out.count("equiv_runs", client.is_some() as u64);
        out.count("legal_scripts", b.legal as u64);
        out.count("illegal_scripts", !b.legal as u64);
        out.count("fragmented_runs", (b.in_cap < 4096) as u64);
        out.count("stateful_builder_runs", sc.stateful as u64);
        out.count("stateless_builder_runs", !sc.stateful as u64);
        out.count("opened_in_on_start", sc.open_on_start as u64);
        out.count("opened_by_command", !sc.open_on_start as u64);
        out.count("btree_backed_runs", sc.btree as u64);
        out.count("connections", rec.connections as u64);
        out.count("reconnects_accepted", rec.connections.saturating_sub(1) as u64);
        out.count("reconnects_refused", rec.refused_requests as u64);
        out.count("local_ops_issued", ((if b.map { sc.map_ops.len() } else { b.local_sets.len() }) + sc.out_fail_at().is_some() as usize) as u64);
        out.count("local_ops_written_to_link", rec.outs.len() as u64);
        out.count("local_ops_rejected_by_handle", rec.events.iter().filter(|(_, e)| e.ends_with("-> err")).count() as u64);
        out.count("end.eof", (sc.end == EndMode::Eof) as u64);
        out.count("end.handle_stop", (sc.end == EndMode::HandleStop) as u64);
        out.count("end.keep_open", (sc.end == EndMode::KeepOpen) as u64);
        let post_unlinked = rec.end_step.map(|e| rec.trace.iter().filter(|(s, c)| *s > e && rec.stop_step.map(|st| *s <= st).unwrap_or(true) && matches!(c, Cb::Unlinked)).count()).unwrap_or(0);
        out.count("synthetic_unlinked_after_end", post_unlinked as u64);
        out.count("synthetic_unlinked_missing", (b.legal && linked_at_end && sc.end != EndMode::KeepOpen && rec.end_step.is_some() && post_unlinked == 0) as u64);
        out.count("pings_handled", rec.events.iter().filter(|(_, e)| e.starts_with("ping")).count() as u64);
        out.count("agent_ended_ok", rec.agent_end.as_ref().map(|(_, r)| r == "Ok").unwrap_or(false) as u64);
        out.count("agent_stop_timeout", rec.agent_stop_timeout as u64);
        out.count("step_limit_hit", rec.step_limit as u64);
        if let Some((of, at)) = sc.out_fail_at() {
            let fired = rec.out_fail_step.is_some() && rec.connections > 0;
            out.count("fault.output_channel_failed", fired as u64);
            out.count("fault.output_channel_failed.settled", (fired && of.settle) as u64);
            out.count("fault.output_channel_failed.racing", (fired && !of.settle) as u64);
            out.count("reconnected_after_write_failure", rec.recon_after_fail.is_some() as u64);
            out.count("notifications_fed_after_write_failure", rec.fed2 as u64);
            out.count("callbacks_after_write_failure", rec.recon_after_fail.map(|(_, s)| main.iter().filter(|(t, _)| *t > s).count()).unwrap_or(0) as u64);
            // The runs in which an unclean reconnection would be visible: the reference fold holds local state
            // at the fault point (a settled fault: the downlink holds exactly that) / the link was up then.
            out.count("probe.write_failure_with_local_state", (fired && rec.fed >= at && f.state_at_end > 0) as u64);
            out.count("probe.write_failure_while_linked", (fired && rec.fed >= at && f.linked_at_end) as u64);
            out.count("probe.write_failure_while_unlinked", (fired && rec.fed >= at && !f.linked_at_end) as u64);
            out.count("probe.local_ops_written_after_reconnect", rec.recon_after_fail.map(|(c, _)| rec.outs.iter().filter(|(_, conn, _)| *conn >= c).count()).unwrap_or(0) as u64);
        }
        out.count("downlink_terminated_by_unlinked", (b.legal && f.terminated) as u64);
        out.count("probe.events_before_sync", b.script.iter().take_while(|n| !matches!(n, N::Synced)).filter(|n| !matches!(n, N::Linked | N::Unlinked)).count() as u64);
        out.count("probe.take_drop", b.script.iter().filter(|n| matches!(n, N::Take(_) | N::Drop(_))).count() as u64);
        out.count("probe.clear", b.script.iter().filter(|n| matches!(n, N::Clear)).count() as u64);
        out.count("probe.relink", b.script.iter().filter(|n| matches!(n, N::Linked)).count().saturating_sub(1) as u64);
        if b.legal {
            out.count("probe.drop_all_dispatched", f.drop_all_dispatched);
            out.count("probe.take_drop_on_empty_dispatched", f.drop_on_empty);
            out.count("probe.take_drop_multi_remove_dispatched", f.multi_remove);
            out.count("probe.clear_dispatched", f.clear_dispatched);
            out.count("probe.events_suppressed", f.events_suppressed);
        }
        out.nontrivial = b.script.len() > 3
            && (b.in_cap < 4096
                || b.script.iter().any(|n| matches!(n, N::Take(_) | N::Drop(_) | N::Clear))
                || !b.local_sets.is_empty()
                || !sc.map_ops.is_empty()
                || b.script.iter().filter(|n| matches!(n, N::Linked)).count() > 1
                || !b.events_when_not_synced
                || rec.connections > 1)
            || rec.recon_after_fail.is_some();
        out
    }

    fn shrink(&self, scenario: &Json) -> Vec<Json> {
        let Ok(sc) = serde_json::from_value::<HostedScenario>(scenario.clone()) else { return vec![] };
        let mut out: Vec<HostedScenario> = vec![];
        // The script, local sets, capacities and schedule: the candidates of the client world.
        let base_json = serde_json::to_value(&sc.base).unwrap();
        for cand in (DlTaskWorld { map: self.map }).shrink(&base_json) {
            if let Ok(b) = serde_json::from_value::<DtScenario>(cand) {
                let mut c = sc.clone();
                c.base = b;
                out.push(c);
            }
        }
        // The output-channel fault: without it, then with a settled fault point, then with a shorter second session.
        if let Some(of) = &sc.out_fail {
            let mut c = sc.clone();
            c.out_fail = None;
            out.push(c);
            if let Some((_, at)) = sc.out_fail_at() {
                // What lies behind the fault point is never sent.
                if at < sc.base.script.len() {
                    let mut c = sc.clone();
                    c.base.script.truncate(at);
                    out.push(c);
                }
            }
            if !of.settle {
                let mut c = sc.clone();
                c.out_fail.as_mut().unwrap().settle = true;
                out.push(c);
            }
            for i in 0..of.second.len() {
                // As for the base script: the markers stay, so the session stays legal.
                if !matches!(of.second[i], N::Linked | N::Synced | N::Unlinked) {
                    let mut c = sc.clone();
                    c.out_fail.as_mut().unwrap().second.remove(i);
                    out.push(c);
                }
            }
            if of.second.last() == Some(&N::Unlinked) {
                let mut c = sc.clone();
                c.out_fail.as_mut().unwrap().second.pop();
                out.push(c);
            }
        }
        // The knobs of the hosted side.
        if !sc.map_ops.is_empty() {
            let mut c = sc.clone();
            c.map_ops.clear();
            out.push(c);
            for i in 0..sc.map_ops.len() {
                let mut c = sc.clone();
                c.map_ops.remove(i);
                out.push(c);
            }
        }
        if sc.reconnect {
            let mut c = sc.clone();
            c.reconnect = false;
            out.push(c);
        }
        if sc.stateful {
            let mut c = sc.clone();
            c.stateful = false;
            out.push(c);
        }
        if sc.btree {
            let mut c = sc.clone();
            c.btree = false;
            out.push(c);
        }
        if !sc.open_on_start {
            let mut c = sc.clone();
            c.open_on_start = true;
            out.push(c);
        }
        if sc.end != EndMode::KeepOpen {
            let mut c = sc.clone();
            c.end = EndMode::KeepOpen;
            out.push(c);
        }
        if sc.link_delay != 0 || sc.open_delay != 0 {
            let mut c = sc.clone();
            c.link_delay = 0;
            c.open_delay = 0;
            out.push(c);
        }
        if sc.base.out_cap != 4096 {
            let mut c = sc.clone();
            c.base.out_cap = 4096;
            out.push(c);
        }
        if sc.base.budget != 64 {
            let mut c = sc.clone();
            c.base.budget = 64;
            out.push(c);
        }
        out.into_iter().map(|s| serde_json::to_value(s).unwrap()).collect()
    }

    fn rule(&self) -> String {
        "one run = one seeded notification script of the client world's generator (legal sessions linked/events/synced/events/unlinked/relink, or an arbitrary order for 'no panic'), one of the four configurations, interleaved local writes through the handle, channel capacity (whole frames or fragmented), schedule seed, executed on the client implementation AND on an agent-hosted downlink (stateless or stateful builder, opened in on_start or by a command, HashMap or BTreeMap backing, sessions on one connection or one connection per session, link ended by EOF / handle.stop() / kept open), in a minority of the legal runs that do not terminate on unlinked with the fault 'the link peer drops the reader of the output channel of the downlink at a drawn point of the script (when idle, or racing with the notifications in flight), a local write is issued afterwards, the peer serves a fresh session on the connection the agent then asks for'; \
         non-trivial = more than three notifications and at least one of: fragmented delivery, take/drop/clear, local writes, a relink, events suppressed before sync, a reconnect, or a reconnection after a write failure; distinct = distinct hash of the whole history (hosted callbacks, agent events, commands written to the link, harness marks, client callbacks)".into()
    }

    fn components(&self) -> Json {
        json!({
            "real": [
                "swimos_agent AgentModel + derive(AgentLaneModel) agent HostAgent with #[lifecycle] handlers",
                "swimos_runtime AgentRouteTask::run_agent (agent runtime, command lane IO)",
                "HandlerContext::{value_downlink_builder, map_downlink_builder, map_downlink_builder_for} stateless and stateful builders, OpenValueDownlinkAction / OpenMapDownlinkAction",
                "agent_model::downlink::hosted::{HostedValueDownlink, HostedMapDownlink, MapDlState, ValueWriteStream, MapWriteStream} incl. reconnect through the agent task (after end of stream and after DownlinkChannelError::WriteFailed: HostedDownlinkEvent::WriterFailed -> reconnect -> DownlinkChannel::connect)",
                "ValueDownlinkHandle::{set, stop}, MapDownlinkHandle::{update, remove, clear, stop}",
                "swimos_downlink::DownlinkTask over value_downlink / map_downlink models (the client side of the equivalence)",
                "swimos_agent_protocol downlink notification / map message / map operation codecs", "swimos_byte_channel"
            ],
            "stub": ["downlink runtime (link server answering LinkRequest::Downlink, scripted notification feeder, output decoder)", "remote peer sending trigger commands", "executor"],
            "not_covered": ["event downlinks (hosted/event) are not driven", "decode errors on the link (on_failed path) are not injected", "a write failure of a downlink that terminates on unlinked (the agent drops the downlink) is not injected", "a failed reconnection after a write failure (retry strategy) is not injected", "the client world does not issue local map operations, so local map writes are exercised on the hosted side only"]
        })
    }
}
