//! Executes store operations against the real stores through the public persistence traits
//! (`ServerPersistence` / `PlanePersistence` / `NodePersistence` / `RangeConsumer`), in this
//! process or in a child process that kills itself with SIGKILL.

use std::collections::BTreeMap;
use std::future::Future;
use std::io::{BufRead, Read, Write};
use std::panic::{catch_unwind, AssertUnwindSafe};
use std::path::{Path, PathBuf};
use std::process::{Command, Stdio};
use std::sync::atomic::{AtomicU64, Ordering};
use std::task::{Context, Poll};

use bytes::BytesMut;
use futures::future::BoxFuture;
use serde::{Deserialize, Serialize};
use swimos_api::error::StoreError;
use swimos_api::persistence::{NodePersistence, PlanePersistence, RangeConsumer, ServerPersistence};

use super::scenario::{Hex, Op, WARM_AGENT};

/// What the store answered. Only this (never paths, pids, timings) goes into the history.
#[derive(Serialize, Deserialize, Clone, PartialEq, Eq, Debug)]
#[serde(tag = "r")]
pub enum OpResult {
    Id { id: u64 },
    Done { id: u64 },
    /// `contract`: the buffer kept its previous content and the returned length was the number
    /// of bytes appended.
    Value { id: u64, val: Option<Hex>, contract: bool },
    Map { id: u64, entries: Vec<(Hex, Hex)> },
    Released { held: bool },
    /// path: "fresh-or-idle" (request completed at once, no handle was held), "handover" (request
    /// had to wait for the holder), "second-handle" (completed at once although a handle was held).
    Acquired { path: String },
    Abandoned { was_pending: bool },
    /// Outcome of two queued requests: "node" / "error" / "pending" each.
    Contended { first: String, second: String },
    Err { stage: String, msg: String },
    Panic { msg: String },
}

impl OpResult {
    pub fn id(&self) -> Option<u64> {
        match self {
            OpResult::Id { id } | OpResult::Done { id } | OpResult::Value { id, .. } | OpResult::Map { id, .. } => Some(*id),
            _ => None,
        }
    }
}

fn poll_once<T>(fut: &mut BoxFuture<'static, T>) -> Poll<T> {
    let waker = futures::task::noop_waker();
    let mut cx = Context::from_waker(&waker);
    fut.as_mut().poll(&mut cx)
}

fn err(stage: &str, e: StoreError) -> OpResult {
    OpResult::Err { stage: stage.to_string(), msg: format!("{e:?}") }
}

const GET_PREFIX: &[u8] = b"\xaaPRE\x00";
const MAX_MAP_ENTRIES: usize = 100_000;

/// Handles on one plane: the plane store and at most one node store per agent URI.
pub struct Session<P: PlanePersistence> {
    pub plane: P,
    pub nodes: BTreeMap<String, P::Node>,
}

impl<P: PlanePersistence> Session<P> {
    pub fn new(plane: P) -> Self {
        Session { plane, nodes: BTreeMap::new() }
    }

    fn ensure_node(&mut self, agent: &str) -> Result<(), OpResult> {
        if self.nodes.contains_key(agent) {
            return Ok(());
        }
        let mut fut = self.plane.node_store(agent);
        match poll_once(&mut fut) {
            Poll::Ready(Ok(n)) => {
                self.nodes.insert(agent.to_string(), n);
                Ok(())
            }
            Poll::Ready(Err(e)) => Err(err("node_store", e)),
            Poll::Pending => Err(OpResult::Err {
                stage: "node_store".into(),
                msg: "request is pending although no handle of this agent is held".into(),
            }),
        }
    }

    fn data_op(&mut self, op: &Op) -> OpResult {
        let agent = op.agent().expect("agent");
        let item = op.item().expect("item");
        if let Err(r) = self.ensure_node(agent) {
            return r;
        }
        let node = self.nodes.get_mut(agent).expect("node");
        let id = match node.id_for(item) {
            Ok(id) => id,
            Err(e) => return err("id_for", e),
        };
        let raw = to_u64(&id);
        match op {
            Op::IdFor { .. } => OpResult::Id { id: raw },
            Op::Put { val, .. } => match node.put_value(id, &val.0) {
                Ok(()) => OpResult::Done { id: raw },
                Err(e) => err("put_value", e),
            },
            Op::Get { .. } => {
                let mut buf = BytesMut::new();
                buf.extend_from_slice(GET_PREFIX);
                match node.get_value(id, &mut buf) {
                    Ok(Some(n)) => {
                        let kept = buf.len() >= GET_PREFIX.len() && &buf[..GET_PREFIX.len()] == GET_PREFIX;
                        let contract = kept && buf.len() - GET_PREFIX.len() == n;
                        let val = if kept { buf[GET_PREFIX.len()..].to_vec() } else { buf.to_vec() };
                        OpResult::Value { id: raw, val: Some(Hex(val)), contract }
                    }
                    Ok(None) => OpResult::Value { id: raw, val: None, contract: buf.as_ref() == GET_PREFIX },
                    Err(e) => err("get_value", e),
                }
            }
            Op::Delete { .. } => match node.delete_value(id) {
                Ok(()) => OpResult::Done { id: raw },
                Err(e) => err("delete_value", e),
            },
            Op::Update { key, val, .. } => match node.update_map(id, &key.0, &val.0) {
                Ok(()) => OpResult::Done { id: raw },
                Err(e) => err("update_map", e),
            },
            Op::Remove { key, .. } => match node.remove_map(id, &key.0) {
                Ok(()) => OpResult::Done { id: raw },
                Err(e) => err("remove_map", e),
            },
            Op::Clear { .. } => match node.clear_map(id) {
                Ok(()) => OpResult::Done { id: raw },
                Err(e) => err("clear_map", e),
            },
            Op::ReadMap { .. } => {
                let mut entries = vec![];
                let mut con = match node.read_map(id) {
                    Ok(c) => c,
                    Err(e) => return err("read_map", e),
                };
                loop {
                    match con.consume_next() {
                        Ok(Some((k, v))) => {
                            entries.push((Hex(k.to_vec()), Hex(v.to_vec())));
                            if entries.len() > MAX_MAP_ENTRIES {
                                return OpResult::Err { stage: "consume_next".into(), msg: "range consumer does not terminate".into() };
                            }
                        }
                        Ok(None) => break,
                        Err(e) => return err("consume_next", e),
                    }
                }
                OpResult::Map { id: raw, entries }
            }
            _ => unreachable!(),
        }
    }

    fn apply_inner(&mut self, op: &Op) -> OpResult {
        match op {
            Op::ReleaseNode { agent } => OpResult::Released { held: self.nodes.remove(agent).is_some() },
            Op::ReacquireNode { agent } => {
                let held = self.nodes.contains_key(agent);
                let mut fut = self.plane.node_store(agent);
                match poll_once(&mut fut) {
                    Poll::Ready(Ok(n)) => {
                        // The previous handle (if any) is dropped after the new one exists.
                        let old = self.nodes.insert(agent.clone(), n);
                        drop(old);
                        OpResult::Acquired { path: if held { "second-handle" } else { "fresh-or-idle" }.into() }
                    }
                    Poll::Ready(Err(e)) => err("node_store", e),
                    Poll::Pending => {
                        if let Some(old) = self.nodes.remove(agent) {
                            drop(old);
                        } else {
                            return OpResult::Err { stage: "node_store".into(), msg: "request is pending although no handle of this agent is held".into() };
                        }
                        match poll_once(&mut fut) {
                            Poll::Ready(Ok(n)) => {
                                self.nodes.insert(agent.clone(), n);
                                OpResult::Acquired { path: "handover".into() }
                            }
                            Poll::Ready(Err(e)) => err("node_store_handover", e),
                            Poll::Pending => OpResult::Err { stage: "node_store_handover".into(), msg: "request still pending after the holder released".into() },
                        }
                    }
                }
            }
            Op::AbandonRequest { agent } => {
                if let Err(r) = self.ensure_node(agent) {
                    return r;
                }
                let mut fut = self.plane.node_store(agent);
                let was_pending = match poll_once(&mut fut) {
                    Poll::Pending => true,
                    // A second handle: dropped again at once.
                    Poll::Ready(Ok(_n)) => false,
                    Poll::Ready(Err(e)) => return err("node_store", e),
                };
                drop(fut);
                OpResult::Abandoned { was_pending }
            }
            Op::AbandonAfterRelease { agent } => {
                if let Err(r) = self.ensure_node(agent) {
                    return r;
                }
                let mut fut = self.plane.node_store(agent);
                let was_pending = match poll_once(&mut fut) {
                    Poll::Pending => true,
                    Poll::Ready(Ok(_n)) => false,
                    Poll::Ready(Err(e)) => return err("node_store", e),
                };
                // The holder goes away: its state travels to the waiting request ...
                drop(self.nodes.remove(agent));
                // ... which is given up without another poll.
                drop(fut);
                OpResult::Abandoned { was_pending }
            }
            Op::ContendRequests { agent } => {
                if let Err(r) = self.ensure_node(agent) {
                    return r;
                }
                let mut f1 = self.plane.node_store(agent);
                let p1 = poll_once(&mut f1);
                let mut f2 = self.plane.node_store(agent);
                let p2 = poll_once(&mut f2);
                drop(self.nodes.remove(agent));
                let mut got: Vec<P::Node> = vec![];
                let mut label = |first: Poll<Result<P::Node, StoreError>>, fut: &mut BoxFuture<'static, Result<P::Node, StoreError>>| {
                    let p = if first.is_pending() { poll_once(fut) } else { first };
                    match p {
                        Poll::Ready(Ok(n)) => {
                            got.push(n);
                            "node"
                        }
                        Poll::Ready(Err(_)) => "error",
                        Poll::Pending => "pending",
                    }
                };
                let first = label(p1, &mut f1).to_string();
                let second = label(p2, &mut f2).to_string();
                // Keep the last handle obtained (the others are dropped first).
                if let Some(n) = got.pop() {
                    got.clear();
                    self.nodes.insert(agent.clone(), n);
                }
                OpResult::Contended { first, second }
            }
            Op::Reopen | Op::Kill => OpResult::Err { stage: "harness".into(), msg: "boundary inside a session".into() },
            _ => self.data_op(op),
        }
    }

    /// Applies one operation; a panic of the store is caught and reported.
    pub fn apply(&mut self, op: &Op) -> OpResult {
        match catch_unwind(AssertUnwindSafe(|| self.apply_inner(op))) {
            Ok(r) => r,
            Err(p) => OpResult::Panic { msg: panic_text(p) },
        }
    }

    /// Registers `n` throw-away names; returns their ids.
    pub fn warmup(&mut self, n: u32) -> Result<Vec<u64>, OpResult> {
        let mut ids = Vec::with_capacity(n as usize);
        let r = catch_unwind(AssertUnwindSafe(|| -> Result<(), OpResult> {
            self.ensure_node(WARM_AGENT)?;
            let node = self.nodes.get(WARM_AGENT).expect("node");
            for i in 0..n {
                match node.id_for(&format!("w{i}")) {
                    Ok(id) => ids.push(to_u64(&id)),
                    Err(e) => return Err(err("id_for", e)),
                }
            }
            Ok(())
        }));
        match r {
            Ok(Ok(())) => Ok(ids),
            Ok(Err(e)) => Err(e),
            Err(p) => Err(OpResult::Panic { msg: panic_text(p) }),
        }
    }
}

fn panic_text(p: Box<dyn std::any::Any + Send>) -> String {
    if let Some(s) = p.downcast_ref::<&str>() {
        s.to_string()
    } else if let Some(s) = p.downcast_ref::<String>() {
        s.clone()
    } else {
        "panic".to_string()
    }
}

/// Both stores use `u64` lane ids; the trait only promises `Debug + Copy + Eq`, so the id is
/// recovered through `Debug`.
fn to_u64<I: std::fmt::Debug>(id: &I) -> u64 {
    format!("{:?}", id).parse::<u64>().unwrap_or(u64::MAX)
}

/// Type-erased session (the RocksDB store type is `impl ServerPersistence`).
pub trait DynSession {
    fn apply(&mut self, op: &Op) -> OpResult;
    fn warmup(&mut self, n: u32) -> Result<Vec<u64>, OpResult>;
    fn held(&self, agent: &str) -> bool;
}

impl<P: PlanePersistence> DynSession for Session<P> {
    fn apply(&mut self, op: &Op) -> OpResult {
        Session::apply(self, op)
    }
    fn warmup(&mut self, n: u32) -> Result<Vec<u64>, OpResult> {
        Session::warmup(self, n)
    }
    fn held(&self, agent: &str) -> bool {
        self.nodes.contains_key(agent)
    }
}

/// A server store plus the handles obtained from it. Field order = drop order: nodes and plane
/// first, the server last.
struct ServerSession<S: ServerPersistence> {
    session: Session<S::PlaneStore>,
    _server: S,
}

impl<S: ServerPersistence> DynSession for ServerSession<S> {
    fn apply(&mut self, op: &Op) -> OpResult {
        self.session.apply(op)
    }
    fn warmup(&mut self, n: u32) -> Result<Vec<u64>, OpResult> {
        self.session.warmup(n)
    }
    fn held(&self, agent: &str) -> bool {
        self.session.nodes.contains_key(agent)
    }
}

fn boxed<S: ServerPersistence + 'static>(server: S, plane: &str) -> Result<Box<dyn DynSession>, String> {
    let p = server.open_plane(plane).map_err(|e| format!("open_plane: {e:?}"))?;
    Ok(Box::new(ServerSession { session: Session::new(p), _server: server }))
}

/// Opens (or creates) the RocksDB store in `dir` through the product's entry point.
pub fn open_rocks(dir: &Path, plane: &str) -> Result<Box<dyn DynSession>, String> {
    let r = catch_unwind(AssertUnwindSafe(|| {
        // The plane's name decides which of the two public option sets is used (`default_db_opts()` is what the server
        // uses, `RocksOpts::default()` the other one the crate offers); writer, child writer and reopen agree.
        let opts = if plane.ends_with('o') { swimos_rocks_store::RocksOpts::default() } else { swimos_rocks_store::default_db_opts() };
        let server = swimos_rocks_store::open_rocks_store(Some(dir.to_path_buf()), opts).map_err(|e| format!("open_rocks_store: {e:?}"))?;
        boxed(server, plane)
    }));
    match r {
        Ok(r) => r,
        Err(p) => Err(format!("panic while opening: {}", panic_text(p))),
    }
}

pub fn open_mem() -> Box<dyn DynSession> {
    Box::new(Session::new(super::mem::in_memory_store::InMemoryPlanePersistence::default()))
}

// ---------------------------------------------------------------------------------------------
// Scratch directories

static SCRATCH_N: AtomicU64 = AtomicU64::new(0);

/// A scratch directory that is removed when the guard is dropped.
pub struct Scratch(pub PathBuf);

impl Scratch {
    pub fn new() -> std::io::Result<Scratch> {
        let root = std::env::var("VERIF_SCRATCH").map(PathBuf::from).unwrap_or_else(|_| std::env::temp_dir());
        std::fs::create_dir_all(&root)?;
        let n = SCRATCH_N.fetch_add(1, Ordering::Relaxed);
        let p = root.join(format!("simctl-store-{}-{}", std::process::id(), n));
        let _ = std::fs::remove_dir_all(&p);
        Ok(Scratch(p))
    }
}

impl Drop for Scratch {
    fn drop(&mut self) {
        let _ = std::fs::remove_dir_all(&self.0);
    }
}

// ---------------------------------------------------------------------------------------------
// Child process: runs a segment of operations and kills itself.

#[derive(Serialize, Deserialize, Clone, Debug)]
pub struct ChildJob {
    pub dir: String,
    pub plane: String,
    pub warmup: u32,
    pub ops: Vec<Op>,
}

#[derive(Serialize, Deserialize, Clone, Debug)]
#[serde(tag = "line")]
pub enum ChildLine {
    OpenErr { msg: String },
    Warm { ids: Vec<u64> },
    WarmErr { result: OpResult },
    Res { result: OpResult },
}

/// How the child ended.
#[derive(Clone, Debug, PartialEq, Eq)]
pub struct ChildEnd {
    pub signal: Option<i32>,
    pub code: Option<i32>,
}

pub struct ChildOutput {
    pub open_err: Option<String>,
    pub warm: Option<Result<Vec<u64>, OpResult>>,
    pub results: Vec<OpResult>,
    pub end: ChildEnd,
}

/// Entry point of `simctl store-child`: job on stdin, one acknowledgement line per operation on
/// stdout (flushed before the next operation starts), then SIGKILL to itself.
pub fn child_main() -> ! {
    let mut input = String::new();
    let _ = std::io::stdin().read_to_string(&mut input);
    let job: ChildJob = match serde_json::from_str(&input) {
        Ok(j) => j,
        Err(_) => std::process::exit(4),
    };
    let out = std::io::stdout();
    let ack = |line: &ChildLine| {
        let mut o = out.lock();
        let _ = writeln!(o, "{}", serde_json::to_string(line).unwrap());
        let _ = o.flush();
    };
    let mut session = match open_rocks(Path::new(&job.dir), &job.plane) {
        Ok(s) => s,
        Err(msg) => {
            ack(&ChildLine::OpenErr { msg });
            std::process::exit(3);
        }
    };
    if job.warmup > 0 {
        match session.warmup(job.warmup) {
            Ok(ids) => ack(&ChildLine::Warm { ids }),
            Err(result) => {
                ack(&ChildLine::WarmErr { result });
                std::process::exit(3);
            }
        }
    }
    for op in &job.ops {
        let result = session.apply(op);
        ack(&ChildLine::Res { result });
    }
    // Killed at an operation boundary: no destructor, no flush, no clean shutdown of RocksDB
    // (its background threads die with the process).
    unsafe {
        libc::kill(libc::getpid(), libc::SIGKILL);
    }
    loop {
        std::thread::sleep(std::time::Duration::from_secs(1));
    }
}

pub fn run_child(job: &ChildJob) -> Result<ChildOutput, String> {
    use std::os::unix::process::ExitStatusExt;
    let exe = crate::core::runner::self_exe()?;
    let mut child = Command::new(exe)
        .arg("store-child")
        .stdin(Stdio::piped())
        .stdout(Stdio::piped())
        .stderr(Stdio::null())
        .spawn()
        .map_err(|e| format!("spawn: {e}"))?;
    {
        let mut stdin = child.stdin.take().ok_or("no stdin")?;
        stdin
            .write_all(serde_json::to_string(job).unwrap().as_bytes())
            .map_err(|e| format!("write job: {e}"))?;
    }
    let stdout = child.stdout.take().ok_or("no stdout")?;
    let mut out = ChildOutput { open_err: None, warm: None, results: vec![], end: ChildEnd { signal: None, code: None } };
    for line in std::io::BufReader::new(stdout).lines() {
        let line = line.map_err(|e| format!("read ack: {e}"))?;
        match serde_json::from_str::<ChildLine>(&line) {
            Ok(ChildLine::OpenErr { msg }) => out.open_err = Some(msg),
            Ok(ChildLine::Warm { ids }) => out.warm = Some(Ok(ids)),
            Ok(ChildLine::WarmErr { result }) => out.warm = Some(Err(result)),
            Ok(ChildLine::Res { result }) => out.results.push(result),
            Err(e) => return Err(format!("bad ack line {line:?}: {e}")),
        }
    }
    let status = child.wait().map_err(|e| format!("wait: {e}"))?;
    out.end = ChildEnd { signal: status.signal(), code: status.code() };
    Ok(out)
}

/// Polls a future once with a no-op waker (used by tests of the harness itself).
pub fn ready_now<F: Future + Unpin>(mut f: F) -> Option<F::Output> {
    let waker = futures::task::noop_waker();
    let mut cx = Context::from_waker(&waker);
    match std::pin::Pin::new(&mut f).poll(&mut cx) {
        Poll::Ready(v) => Some(v),
        Poll::Pending => None,
    }
}
