//! World `store` (C13): the in-memory store and the RocksDB store behave as isolated per-agent,
//! per-item value / map storage, across handle hand-over ("mem") and across reopen and SIGKILL of
//! the writing process ("rocks").
//!
//! Real code: `swimos_rocks_store::open_rocks_store` (+ real RocksDB, real files) and the
//! in-memory store of `swimos_server_app`, both driven only through the public traits of
//! `swimos_api::persistence`. Nothing is asynchronous here except `PlanePersistence::node_store`,
//! whose future is polled by hand with a no-op waker (the in-memory hand-over uses a oneshot
//! channel, no runtime is needed).

pub mod exec;
pub mod mem;
pub mod model;
pub mod scenario;

use std::collections::{BTreeMap, BTreeSet};

use serde_json::{json, Value as Json};

use crate::core::log::EventLog;
use crate::core::{Outcome, Tier, World};

use exec::{ChildJob, DynSession, OpResult, Scratch};
use model::Model;
use scenario::{hex, Op, Seq, StoreScenario, WARM_AGENT};

pub use exec::child_main;

pub struct StoreWorld {
    /// "mem" or "rocks".
    pub kind: &'static str,
    pub name: &'static str,
}

fn fmt_op(op: &Op) -> String {
    match op {
        Op::IdFor { agent, item } => format!("id_for {agent:?} {item:?}"),
        Op::Put { agent, item, val } => format!("put {agent:?} {item:?} {}", hex(&val.0)),
        Op::Get { agent, item } => format!("get {agent:?} {item:?}"),
        Op::Delete { agent, item } => format!("delete {agent:?} {item:?}"),
        Op::Update { agent, item, key, val } => format!("update {agent:?} {item:?} [{}]={}", hex(&key.0), hex(&val.0)),
        Op::Remove { agent, item, key } => format!("remove {agent:?} {item:?} [{}]", hex(&key.0)),
        Op::Clear { agent, item } => format!("clear {agent:?} {item:?}"),
        Op::ReadMap { agent, item } => format!("read_map {agent:?} {item:?}"),
        Op::ReleaseNode { agent } => format!("release {agent:?}"),
        Op::ReacquireNode { agent } => format!("reacquire {agent:?}"),
        Op::AbandonRequest { agent } => format!("abandon_request {agent:?}"),
        Op::ContendRequests { agent } => format!("contend_requests {agent:?}"),
        Op::AbandonAfterRelease { agent } => format!("abandon_after_release {agent:?}"),
        Op::Reopen => "reopen".into(),
        Op::Kill => "kill".into(),
    }
}

/// Only the store's answer: never messages that could contain paths or pids.
fn fmt_res(res: &OpResult) -> String {
    match res {
        OpResult::Id { id } => format!("id={id}"),
        OpResult::Done { id } => format!("ok id={id}"),
        OpResult::Value { id, val, contract } => format!(
            "id={id} {}{}",
            val.as_ref().map(|v| format!("Some({})", hex(&v.0))).unwrap_or_else(|| "None".into()),
            if *contract { "" } else { " BUFFER-CONTRACT-BROKEN" }
        ),
        OpResult::Map { id, entries } => {
            let parts: Vec<String> = entries.iter().map(|(k, v)| format!("{}={}", hex(&k.0), hex(&v.0))).collect();
            format!("id={id} [{}]", parts.join(","))
        }
        OpResult::Released { held } => format!("released held={held}"),
        OpResult::Acquired { path } => format!("acquired {path}"),
        OpResult::Abandoned { was_pending } => format!("abandoned pending={was_pending}"),
        OpResult::Contended { first, second } => format!("contended {first}/{second}"),
        OpResult::Err { stage, .. } => format!("ERR {stage}"),
        OpResult::Panic { .. } => "PANIC".into(),
    }
}

struct Run {
    log: EventLog,
    step: u64,
    out: Outcome,
}

impl Run {
    fn rec(&mut self, kind: &str, detail: &str) {
        self.log.rec(self.step, kind, detail);
        self.step += 1;
    }

    /// Records one executed operation and lets the oracle see it.
    fn feed(&mut self, model: &mut Model, si: usize, oi: Option<usize>, wher: &str, op: &Op, res: &OpResult) {
        self.rec(wher, &format!("s{si} {} -> {}", fmt_op(op), fmt_res(res)));
        let ctx = match oi {
            Some(oi) => format!("seq {si} op {oi} [{}] {}", wher, fmt_op(op)),
            None => format!("seq {si} [{}] {}", wher, fmt_op(op)),
        };
        model.observe(op, res, &ctx);
        if oi.is_some() {
            self.out.count(&format!("op.{}", op.kind()), 1);
        } else {
            self.out.count("audit_reads", 1);
        }
    }

    fn audit(&mut self, model: &mut Model, session: &mut dyn DynSession, si: usize, only_agent: Option<&str>) {
        if model.dead {
            return;
        }
        self.out.count("audits", 1);
        for op in model.audit_ops(only_agent) {
            if op.agent() == Some(WARM_AGENT) {
                continue;
            }
            let res = session.apply(&op);
            self.feed(model, si, None, "audit", &op, &res);
            if model.dead {
                break;
            }
        }
    }
}

fn static_counters(out: &mut Outcome, seq: &Seq) -> bool {
    let mut used: BTreeSet<(String, String)> = BTreeSet::new();
    let mut keys: BTreeMap<(String, String), BTreeSet<Vec<u8>>> = BTreeMap::new();
    let mut adversarial = 0;
    for op in &seq.ops {
        if let (Some(a), Some(i)) = (op.agent(), op.item()) {
            used.insert((a.to_string(), i.to_string()));
            let mut hit = scenario::adversarial_bytes(a.as_bytes()) || scenario::adversarial_bytes(i.as_bytes()) || i.contains('/');
            if let Some(k) = op.key() {
                hit |= scenario::adversarial_bytes(k);
                keys.entry((a.to_string(), i.to_string())).or_default().insert(k.to_vec());
            }
            if hit {
                adversarial += 1;
            }
        }
    }
    let (textual, prefix) = scenario::collision_candidates(&used);
    let mut key_prefix_pairs = 0;
    for ks in keys.values() {
        let v: Vec<&Vec<u8>> = ks.iter().collect();
        for i in 0..v.len() {
            for j in (i + 1)..v.len() {
                if v[j].starts_with(v[i]) || v[i].starts_with(v[j]) {
                    key_prefix_pairs += 1;
                }
            }
        }
    }
    out.count("adversarial_name_hits", adversarial);
    out.count("collision_pairs_used.textual", textual);
    out.count("collision_pairs_used.item_prefix", prefix);
    out.count("prefix_key_pairs", key_prefix_pairs);
    textual + prefix > 0
}

fn sync_held(model: &mut Model, session: &dyn DynSession, op: &Op) {
    if let Some(a) = op.agent() {
        if session.held(a) {
            model.held.insert(a.to_string());
        } else {
            model.held.remove(a);
        }
    }
}

fn run_mem_seq(run: &mut Run, si: usize, seq: &Seq) -> Model {
    let mut model = Model::new(false);
    let mut session = exec::open_mem();
    run.rec("open", &format!("s{si} mem"));
    for (oi, op) in seq.ops.iter().enumerate() {
        let res = session.apply(op);
        run.feed(&mut model, si, Some(oi), "op", op, &res);
        sync_held(&mut model, session.as_ref(), op);
        if model.dead {
            break;
        }
        // After the handle changed hands the whole state of the agent is observed.
        if matches!(op, Op::ReacquireNode { .. } | Op::ContendRequests { .. } | Op::AbandonRequest { .. }) {
            if let Some(a) = op.agent() {
                if session.held(a) {
                    run.audit(&mut model, session.as_mut(), si, Some(a));
                }
            }
        }
    }
    run.audit(&mut model, session.as_mut(), si, None);
    model
}

fn run_rocks_seq(run: &mut Run, si: usize, seq: &Seq) -> Result<Model, String> {
    let mut model = Model::new(true);
    let scratch = Scratch::new().map_err(|e| format!("scratch dir: {e}"))?;
    let dir = scratch.0.clone();
    let mut session: Option<Box<dyn DynSession>> = None;
    let mut pending_audit = false;
    let mut ops_since_audit = true;
    let mut warm_left = seq.warmup;
    let ops = &seq.ops;

    // Opens the store in this process; an error is a violation (a legal open failed).
    fn open_here(run: &mut Run, model: &mut Model, si: usize, dir: &std::path::Path, plane: &str) -> Option<Box<dyn DynSession>> {
        match exec::open_rocks(dir, plane) {
            Ok(s) => {
                run.rec("open", &format!("s{si} rocks ok"));
                Some(s)
            }
            Err(msg) => {
                run.rec("open", &format!("s{si} rocks ERR"));
                model.violations.push(crate::core::Violation::new(
                    "C13",
                    "C13.no_error",
                    "open",
                    format!("seq {si}: opening the store failed: {msg}"),
                ));
                model.dead = true;
                None
            }
        }
    }

    let mut i = 0;
    while i <= ops.len() && !model.dead {
        let seg_end = (i..ops.len()).find(|j| ops[*j].is_boundary()).unwrap_or(ops.len());
        let is_child = seg_end < ops.len() && matches!(ops[seg_end], Op::Kill);
        if is_child {
            if pending_audit {
                if let Some(mut s) = open_here(run, &mut model, si, &dir, &seq.plane) {
                    run.audit(&mut model, s.as_mut(), si, None);
                    drop(s);
                    run.rec("close", &format!("s{si}"));
                }
                pending_audit = false;
                if model.dead {
                    break;
                }
            }
            debug_assert!(session.is_none());
            let job = ChildJob {
                dir: dir.to_string_lossy().to_string(),
                plane: seq.plane.clone(),
                warmup: warm_left,
                ops: ops[i..seg_end].to_vec(),
            };
            let co = exec::run_child(&job)?;
            run.out.count("child_processes", 1);
            if let Some(msg) = co.open_err {
                run.rec("child", &format!("s{si} open ERR"));
                model.violations.push(crate::core::Violation::new("C13", "C13.no_error", "open", format!("seq {si}: opening the store in the child failed: {msg}")));
                model.dead = true;
                break;
            }
            run.rec("child", &format!("s{si} open ok"));
            if warm_left > 0 {
                match co.warm {
                    Some(Ok(ids)) => {
                        run.rec("warmup", &format!("s{si} n={} last={:?}", ids.len(), ids.last()));
                        model.warm_ids(WARM_AGENT, &ids, &format!("seq {si} warm-up"));
                    }
                    Some(Err(r)) => {
                        run.rec("warmup", &format!("s{si} {}", fmt_res(&r)));
                        model.observe(&Op::IdFor { agent: WARM_AGENT.into(), item: "w".into() }, &r, &format!("seq {si} warm-up"));
                        model.dead = true;
                        break;
                    }
                    None => {}
                }
                warm_left = 0;
            }
            for (k, res) in co.results.iter().enumerate() {
                if k >= job.ops.len() {
                    break;
                }
                run.feed(&mut model, si, Some(i + k), "child", &job.ops[k], res);
                run.out.count("child_ops", 1);
            }
            if co.results.len() < job.ops.len() && !model.dead {
                run.rec("child", &format!("s{si} died early"));
                model.violations.push(crate::core::Violation::new(
                    "C13",
                    "C13.no_panic",
                    "child_died",
                    format!("seq {si}: the writer process ended by itself after {} of {} operations ({:?})", co.results.len(), job.ops.len(), co.end),
                ));
                model.dead = true;
                break;
            }
            if !model.dead && co.end.signal != Some(libc::SIGKILL) {
                return Err(format!("child was not killed by SIGKILL: {:?}", co.end));
            }
            run.rec("kill", &format!("s{si} SIGKILL after {} acknowledged ops", job.ops.len()));
            run.out.count("kill_fired", 1);
            model.boundary("kill");
            pending_audit = true;
            ops_since_audit = true;
        } else {
            if session.is_none() {
                session = open_here(run, &mut model, si, &dir, &seq.plane);
                if session.is_none() {
                    break;
                }
            }
            let s = session.as_mut().unwrap();
            if warm_left > 0 {
                match s.warmup(warm_left) {
                    Ok(ids) => {
                        run.rec("warmup", &format!("s{si} n={} last={:?}", ids.len(), ids.last()));
                        model.warm_ids(WARM_AGENT, &ids, &format!("seq {si} warm-up"));
                    }
                    Err(r) => {
                        run.rec("warmup", &format!("s{si} {}", fmt_res(&r)));
                        model.observe(&Op::IdFor { agent: WARM_AGENT.into(), item: "w".into() }, &r, &format!("seq {si} warm-up"));
                        model.dead = true;
                        break;
                    }
                }
                warm_left = 0;
            }
            if pending_audit {
                run.audit(&mut model, s.as_mut(), si, None);
                pending_audit = false;
                ops_since_audit = false;
            }
            for (k, op) in ops[i..seg_end].iter().enumerate() {
                if model.dead {
                    break;
                }
                ops_since_audit = true;
                let res = s.apply(op);
                run.feed(&mut model, si, Some(i + k), "op", op, &res);
                sync_held(&mut model, s.as_ref(), op);
            }
            if seg_end < ops.len() && !model.dead {
                // Reopen: every handle is dropped (clean close), the directory is opened again lazily.
                session = None;
                run.rec("reopen", &format!("s{si} all handles dropped"));
                run.out.count("reopen_fired", 1);
                model.boundary("reopen");
                pending_audit = true;
                ops_since_audit = true;
            }
        }
        i = seg_end + 1;
    }
    // Final audit of everything the model knows.
    if !model.dead && (ops_since_audit || pending_audit) {
        if session.is_none() {
            session = open_here(run, &mut model, si, &dir, &seq.plane);
        }
        if let Some(s) = session.as_mut() {
            run.audit(&mut model, s.as_mut(), si, None);
        }
    }
    drop(session);
    drop(scratch);
    Ok(model)
}

impl World for StoreWorld {
    fn name(&self) -> &'static str {
        self.name
    }

    fn generate(&self, seed: u64, tier: Tier) -> Json {
        serde_json::to_value(scenario::generate(seed, self.kind, tier)).unwrap()
    }

    fn execute(&self, scenario: &Json, keep_log: bool) -> Outcome {
        let sc: StoreScenario = match serde_json::from_value(scenario.clone()) {
            Ok(s) => s,
            Err(e) => return Outcome { harness_error: Some(format!("bad scenario: {e}")), ..Default::default() },
        };
        if let Err(e) = scenario::validate(&sc) {
            return Outcome { harness_error: Some(format!("illegal scenario: {e}")), ..Default::default() };
        }
        let mut run = Run { log: EventLog::new(keep_log), step: 0, out: Outcome::default() };
        let mut nontrivial = false;
        for (si, seq) in sc.seqs.iter().enumerate() {
            nontrivial |= static_counters(&mut run.out, seq);
            let model = if sc.kind == "mem" {
                run_mem_seq(&mut run, si, seq)
            } else {
                match run_rocks_seq(&mut run, si, seq) {
                    Ok(m) => m,
                    Err(e) => {
                        run.out.harness_error = Some(e);
                        break;
                    }
                }
            };
            run.out.count("maps_read", model.maps_read);
            run.out.count("entries_compared", model.entries_compared);
            run.out.count("values_compared", model.values_compared);
            run.out.count("ids_compared", model.ids_compared);
            run.out.count("release_reacquire_fired", model.release_reacquire_fired);
            run.out.count("handover_fired", model.handover_fired);
            run.out.count("abandon_fired", model.abandon_fired);
            run.out.count("contend_fired", model.contend_fired);
            run.out.count("sequences", 1);
            run.out.count("sequences_cut_short", model.dead as u64);
            run.out.violations.extend(model.violations);
        }
        let c = |k: &str| run.out.counters.get(k).copied().unwrap_or(0);
        nontrivial |= c("reopen_fired") + c("kill_fired") + c("release_reacquire_fired") > 0;
        let mut out = run.out;
        out.nontrivial = nontrivial;
        out.steps = run.step;
        out.log_hash = run.log.hash();
        out.log_lines = run.log.lines().to_vec();
        out
    }

    fn shrink(&self, scenario: &Json) -> Vec<Json> {
        let Ok(sc) = serde_json::from_value::<StoreScenario>(scenario.clone()) else { return vec![] };
        scenario::shrink(&sc)
            .into_iter()
            .filter(|s| scenario::validate(s).is_ok())
            .map(|s| serde_json::to_value(s).unwrap())
            .collect()
    }

    fn rule(&self) -> String {
        let batch = if self.kind == "mem" {
            "one run = a batch of 32 independent seeded sequences on fresh in-memory planes"
        } else {
            "one run = one seeded sequence on a fresh RocksDB directory"
        };
        format!(
            "{batch}; a sequence = 4..60 explicit operations (id_for/put/get/delete/update/remove/clear/read_map) over 1-3 agent URIs x 1-4 item names \
             drawn from adversarial pools (empty, shared prefixes, '/' placed so that agent/item concatenations coincide, NUL and U+00FF, lengths 7/8/9/16/17/18), \
             map keys with 0x00/0xFF, prefixes of each other and lengths around 8/16, values with a unique tail; each (agent,item) is consistently a value or a map; \
             mem: release/reacquire (idle), reacquire while held (InUse hand-over), abandoned and contending requests; \
             rocks: Reopen markers (all handles dropped, same directory opened again), Kill markers (the operations since the previous marker run in a child process \
             that SIGKILLs itself right after the last one was acknowledged) and an id warm-up of 0..300 names; after every marker / hand-over and at the end every \
             item known to the model is read back (audit). non-trivial = at least one reopen, kill or release/reacquire fired, or two (agent,item) names that are \
             collision candidates (equal 'agent/item' text, or item names prefixing each other in one agent) were both used; distinct = distinct hash of the recorded \
             history (operations and the store's answers incl. ids)"
        )
    }

    fn components(&self) -> Json {
        if self.kind == "mem" {
            json!({
                "real": ["swimos_server_app in_memory_store (InMemoryPlanePersistence / InMemoryNodePersistence incl. Drop hand-over), compiled from its source file by #[path]",
                         "swimos_api::persistence traits", "tokio::sync::oneshot (hand-over of the node state)"],
                "stub": ["no server around the store: the harness plays the agents that take and return node stores; the node_store future is polled by hand (no runtime)",
                         "swimos_server_app::in_memory::InMemoryPersistence (ServerPersistence: a HashMap of planes) is not exercised, the plane store is created directly"]
            })
        } else {
            json!({
                "real": ["swimos_rocks_store::open_rocks_store / default_db_opts, ServerStore, SwimPlaneStore, KeyStore, SwimNodeStore, StoreWrapper, RocksEngine, prefix iterator",
                         "RocksDB 8.10 (librocksdb-sys) incl. its background threads, WAL and files on the real file system (NOT simulated: real time, real I/O)",
                         "process kill: a real child process (simctl store-child) that sends SIGKILL to itself; the parent reopens the directory"],
                "stub": ["no server / agents: the harness calls the persistence traits directly", "kill points are operation boundaries only (no kill inside id_for between counter merge and name mapping; no power loss: the page cache survives SIGKILL)"]
            })
        }
    }
}
