//! The in-memory store of `swimos_server_app` is a private module of its crate
//! (`mod in_memory_store;`), so the real source file is compiled into the harness by path.
//! Nothing is copied; the file depends only on bytes, futures, parking_lot, swimos_api and tokio's
//! oneshot channel. Its `#[cfg(test)] mod tests;` is inactive in a non-test build.

#[path = "/repo/server/swimos_server_app/src/in_memory_store/mod.rs"]
pub mod in_memory_store;
