//! Reference model of C13 and its oracles.
//!
//! Model: `(agent, item) -> Value(Option<bytes>) | Map(BTreeMap<bytes, bytes>)` plus the id that
//! was first reported for every (agent, item). Every acknowledged operation is applied to the
//! model; every answer of the store is compared with it.

use std::collections::{BTreeMap, BTreeSet};

use crate::core::Violation;

use super::exec::OpResult;
use super::scenario::{hex, Hex, Op};

#[derive(Clone, Debug, PartialEq, Eq)]
pub enum Item {
    Value(Option<Vec<u8>>),
    Map(BTreeMap<Vec<u8>, Vec<u8>>),
}

#[derive(Default)]
pub struct Model {
    pub rocks: bool,
    pub items: BTreeMap<(String, String), Item>,
    pub ids: BTreeMap<(String, String), u64>,
    /// Items not touched since the last reopen / kill (a mismatch there is a durability failure).
    untouched_since_boundary: BTreeSet<(String, String)>,
    last_boundary: Option<&'static str>,
    /// Which agents hold a handle according to the operations so far.
    pub held: BTreeSet<String>,
    pub violations: Vec<Violation>,
    pub maps_read: u64,
    pub entries_compared: u64,
    pub values_compared: u64,
    pub ids_compared: u64,
    pub handover_fired: u64,
    pub release_reacquire_fired: u64,
    pub abandon_fired: u64,
    pub contend_fired: u64,
    /// Set when the store panicked / the session is unusable: the rest of the sequence is skipped.
    pub dead: bool,
}

const P: &str = "C13";

fn show(v: &Option<Vec<u8>>) -> String {
    match v {
        None => "None".into(),
        Some(b) => format!("Some({})", hex(b)),
    }
}

fn show_map(m: &BTreeMap<Vec<u8>, Vec<u8>>) -> String {
    let parts: Vec<String> = m.iter().map(|(k, v)| format!("{}={}", hex(k), hex(v))).collect();
    format!("{{{}}}", parts.join(","))
}

/// Distinct (agent, item) names whose text `agent/item` is the same.
fn twins(a: (&str, &str), b: (&str, &str)) -> bool {
    a != b && format!("{}/{}", a.0, a.1) == format!("{}/{}", b.0, b.1)
}

impl Model {
    pub fn new(rocks: bool) -> Model {
        Model { rocks, ..Default::default() }
    }

    fn violate(&mut self, rule: &str, sig: &str, ctx: &str, detail: String) {
        self.violations.push(Violation::new(P, rule, sig, format!("{ctx}: {detail}")));
    }

    /// All handles were dropped and the store was opened again (`how` = "reopen" | "kill").
    pub fn boundary(&mut self, how: &'static str) {
        self.untouched_since_boundary = self.items.keys().cloned().collect();
        self.last_boundary = Some(how);
        self.held.clear();
    }

    pub fn warm_ids(&mut self, agent: &str, ids: &[u64], ctx: &str) {
        for (i, id) in ids.iter().enumerate() {
            self.check_id(agent, &format!("w{i}"), *id, ctx);
        }
    }

    /// C13.id_stable
    fn check_id(&mut self, agent: &str, item: &str, id: u64, ctx: &str) {
        self.ids_compared += 1;
        let key = (agent.to_string(), item.to_string());
        if let Some(old) = self.ids.get(&key).copied() {
            if old != id {
                let when = self.last_boundary.map(|b| format!("after_{b}")).unwrap_or_else(|| "same_session".into());
                self.violate(
                    "C13.id_stable",
                    &format!("changed:{when}"),
                    ctx,
                    format!("id of ({agent:?},{item:?}) was {old}, now {id}"),
                );
                self.ids.insert(key, id);
            }
            return;
        }
        // A new name: its id must not be shared with another name whose data would then be shared
        // too. The in-memory store has one id space per agent, RocksDB one per plane.
        let clash = self
            .ids
            .iter()
            .find(|((a, _), other)| **other == id && (self.rocks || a == agent))
            .map(|((a, i), _)| (a.clone(), i.clone()));
        if let Some((a, i)) = clash {
            let which = if a == agent {
                "shared_within_agent"
            } else if twins((&a, &i), (agent, item)) {
                // The two names have the same text "agent/item".
                "name_concat_collision"
            } else {
                "cross_agent_collision"
            };
            self.violate(
                "C13.id_stable",
                which,
                ctx,
                format!("({agent:?},{item:?}) got id {id} which already belongs to ({a:?},{i:?})"),
            );
        }
        self.ids.insert(key, id);
    }

    /// Classifies a read mismatch: durability (first touch after a reopen/kill), isolation (the
    /// store answered with what belongs to another item) or plain read-your-writes.
    fn classify(&self, key: &(String, String), explained_by_other: bool, what: &str) -> (&'static str, String) {
        // The item shares its id with another name (in the same id space): whatever is wrong with
        // its content is interference, not a lost write.
        let partner = self.ids.get(key).and_then(|id| {
            self.ids.iter().find(|(k, other)| *k != key && *other == id && (self.rocks || k.0 == key.0)).map(|(k, _)| k.clone())
        });
        if let Some(p) = &partner {
            if twins((&p.0, &p.1), (&key.0, &key.1)) {
                return ("C13.isolation", format!("name_concat:{what}"));
            }
        }
        if explained_by_other || partner.is_some() {
            ("C13.isolation", what.to_string())
        } else if self.untouched_since_boundary.contains(key) {
            let how = self.last_boundary.unwrap_or("reopen");
            ("C13.durable", format!("{how}:{what}"))
        } else {
            ("C13.read_your_writes", what.to_string())
        }
    }

    fn other_has_value(&self, key: &(String, String), val: &Option<Vec<u8>>) -> Option<(String, String)> {
        let v = val.as_ref()?;
        self.items
            .iter()
            .find(|(k, it)| *k != key && matches!(it, Item::Value(Some(o)) if o == v))
            .map(|(k, _)| k.clone())
    }

    fn other_has_entry(&self, key: &(String, String), k: &[u8], v: &[u8]) -> Option<(String, String)> {
        self.items
            .iter()
            .find(|(ok, it)| *ok != key && matches!(it, Item::Map(m) if m.get(k).map(|x| x.as_slice()) == Some(v)))
            .map(|(ok, _)| ok.clone())
    }

    /// Feeds one executed operation and the store's answer. `ctx` locates it for humans.
    pub fn observe(&mut self, op: &Op, res: &OpResult, ctx: &str) {
        if self.dead {
            return;
        }
        match res {
            OpResult::Panic { msg } => {
                self.violate("C13.no_panic", op.kind(), ctx, format!("store panicked: {msg}"));
                self.dead = true;
                return;
            }
            OpResult::Err { stage, msg } => {
                self.violate("C13.no_error", stage, ctx, format!("legal operation {op:?} failed: {msg}"));
                // The operation was not acknowledged: the model does not change. A failed request
                // for a handle leaves the holder state unknown; the handle bookkeeping is
                // resynchronised by the caller from the session.
                return;
            }
            _ => {}
        }
        match op {
            Op::ReleaseNode { agent } => {
                if let OpResult::Released { held } = res {
                    if *held {
                        self.release_reacquire_fired += 1;
                    }
                    self.held.remove(agent);
                }
            }
            Op::ReacquireNode { agent } => {
                if let OpResult::Acquired { path } = res {
                    let was_held = self.held.contains(agent);
                    self.held.insert(agent.clone());
                    self.release_reacquire_fired += 1;
                    if !self.rocks {
                        // In-memory: a held state must be handed over (the request waits), an idle
                        // or unknown one is available at once.
                        let expect = if was_held { "handover" } else { "fresh-or-idle" };
                        if path != expect {
                            self.violate("C13.handover", "path", ctx, format!("expected {expect}, got {path}"));
                        }
                        if path == "handover" {
                            self.handover_fired += 1;
                        }
                    }
                }
            }
            Op::AbandonRequest { agent } => {
                if let OpResult::Abandoned { was_pending } = res {
                    self.held.insert(agent.clone());
                    self.abandon_fired += 1;
                    if !self.rocks && !*was_pending {
                        self.violate("C13.handover", "abandon_not_pending", ctx, "a second request completed while the state was in use".into());
                    }
                }
            }
            Op::AbandonAfterRelease { agent } => {
                if let OpResult::Abandoned { was_pending } = res {
                    // Nobody holds the state afterwards; it must still be there when it is asked for again.
                    self.held.remove(agent);
                    self.abandon_fired += 1;
                    if !self.rocks && !*was_pending {
                        self.violate("C13.handover", "abandon_not_pending", ctx, "a second request completed while the state was in use".into());
                    }
                }
            }
            Op::ContendRequests { agent } => {
                if let OpResult::Contended { first, second } = res {
                    self.contend_fired += 1;
                    let nodes = [first, second].iter().filter(|s| s.as_str() == "node").count();
                    if nodes == 1 {
                        self.held.insert(agent.clone());
                    } else {
                        self.held.remove(agent);
                        // Exactly one of the waiting requests must receive the state.
                        self.violate("C13.handover", "contend", ctx, format!("two queued requests ended as {first}/{second}"));
                    }
                }
            }
            Op::Reopen | Op::Kill => {}
            _ => self.observe_data(op, res, ctx),
        }
    }

    fn observe_data(&mut self, op: &Op, res: &OpResult, ctx: &str) {
        let agent = op.agent().unwrap().to_string();
        let item = op.item().unwrap().to_string();
        let key = (agent.clone(), item.clone());
        // Any data operation obtains the handle if it is not held.
        self.held.insert(agent.clone());
        if let Some(id) = res.id() {
            self.check_id(&agent, &item, id, ctx);
        }
        match (op, res) {
            (Op::IdFor { .. }, OpResult::Id { .. }) => {}
            (Op::Put { val, .. }, OpResult::Done { .. }) => {
                self.items.insert(key.clone(), Item::Value(Some(val.0.clone())));
                self.untouched_since_boundary.remove(&key);
            }
            (Op::Delete { .. }, OpResult::Done { .. }) => {
                self.items.insert(key.clone(), Item::Value(None));
                self.untouched_since_boundary.remove(&key);
            }
            (Op::Get { .. }, OpResult::Value { val, contract, .. }) => {
                self.values_compared += 1;
                let expected = match self.items.get(&key) {
                    Some(Item::Value(v)) => v.clone(),
                    _ => None,
                };
                let got = val.as_ref().map(|h| h.0.clone());
                if !*contract {
                    self.violate("C13.read_your_writes", "buffer_contract", ctx, "get_value did not append to the buffer / returned a wrong length".into());
                }
                if got != expected {
                    let other = self.other_has_value(&key, &got);
                    let (rule, sig) = self.classify(&key, other.is_some(), "get");
                    let hint = other.map(|o| format!(" (that is the value of {o:?})")).unwrap_or_default();
                    self.violate(rule, &sig, ctx, format!("get ({agent:?},{item:?}) expected {} got {}{hint}", show(&expected), show(&got)));
                    // Resynchronise, so that one defect is not reported at every later read.
                    self.items.insert(key.clone(), Item::Value(got));
                }
                // Items that were only read so far are audited too.
                self.items.entry(key.clone()).or_insert(Item::Value(expected));
                self.untouched_since_boundary.remove(&key);
            }
            (Op::Update { key: k, val, .. }, OpResult::Done { .. }) => {
                let e = self.items.entry(key.clone()).or_insert_with(|| Item::Map(BTreeMap::new()));
                if let Item::Map(m) = e {
                    m.insert(k.0.clone(), val.0.clone());
                }
                self.untouched_since_boundary.remove(&key);
            }
            (Op::Remove { key: k, .. }, OpResult::Done { .. }) => {
                let e = self.items.entry(key.clone()).or_insert_with(|| Item::Map(BTreeMap::new()));
                if let Item::Map(m) = e {
                    m.remove(&k.0);
                }
                self.untouched_since_boundary.remove(&key);
            }
            (Op::Clear { .. }, OpResult::Done { .. }) => {
                self.items.insert(key.clone(), Item::Map(BTreeMap::new()));
                self.untouched_since_boundary.remove(&key);
            }
            (Op::ReadMap { .. }, OpResult::Map { entries, .. }) => {
                self.maps_read += 1;
                let expected = match self.items.get(&key) {
                    Some(Item::Map(m)) => m.clone(),
                    _ => BTreeMap::new(),
                };
                // The trait promises no order: compare as a set; a key reported twice is a defect.
                let mut got: BTreeMap<Vec<u8>, Vec<u8>> = BTreeMap::new();
                let mut dup = None;
                for (Hex(k), Hex(v)) in entries {
                    if got.insert(k.clone(), v.clone()).is_some() {
                        dup = Some(k.clone());
                    }
                }
                self.entries_compared += expected.len().max(entries.len()) as u64;
                if let Some(k) = dup {
                    self.violate("C13.read_your_writes", "read_map_duplicate_key", ctx, format!("read_map ({agent:?},{item:?}) reported key {} twice", hex(&k)));
                }
                if got != expected {
                    let foreign = got
                        .iter()
                        .filter(|(k, v)| expected.get(*k) != Some(*v))
                        .find_map(|(k, v)| self.other_has_entry(&key, k, v));
                    let (rule, sig) = self.classify(&key, foreign.is_some(), "read_map");
                    let hint = foreign.map(|o| format!(" (contains an entry of {o:?})")).unwrap_or_default();
                    self.violate(rule, &sig, ctx, format!("read_map ({agent:?},{item:?}) expected {} got {}{hint}", show_map(&expected), show_map(&got)));
                    self.items.insert(key.clone(), Item::Map(got));
                }
                self.items.entry(key.clone()).or_insert(Item::Map(expected));
                self.untouched_since_boundary.remove(&key);
            }
            (op, res) => {
                self.violate("C13.no_error", "unexpected_answer", ctx, format!("{op:?} answered {res:?}"));
            }
        }
    }

    /// Read operations that observe every item the model knows of the given agents (used for the
    /// audits after a boundary / a hand-over and at the end).
    pub fn audit_ops(&self, only_agent: Option<&str>) -> Vec<Op> {
        self.items
            .iter()
            .filter(|((a, _), _)| only_agent.map(|o| o == a).unwrap_or(true))
            .map(|((a, i), it)| match it {
                Item::Value(_) => Op::Get { agent: a.clone(), item: i.clone() },
                Item::Map(_) => Op::ReadMap { agent: a.clone(), item: i.clone() },
            })
            .collect()
    }
}
