//! Explicit scenarios of the `store` world: store kind + sequences of store operations with
//! adversarial agent URIs, item names, map keys and values; generator and shrinker.

use std::collections::{BTreeMap, BTreeSet};

use serde::{Deserialize, Deserializer, Serialize, Serializer};

use crate::core::rng::Rng;
use crate::core::Tier;

/// Bytes that are written to JSON as a hex string.
#[derive(Clone, PartialEq, Eq, PartialOrd, Ord, Debug, Default)]
pub struct Hex(pub Vec<u8>);

pub fn hex(bytes: &[u8]) -> String {
    let mut s = String::with_capacity(bytes.len() * 2);
    for b in bytes {
        s.push_str(&format!("{:02x}", b));
    }
    s
}

fn unhex(s: &str) -> Option<Vec<u8>> {
    if s.len() % 2 != 0 {
        return None;
    }
    let mut out = Vec::with_capacity(s.len() / 2);
    let b = s.as_bytes();
    for i in (0..b.len()).step_by(2) {
        let h = (b[i] as char).to_digit(16)?;
        let l = (b[i + 1] as char).to_digit(16)?;
        out.push((h * 16 + l) as u8);
    }
    Some(out)
}

impl Serialize for Hex {
    fn serialize<S: Serializer>(&self, s: S) -> Result<S::Ok, S::Error> {
        s.serialize_str(&hex(&self.0))
    }
}

impl<'de> Deserialize<'de> for Hex {
    fn deserialize<D: Deserializer<'de>>(d: D) -> Result<Hex, D::Error> {
        let s = String::deserialize(d)?;
        unhex(&s).map(Hex).ok_or_else(|| serde::de::Error::custom("bad hex"))
    }
}

/// One store operation. `Reopen` and `Kill` are boundary markers of the "rocks" mode:
/// * `Reopen` at position p: every handle (nodes, plane, server) is dropped and the same directory
///   is opened again;
/// * `Kill` at position p (== `Kill{after_op: p-1}`): the operations since the previous boundary ran
///   in a CHILD process which killed itself with SIGKILL immediately after the operation at p-1
///   was acknowledged; the parent then reopens the directory and continues.
#[derive(Serialize, Deserialize, Clone, PartialEq, Eq, Debug)]
#[serde(tag = "op")]
pub enum Op {
    IdFor { agent: String, item: String },
    Put { agent: String, item: String, val: Hex },
    Get { agent: String, item: String },
    Delete { agent: String, item: String },
    Update { agent: String, item: String, key: Hex, val: Hex },
    Remove { agent: String, item: String, key: Hex },
    Clear { agent: String, item: String },
    ReadMap { agent: String, item: String },
    /// Drop the node store handle of the agent (if one is held).
    ReleaseNode { agent: String },
    /// Obtain the node store handle from the plane again. If the old handle is still held the new
    /// one is requested first (InUse hand-over: the request must wait), then the old one is dropped.
    ReacquireNode { agent: String },
    /// While the handle is held, request a second one and drop the request before the holder
    /// releases (what the server does for every FindRoute/attach event of a running agent).
    AbandonRequest { agent: String },
    /// While the handle is held, two requests queue up; the holder releases. Exactly one of the
    /// requests may obtain the state.
    ContendRequests { agent: String },
    /// While the handle is held a request queues up; the holder releases (the state is handed to the request); the
    /// request is then dropped without ever being polled again. The state must not be lost with it.
    AbandonAfterRelease { agent: String },
    Reopen,
    Kill,
}

impl Op {
    pub fn kind(&self) -> &'static str {
        match self {
            Op::IdFor { .. } => "id_for",
            Op::Put { .. } => "put",
            Op::Get { .. } => "get",
            Op::Delete { .. } => "delete",
            Op::Update { .. } => "update",
            Op::Remove { .. } => "remove",
            Op::Clear { .. } => "clear",
            Op::ReadMap { .. } => "read_map",
            Op::ReleaseNode { .. } => "release",
            Op::ReacquireNode { .. } => "reacquire",
            Op::AbandonRequest { .. } => "abandon",
            Op::ContendRequests { .. } => "contend",
            Op::AbandonAfterRelease { .. } => "abandon_after_release",
            Op::Reopen => "reopen",
            Op::Kill => "kill",
        }
    }

    pub fn agent(&self) -> Option<&str> {
        match self {
            Op::IdFor { agent, .. }
            | Op::Put { agent, .. }
            | Op::Get { agent, .. }
            | Op::Delete { agent, .. }
            | Op::Update { agent, .. }
            | Op::Remove { agent, .. }
            | Op::Clear { agent, .. }
            | Op::ReadMap { agent, .. }
            | Op::ReleaseNode { agent }
            | Op::ReacquireNode { agent }
            | Op::AbandonRequest { agent }
            | Op::ContendRequests { agent }
            | Op::AbandonAfterRelease { agent } => Some(agent),
            Op::Reopen | Op::Kill => None,
        }
    }

    pub fn item(&self) -> Option<&str> {
        match self {
            Op::IdFor { item, .. }
            | Op::Put { item, .. }
            | Op::Get { item, .. }
            | Op::Delete { item, .. }
            | Op::Update { item, .. }
            | Op::Remove { item, .. }
            | Op::Clear { item, .. }
            | Op::ReadMap { item, .. } => Some(item),
            _ => None,
        }
    }

    pub fn key(&self) -> Option<&[u8]> {
        match self {
            Op::Update { key, .. } | Op::Remove { key, .. } => Some(&key.0),
            _ => None,
        }
    }

    /// Some(true): value operation, Some(false): map operation, None: neither.
    pub fn is_value_op(&self) -> Option<bool> {
        match self {
            Op::Put { .. } | Op::Get { .. } | Op::Delete { .. } => Some(true),
            Op::Update { .. } | Op::Remove { .. } | Op::Clear { .. } | Op::ReadMap { .. } => Some(false),
            _ => None,
        }
    }

    pub fn is_boundary(&self) -> bool {
        matches!(self, Op::Reopen | Op::Kill)
    }
}

#[derive(Serialize, Deserialize, Clone, PartialEq, Eq, Debug)]
pub struct Seq {
    /// Plane name (a directory name for RocksDB: kept harmless on purpose).
    pub plane: String,
    /// Number of throw-away names registered first (moves the id counter across the var-int
    /// boundaries 127/128 and the byte boundary 255/256). "rocks" only.
    pub warmup: u32,
    pub ops: Vec<Op>,
}

#[derive(Serialize, Deserialize, Clone, PartialEq, Eq, Debug)]
pub struct StoreScenario {
    /// "mem" or "rocks".
    pub kind: String,
    pub seqs: Vec<Seq>,
}

pub const WARM_AGENT: &str = "/~warm";

const AGENT_POOL: &[&str] = &[
    "/a",
    "/a/b",
    "/ab",
    "/a/",
    "/",
    "/b",
    "/aaaaaa",            // 7 bytes
    "/aaaaaaa",           // 8
    "/aaaaaaaa",          // 9
    "/aaaaaaaaaaaaaaa",   // 16
    "/aaaaaaaaaaaaaaaa",  // 17
    "/aaaaaaaaaaaaaaaaa", // 18
    "/a\u{0}",
    "/\u{ff}",
    "/node/1",
    "/node/10",
    "/a/b/c",
];

const ITEM_POOL: &[&str] = &[
    "",
    "a",
    "a/b",
    "ab",
    "b",
    "b/c",
    "b%2Fc",
    "b%252Fc",
    "%2F",
    "%25",
    "%",
    "c",
    "/b",
    "/b/c",
    "\u{0}",
    "a\u{0}",
    "\u{ff}",
    "counter",
    "lane",
    "aaaaaaa",            // 7
    "aaaaaaaa",           // 8
    "aaaaaaaab",          // 9
    "aaaaaaaaaaaaaaaa",   // 16
    "aaaaaaaaaaaaaaaab",  // 17
    "aaaaaaaaaaaaaaaabc", // 18
];

fn key_pool() -> Vec<Vec<u8>> {
    let mut v: Vec<Vec<u8>> = vec![
        vec![],
        vec![0x00],
        vec![0xff],
        vec![0x00, 0x00],
        vec![0xff; 8],
        vec![0xff; 9],
        b"a".to_vec(),
        b"a/b".to_vec(),
        b"ab".to_vec(),
        vec![0x01],
        vec![0x02],
        // Look like pieces of the on-disk encoding ([KEY][len u64 LE]...).
        vec![0x01, 0, 0, 0, 0, 0, 0, 0, 0],
        vec![0x01, 1, 0, 0, 0, 0, 0, 0, 0, b'a'],
        vec![0, 0, 0, 0, 0, 0, 0, 0],
    ];
    for n in [7usize, 8, 9, 16, 17, 18] {
        v.push(vec![b'k'; n]);
    }
    v
}

fn gen_value(r: &mut Rng, counter: &mut u32) -> Vec<u8> {
    *counter += 1;
    if r.chance(1, 10) {
        return vec![];
    }
    let mut v = match r.below(8) {
        0 => vec![],
        1 => vec![0x00],
        2 => vec![0xff],
        3 => vec![0x00; *r.pick(&[6usize, 7, 8, 15, 16, 17])],
        4 => vec![0xff; *r.pick(&[6usize, 7, 8, 15, 16, 17])],
        5 => b"v".to_vec(),
        6 => vec![b'x'; r.range(1, 40) as usize],
        _ => {
            let n = r.range(1, 12) as usize;
            (0..n).map(|_| *r.pick(&[0x00u8, 0xff, 0x01, 0x02, b'/', b'a'])).collect()
        }
    };
    // Unique tail: a lost or misdirected write is then always visible.
    v.push((*counter & 0xff) as u8);
    if *counter > 0xff {
        v.push((*counter >> 8) as u8);
    }
    v
}

fn pick_distinct(r: &mut Rng, pool: &[&str], n: usize) -> Vec<String> {
    let mut idx: Vec<usize> = (0..pool.len()).collect();
    r.shuffle(&mut idx);
    idx.into_iter().take(n).map(|i| pool[i].to_string()).collect()
}

fn push_unique(v: &mut Vec<String>, s: &str) {
    if !v.iter().any(|x| x == s) {
        v.push(s.to_string());
    }
}

pub fn gen_seq(rng: &Rng, kind: &str, _tier: Tier) -> Seq {
    let mut r = rng.sub("shape");
    // Names. Half of the sequences use a "collision family": (agent, item) pairs whose textual
    // concatenation agent + "/" + item coincides.
    let family = r.below(8);
    let (mut agents, mut items): (Vec<String>, Vec<String>) = match family {
        0 | 1 => (vec!["/a".into(), "/a/b".into()], vec!["b/c".into(), "c".into()]),
        2 => (vec!["/a".into(), "/a/".into()], vec!["/b".into(), "b".into()]),
        3 => (vec!["/a".into(), "/a/b".into(), "/a/b/c".into()], vec!["b/c".into(), "c".into(), "".into()]),
        // Names that coincide if the id escaping is applied in the wrong order or not inverted.
        4 => (vec!["/a".into()], vec!["b/c".into(), "b%2Fc".into(), "b%252Fc".into()]),
        _ => (vec![], vec![]),
    };
    let in_family = !agents.is_empty();
    let extra_agents = if in_family { r.below(2) as usize } else { r.range(1, 3) as usize };
    for a in pick_distinct(&mut r, AGENT_POOL, extra_agents) {
        if agents.len() < 3 {
            push_unique(&mut agents, &a);
        }
    }
    let extra_items = if in_family { r.below(3) as usize } else { r.range(1, 4) as usize };
    for i in pick_distinct(&mut r, ITEM_POOL, extra_items) {
        if items.len() < 4 {
            push_unique(&mut items, &i);
        }
    }
    // Each (agent, item) is consistently a value or a map (the trait does not define mixed use:
    // the in-memory store answers InvalidOperation, RocksDB keeps two independent column families).
    let mut pairs: Vec<(String, String, bool)> = vec![];
    let same_kind = if in_family && r.chance(3, 4) { Some(r.chance(1, 2)) } else { None };
    for a in &agents {
        for i in &items {
            let is_value = same_kind.unwrap_or_else(|| r.chance(1, 2));
            pairs.push((a.clone(), i.clone(), is_value));
        }
    }
    // Keys of this sequence.
    let pool = key_pool();
    let nkeys = r.range(2, 6) as usize;
    let mut keys: Vec<Vec<u8>> = vec![];
    for _ in 0..nkeys {
        let k = if r.chance(1, 6) {
            let n = r.range(0, 10) as usize;
            (0..n).map(|_| *r.pick(&[0x00u8, 0xff, 0x01, b'a'])).collect()
        } else {
            r.pick(&pool).clone()
        };
        if !keys.contains(&k) {
            keys.push(k);
        }
    }

    let n_ops = r.range(4, 60) as usize;
    let mut ops: Vec<Op> = Vec::with_capacity(n_ops + 4);
    let mut counter = 0u32;
    let mut o = rng.sub("ops");
    let mem = kind == "mem";
    for _ in 0..n_ops {
        // Handle management (both kinds; Idle/InUse hand-over exists in "mem" only).
        let mgmt = if mem { 10 } else { 3 };
        if o.below(100) < mgmt {
            let agent = o.pick(&agents).clone();
            let op = if mem {
                match o.below(7) {
                    0 | 1 => Op::ReleaseNode { agent },
                    2 | 3 | 4 => Op::ReacquireNode { agent },
                    5 => Op::AbandonRequest { agent },
                    6 if o.chance(1, 2) => Op::AbandonAfterRelease { agent },
                    _ => Op::ContendRequests { agent },
                }
            } else if o.chance(1, 2) {
                Op::ReleaseNode { agent }
            } else {
                Op::ReacquireNode { agent }
            };
            ops.push(op);
            continue;
        }
        let (agent, item, is_value) = o.pick(&pairs).clone();
        let op = if is_value {
            match o.below(11) {
                0..=4 => Op::Put { agent, item, val: Hex(gen_value(&mut o, &mut counter)) },
                5..=8 => Op::Get { agent, item },
                9 => Op::Delete { agent, item },
                _ => Op::IdFor { agent, item },
            }
        } else {
            let key = Hex(o.pick(&keys).clone());
            match o.below(13) {
                0..=5 => Op::Update { agent, item, key, val: Hex(gen_value(&mut o, &mut counter)) },
                6 | 7 => Op::Remove { agent, item, key },
                8 => Op::Clear { agent, item },
                9..=11 => Op::ReadMap { agent, item },
                _ => Op::IdFor { agent, item },
            }
        };
        ops.push(op);
    }
    let mut warmup = 0;
    if !mem {
        let mut b = rng.sub("boundaries");
        let n_bound = *b.pick(&[0usize, 1, 1, 1, 2, 2, 2, 3]);
        for _ in 0..n_bound {
            let pos = b.range(1, ops.len() as u64) as usize;
            let marker = if b.chance(1, 2) { Op::Kill } else { Op::Reopen };
            ops.insert(pos, marker);
        }
        warmup = *b.pick(&[0u32, 0, 0, 0, 125, 126, 127, 128, 253, 254, 255, 256, 300]);
    }
    // Half of the sequences run on the crate's other public option set (see exec::open_rocks).
    let plane = if rng.sub("rocks-opts").chance(1, 2) { "po" } else { "p" };
    Seq { plane: plane.to_string(), warmup, ops }
}

pub fn generate(seed: u64, kind: &str, tier: Tier) -> StoreScenario {
    let rng = Rng::new(seed);
    let nseq = if kind == "mem" { 32 } else { 1 };
    let seqs = (0..nseq).map(|i| gen_seq(&rng.sub(&format!("seq{i}")), kind, tier)).collect();
    StoreScenario { kind: kind.to_string(), seqs }
}

/// A scenario is legal if every (agent, item) is used consistently as a value or as a map and the
/// boundary / hand-over operations match the store kind.
pub fn validate(sc: &StoreScenario) -> Result<(), String> {
    if sc.kind != "mem" && sc.kind != "rocks" {
        return Err(format!("unknown store kind {}", sc.kind));
    }
    for (si, seq) in sc.seqs.iter().enumerate() {
        let mut kinds: BTreeMap<(&str, &str), bool> = BTreeMap::new();
        for op in &seq.ops {
            if let (Some(a), Some(i), Some(v)) = (op.agent(), op.item(), op.is_value_op()) {
                if *kinds.entry((a, i)).or_insert(v) != v {
                    return Err(format!("seq {si}: item ({a:?},{i:?}) is used both as value and as map"));
                }
            }
            match op {
                Op::Reopen | Op::Kill if sc.kind == "mem" => {
                    return Err(format!("seq {si}: {} is not defined for the in-memory store", op.kind()));
                }
                Op::AbandonRequest { .. } | Op::ContendRequests { .. } | Op::AbandonAfterRelease { .. } if sc.kind != "mem" => {
                    return Err(format!("seq {si}: {} is defined for the in-memory store only", op.kind()));
                }
                _ => {}
            }
            if op.agent() == Some(WARM_AGENT) {
                return Err("the warm-up agent is reserved".into());
            }
        }
    }
    Ok(())
}

fn canonical_values(seq: &Seq) -> Seq {
    let mut map: BTreeMap<Vec<u8>, Vec<u8>> = BTreeMap::new();
    let mut next = 1u8;
    let mut out = seq.clone();
    for op in out.ops.iter_mut() {
        if let Op::Put { val, .. } | Op::Update { val, .. } = op {
            let e = map.entry(val.0.clone()).or_insert_with(|| {
                let v = vec![next];
                next = next.wrapping_add(1);
                v
            });
            val.0 = e.clone();
        }
    }
    out
}

fn shrink_seq(seq: &Seq) -> Vec<Seq> {
    let mut out = vec![];
    let n = seq.ops.len();
    // Remove chunks: halves, quarters, ..., single operations.
    let mut chunk = n / 2;
    while chunk >= 1 {
        let mut start = 0;
        while start < n {
            let end = (start + chunk).min(n);
            let mut ops = seq.ops.clone();
            ops.drain(start..end);
            out.push(Seq { ops, ..seq.clone() });
            start = end;
        }
        if chunk == 1 {
            break;
        }
        chunk /= 2;
    }
    if seq.warmup > 0 {
        out.push(Seq { warmup: 0, ..seq.clone() });
    }
    // A kill is replaced by a clean reopen.
    for (i, op) in seq.ops.iter().enumerate() {
        if matches!(op, Op::Kill) {
            let mut ops = seq.ops.clone();
            ops[i] = Op::Reopen;
            out.push(Seq { ops, ..seq.clone() });
        }
    }
    // A hand-over is replaced by release + reacquire of an idle entry.
    for (i, op) in seq.ops.iter().enumerate() {
        if let Op::ContendRequests { agent } | Op::AbandonRequest { agent } | Op::AbandonAfterRelease { agent } = op {
            let mut ops = seq.ops.clone();
            ops[i] = Op::ReacquireNode { agent: agent.clone() };
            out.push(Seq { ops, ..seq.clone() });
        }
    }
    let canon = canonical_values(seq);
    if &canon != seq {
        out.push(canon);
    }
    out
}

pub fn shrink(sc: &StoreScenario) -> Vec<StoreScenario> {
    let mut out = vec![];
    if sc.seqs.len() > 1 {
        for s in &sc.seqs {
            out.push(StoreScenario { kind: sc.kind.clone(), seqs: vec![s.clone()] });
        }
        return out;
    }
    for (i, s) in sc.seqs.iter().enumerate() {
        for cand in shrink_seq(s) {
            let mut seqs = sc.seqs.clone();
            seqs[i] = cand;
            out.push(StoreScenario { kind: sc.kind.clone(), seqs });
        }
    }
    out
}

/// Is the name / key in one of the adversarial classes of the property text?
pub fn adversarial_bytes(b: &[u8]) -> bool {
    b.is_empty()
        || b.contains(&0x00)
        || b.contains(&0xff)
        || b.windows(2).any(|w| w == [0xc3, 0xbf])
        || matches!(b.len(), 7 | 8 | 9 | 16 | 17 | 18)
}

/// Pairs of distinct (agent, item) names used by a sequence that are candidates for a name
/// collision: textual collision of `agent/item`, or one item name being a proper prefix of
/// another of the same agent.
pub fn collision_candidates(used: &BTreeSet<(String, String)>) -> (u64, u64) {
    let v: Vec<&(String, String)> = used.iter().collect();
    let mut textual = 0;
    let mut prefix = 0;
    for i in 0..v.len() {
        for j in (i + 1)..v.len() {
            let (a1, i1) = v[i];
            let (a2, i2) = v[j];
            if format!("{a1}/{i1}") == format!("{a2}/{i2}") {
                textual += 1;
            } else if a1 == a2 && (i1.starts_with(i2.as_str()) || i2.starts_with(i1.as_str())) {
                prefix += 1;
            }
        }
    }
    (textual, prefix)
}
