//! W-DLTASK: the stand-alone client downlinks (`swimos_downlink::DownlinkTask` over the value and
//! map models) driven by scripted notification sequences; the callbacks they make and the state
//! they expose are compared with a reference fold of the notifications.

use std::cell::RefCell;
use std::collections::{BTreeMap, BTreeSet};
use std::num::NonZeroUsize;
use std::rc::Rc;
use std::sync::{Arc, Mutex};

use bytes::BytesMut;
use serde::{Deserialize, Serialize};
use serde_json::{json, Value as Json};
use swimos_agent_protocol::encoding::downlink::DownlinkNotificationEncoder;
use swimos_agent_protocol::encoding::map::{MapMessageEncoder, MapOperationDecoder};
use swimos_agent_protocol::{DownlinkNotification, MapMessage, MapOperation};
use swimos_api::address::Address;
use swimos_client_api::{Downlink, DownlinkConfig};
use swimos_downlink::{map_downlink, value_downlink, DownlinkTask, ValueDownlinkSet};
use swimos_model::Text;
use swimos_utilities::byte_channel::byte_channel;
use tokio::io::{AsyncReadExt, AsyncWriteExt};
use tokio::sync::mpsc;
use tokio_util::codec::Encoder;

use crate::core::exec::{now_step, Exec, Policy, Scheduler};
use crate::core::log::EventLog;
use crate::core::rng::Rng;
use crate::core::tok::block_on_sim;
use crate::core::{Outcome, Tier, Violation, World};

#[derive(Debug, Clone, Serialize, Deserialize, PartialEq, Eq)]
pub enum N {
    Linked,
    Synced,
    Unlinked,
    /// Value event.
    Val(i32),
    Update(i32, i32),
    Remove(i32),
    Clear,
    Take(u64),
    Drop(u64),
}

/// The value downlink of this world is a downlink of `Option<i32>`; this number stands for `None` in scripts, callbacks
/// and the reference fold. On the link it is an event with an EMPTY body.
pub const NONE_VALUE: i32 = -1_000_000;

/// A local write issued through the `MapDownlinkHandle` of a client map downlink.
#[derive(Debug, Clone, Copy, Serialize, Deserialize, PartialEq, Eq)]
pub enum MOp {
    Upd(i32, i32),
    Rem(i32),
    Clr,
}

#[derive(Debug, Clone, Serialize, Deserialize, PartialEq, Eq)]
pub struct DtScenario {
    pub map: bool,
    pub events_when_not_synced: bool,
    pub terminate_on_unlinked: bool,
    /// The script is one a well-behaved link can produce (false: arbitrary order, checked for "no panic" only).
    pub legal: bool,
    pub script: Vec<N>,
    /// Local sets issued through the handle (value downlink only): (after how many polls, value).
    pub local_sets: Vec<(u32, i32)>,
    /// The handle through which local sets are sent is dropped after this many polls of the "local" task
    /// (after the sets scheduled before that): the downlink task switches to its read-only mode, which must
    /// not change what it reports.
    #[serde(default, skip_serializing_if = "Option::is_none")]
    pub drop_handle_after: Option<u32>,
    /// Local writes of a client map downlink, each issued *between* two notifications at a quiescent point:
    /// (index of the notification it precedes, operation). The feeder stops before that notification, the
    /// harness waits until nothing is runnable, hands the operation to the handle, waits until nothing is
    /// runnable again (the task has taken it and written the command) and lets the feeder continue, so the
    /// position of the write in the notification order is known exactly.
    #[serde(default, skip_serializing_if = "Vec::is_empty")]
    pub map_ops: Vec<(u32, MOp)>,
    /// Capacity of the channel that carries the notifications (small => frames are fragmented).
    pub in_cap: u32,
    pub out_cap: u32,
    /// Yield this many times between frames (lets the task run in between).
    pub gap: u32,
    pub budget: u32,
    pub policy: u32,
    pub sched_seed: u64,
    pub tokio_seed: u64,
    /// Start value of std's hash keys on the run's thread (iteration order of the product's HashMaps).
    #[serde(default)]
    pub hash_seed: u64,
}

pub fn generate(seed: u64, map: bool) -> DtScenario {
    let root = Rng::new(seed);
    let mut rng = root.sub("scenario");
    let legal = rng.chance(9, 10);
    let mut script = vec![];
    let mut next = 1000;
    // A third of the map scripts keep larger maps alive and concentrate on take / drop / remove, so that sequences
    // such as drop, remove, drop on a map of five or more keys occur (separate stream for the choice).
    let structured = map && root.sub("structured").chance(1, 3);
    let keys = if structured { rng.range(4, 8) as i32 } else { rng.range(1, 5) as i32 };
    // Added to every key: {0..}, {8..} (one and two digits), {-3..} and {97..} order differently as numbers and as text.
    let key_off: i32 = *root.sub("key-off").pick(&[0i32, 0, 8, 8, -3, 97]);
    let mut ev = |rng: &mut Rng, next: &mut i32| -> N {
        *next += 1;
        if map && structured {
            let k = rng.range_i(0, keys as i64 - 1) as i32 + key_off;
            match rng.below(20) {
                0..=7 => N::Update(k, *next),
                8..=11 => N::Remove(k),
                12..=14 => N::Take(rng.range((keys as u64).saturating_sub(3), keys as u64 + 1)),
                15..=18 => N::Drop(rng.range(0, 2)),
                _ => N::Clear,
            }
        } else if map {
            let k = rng.range_i(0, keys as i64 - 1) as i32 + key_off;
            match rng.below(20) {
                0..=10 => N::Update(k, *next),
                11..=13 => N::Remove(k),
                14 => N::Clear,
                15..=16 => N::Take(rng.range(0, keys as u64 + 1)),
                17..=18 => N::Drop(rng.range(0, keys as u64 + 1)),
                _ => N::Update(k, *next),
            }
        } else {
            N::Val(*next)
        }
    };
    if legal {
        let sessions = rng.range(1, 3);
        for s in 0..sessions {
            script.push(N::Linked);
            let pre = if structured { rng.range(4, 14) } else { rng.range(0, 8) };
            if structured {
                // Fill the map first.
                for k in 0..keys {
                    next += 1;
                    script.push(N::Update(k + key_off, next));
                }
            }
            for _ in 0..pre {
                script.push(ev(&mut rng, &mut next));
            }
            let do_sync = rng.chance(4, 5);
            if do_sync {
                // A value link always delivers a value before synced.
                if !map && pre == 0 {
                    script.push(ev(&mut rng, &mut next));
                }
                script.push(N::Synced);
                let post = if structured { rng.range(4, 18) } else { rng.range(0, 10) };
                for _ in 0..post {
                    script.push(ev(&mut rng, &mut next));
                }
            }
            if s + 1 < sessions || rng.chance(1, 2) {
                script.push(N::Unlinked);
            }
        }
    } else {
        let n = rng.range(1, 20);
        for _ in 0..n {
            let x = match rng.below(8) {
                0 => N::Linked,
                1 => N::Synced,
                2 => N::Unlinked,
                _ => ev(&mut rng, &mut next),
            };
            script.push(x);
        }
    }
    // In a quarter of the value scripts some events carry no value at all (`None`: an event with an empty body).
    if !map {
        let mut nr = root.sub("none-values");
        if nr.chance(1, 4) {
            for n in script.iter_mut() {
                if matches!(n, N::Val(_)) && nr.chance(1, 4) {
                    *n = N::Val(NONE_VALUE);
                }
            }
        }
    }
    let mut local_sets = vec![];
    if !map {
        for _ in 0..rng.range(0, 4) {
            next += 1;
            local_sets.push((rng.range(1, 60) as u32, next));
        }
    }
    let mut map_ops = vec![];
    {
        let mut mr = root.sub("map-ops");
        if map && legal && mr.chance(2, 5) {
            let mut lv = 9000;
            for _ in 0..mr.range(1, 4) {
                lv += 1;
                let k = mr.range_i(0, keys as i64 - 1) as i32 + key_off;
                let op = match mr.below(6) {
                    0..=3 => MOp::Upd(k, lv),
                    4 => MOp::Rem(k),
                    _ => MOp::Clr,
                };
                map_ops.push((mr.range(0, script.len() as u64 + 1) as u32, op));
            }
            map_ops.sort_by_key(|(p, _)| *p);
        }
    }
    DtScenario {
        map,
        map_ops,
        events_when_not_synced: rng.chance(1, 2),
        terminate_on_unlinked: rng.chance(1, 2),
        legal,
        script,
        local_sets,
        drop_handle_after: {
            let mut hr = root.sub("drop-handle");
            if !map && hr.chance(1, 4) { Some(hr.range(0, 40) as u32) } else { None }
        },
        // Frames are delivered whole unless the capacity is small.
        in_cap: *rng.pick(&[4096u32, 4096, 4096, 64, 16, 5, 1]),
        out_cap: *rng.pick(&[4096u32, 64, 8]),
        gap: *rng.pick(&[0u32, 0, 1, 3, 10]),
        budget: *rng.pick(&[2u32, 3, 8, 64]),
        policy: rng.below(3) as u32,
        sched_seed: root.sub("sched").next_u64(),
        tokio_seed: root.sub("tokio").next_u64(),
        hash_seed: root.sub("hash").next_u64() | 1,
    }
}

#[derive(Debug, Clone, PartialEq, Eq)]
pub enum Cb {
    Linked,
    Synced(Option<i32>, BTreeMap<i32, i32>),
    Event(i32),
    Set(Option<i32>, i32),
    Update { k: i32, old: Option<i32>, new: i32, map: BTreeMap<i32, i32> },
    Remove { k: i32, old: i32, map: BTreeMap<i32, i32> },
    Clear(BTreeMap<i32, i32>),
    Unlinked,
}

type Trace = Arc<Mutex<Vec<(u64, Cb)>>>;

pub struct Record {
    pub sc: DtScenario,
    pub trace: Vec<(u64, Cb)>,
    pub result: Option<String>,
    pub out_frames: Vec<i32>,
    pub steps: u64,
    pub decisions: u64,
    pub panics: Vec<crate::core::exec::NodePanic>,
    pub step_limit: bool,
    pub fed: usize,
    /// Bodies of the commands a map downlink wrote to its output.
    pub out_bodies: Vec<String>,
    /// Local map writes handed to the handle: (position, operation, accepted by the handle).
    pub map_ops_issued: Vec<(u32, MOp, bool)>,
}

struct Yield(bool);
impl std::future::Future for Yield {
    type Output = ();
    fn poll(mut self: std::pin::Pin<&mut Self>, cx: &mut std::task::Context<'_>) -> std::task::Poll<()> {
        if self.0 {
            std::task::Poll::Ready(())
        } else {
            self.0 = true;
            cx.waker().wake_by_ref();
            std::task::Poll::Pending
        }
    }
}

/// Hand-over between the feeder and the main loop for the local writes of a map downlink.
#[derive(Default)]
struct LocalGate {
    /// The write the feeder wants issued before it continues.
    want: Option<(u32, MOp)>,
    /// 0: waiting for quiescence before the write, 1: written, waiting for quiescence after it.
    phase: u8,
    released: bool,
    waker: Option<std::task::Waker>,
}

struct Parked(Rc<RefCell<LocalGate>>);
impl std::future::Future for Parked {
    type Output = ();
    fn poll(self: std::pin::Pin<&mut Self>, cx: &mut std::task::Context<'_>) -> std::task::Poll<()> {
        let mut g = self.0.borrow_mut();
        if g.released {
            g.released = false;
            std::task::Poll::Ready(())
        } else {
            g.waker = Some(cx.waker().clone());
            std::task::Poll::Pending
        }
    }
}

pub async fn run(sc: &DtScenario) -> Record {
    let policy = match sc.policy {
        0 => Policy::Lowest,
        1 => Policy::RoundRobin,
        _ => Policy::Random,
    };
    let mut exec = Exec::new(Scheduler::new(Rng::new(sc.sched_seed), policy, 500), EventLog::new(false));
    let trace: Trace = Arc::new(Mutex::new(vec![]));
    let (in_tx, in_rx) = byte_channel(NonZeroUsize::new(sc.in_cap.max(1) as usize).unwrap());
    let (out_tx, mut out_rx) = byte_channel(NonZeroUsize::new(sc.out_cap.max(1) as usize).unwrap());
    let config = DownlinkConfig {
        events_when_not_synced: sc.events_when_not_synced,
        terminate_on_unlinked: sc.terminate_on_unlinked,
        buffer_size: NonZeroUsize::new(64).unwrap(),
    };
    let path: Address<Text> = Address::text(None, "/node", "lane");
    let result: Rc<RefCell<Option<String>>> = Rc::new(RefCell::new(None));
    let r2 = result.clone();
    let (set_tx, set_rx) = mpsc::channel::<ValueDownlinkSet<Option<i32>>>(8);
    let (map_tx, map_rx) = mpsc::channel(8);
    let gate: Rc<RefCell<LocalGate>> = Rc::new(RefCell::new(LocalGate::default()));
    let task_node = if sc.map {
        let tr = trace.clone();
        let model = map_downlink::<i32, i32>(map_rx).with_lifecycle(move |lc| {
            let (t1, t2, t3, t4, t5, t6) = (tr.clone(), tr.clone(), tr.clone(), tr.clone(), tr.clone(), tr.clone());
            lc.on_linked_blocking(move || t1.lock().unwrap().push((now_step(), Cb::Linked)))
                .on_synced_blocking(move |m: &BTreeMap<i32, i32>| t2.lock().unwrap().push((now_step(), Cb::Synced(None, m.clone()))))
                .on_update_blocking(move |k: i32, m: &BTreeMap<i32, i32>, old: Option<i32>, new: &i32| {
                    t3.lock().unwrap().push((now_step(), Cb::Update { k, old, new: *new, map: m.clone() }))
                })
                .on_removed_blocking(move |k: i32, m: &BTreeMap<i32, i32>, old: i32| t4.lock().unwrap().push((now_step(), Cb::Remove { k, old, map: m.clone() })))
                .on_clear_blocking(move |old: BTreeMap<i32, i32>| t5.lock().unwrap().push((now_step(), Cb::Clear(old))))
                .on_unlink_blocking(move || t6.lock().unwrap().push((now_step(), Cb::Unlinked)))
        });
        let fut = DownlinkTask::new(model).run(path, config, in_rx, out_tx);
        exec.spawn("downlink", sc.budget as usize, async move {
            let r = fut.await;
            *r2.borrow_mut() = Some(match r {
                Ok(()) => "Ok".into(),
                Err(e) => format!("Err({e})"),
            });
        })
    } else {
        let tr = trace.clone();
        let model = value_downlink::<Option<i32>>(set_rx).with_lifecycle(move |lc| {
            let (t1, t2, t3, t4, t5) = (tr.clone(), tr.clone(), tr.clone(), tr.clone(), tr.clone());
            let n = |v: &Option<i32>| v.unwrap_or(NONE_VALUE);
            lc.on_linked_blocking(move || t1.lock().unwrap().push((now_step(), Cb::Linked)))
                .on_synced_blocking(move |v: &Option<i32>| t2.lock().unwrap().push((now_step(), Cb::Synced(Some(n(v)), BTreeMap::new()))))
                .on_event_blocking(move |v: &Option<i32>| t3.lock().unwrap().push((now_step(), Cb::Event(n(v)))))
                .on_set_blocking(move |old: Option<&Option<i32>>, new: &Option<i32>| t4.lock().unwrap().push((now_step(), Cb::Set(old.map(n), n(new)))))
                .on_unlinked_blocking(move || t5.lock().unwrap().push((now_step(), Cb::Unlinked)))
        });
        let fut = DownlinkTask::new(model).run(path, config, in_rx, out_tx);
        exec.spawn("downlink", sc.budget as usize, async move {
            let r = fut.await;
            *r2.borrow_mut() = Some(match r {
                Ok(()) => "Ok".into(),
                Err(e) => format!("Err({e})"),
            });
        })
    };
    // Feeder: encodes the script with the product's own encoders.
    let script = sc.script.clone();
    let gap = sc.gap;
    let fed = Rc::new(RefCell::new(0usize));
    let fed2 = fed.clone();
    let feeder_ops = if sc.map { sc.map_ops.clone() } else { vec![] };
    let gate_f = gate.clone();
    exec.spawn("feeder", 64, async move {
        let mut tx = in_tx;
        for (idx, n) in script.iter().enumerate() {
            for (p, op) in feeder_ops.iter().filter(|(p, _)| *p as usize == idx) {
                gate_f.borrow_mut().want = Some((*p, *op));
                Parked(gate_f.clone()).await;
            }
            let mut buf = BytesMut::new();
            let mut enc = DownlinkNotificationEncoder;
            let mut body = BytesMut::new();
            let note: DownlinkNotification<&[u8]> = match n {
                N::Linked => DownlinkNotification::Linked,
                N::Synced => DownlinkNotification::Synced,
                N::Unlinked => DownlinkNotification::Unlinked,
                N::Val(v) => {
                    if *v != NONE_VALUE {
                        body.extend_from_slice(v.to_string().as_bytes());
                    }
                    DownlinkNotification::Event { body: body.as_ref() }
                }
                other => {
                    let msg: MapMessage<i32, i32> = match other {
                        N::Update(k, v) => MapMessage::Update { key: *k, value: *v },
                        N::Remove(k) => MapMessage::Remove { key: *k },
                        N::Clear => MapMessage::Clear,
                        N::Take(n) => MapMessage::Take(*n),
                        N::Drop(n) => MapMessage::Drop(*n),
                        _ => unreachable!(),
                    };
                    let mut menc = MapMessageEncoder::default();
                    menc.encode(msg, &mut body).expect("encode");
                    DownlinkNotification::Event { body: body.as_ref() }
                }
            };
            enc.encode(note, &mut buf).expect("encode");
            if tx.write_all(&buf).await.is_err() {
                break;
            }
            *fed2.borrow_mut() += 1;
            for _ in 0..gap {
                Yield(false).await;
            }
        }
        for (p, op) in feeder_ops.iter().filter(|(p, _)| *p as usize >= script.len()) {
            gate_f.borrow_mut().want = Some((*p, *op));
            Parked(gate_f.clone()).await;
        }
        // The link is over: end of stream.
        drop(tx);
    });
    // Output drain: records the values of the commands the downlink sends.
    let outs: Rc<RefCell<Vec<i32>>> = Rc::new(RefCell::new(vec![]));
    let outs2 = outs.clone();
    let out_bodies: Rc<RefCell<Vec<String>>> = Rc::new(RefCell::new(vec![]));
    let out_bodies2 = out_bodies.clone();
    let is_map = sc.map;
    exec.spawn("drain", 64, async move {
        if is_map {
            // MapOperation frames, decoded with the product's decoder.
            use futures::StreamExt;
            let mut framed = tokio_util::codec::FramedRead::new(out_rx, MapOperationDecoder::<i32, i32>::default());
            while let Some(item) = framed.next().await {
                match item {
                    Ok(MapOperation::Update { key, value }) => out_bodies2.borrow_mut().push(format!("@update(key:{key}) {value}")),
                    Ok(MapOperation::Remove { key }) => out_bodies2.borrow_mut().push(format!("@remove(key:{key})")),
                    Ok(MapOperation::Clear) => out_bodies2.borrow_mut().push("@clear".to_string()),
                    Err(e) => {
                        out_bodies2.borrow_mut().push(format!("undecodable: {e}"));
                        break;
                    }
                }
            }
            return;
        }
        let mut buf = BytesMut::new();
        let mut chunk = [0u8; 256];
        loop {
            match out_rx.read(&mut chunk).await {
                Ok(0) | Err(_) => break,
                Ok(n) => {
                    buf.extend_from_slice(&chunk[..n]);
                    // DownlinkOperation frames: u64 length + Recon body.
                    while buf.len() >= 8 {
                        let len = u64::from_be_bytes(buf[..8].try_into().unwrap()) as usize;
                        if buf.len() < 8 + len {
                            break;
                        }
                        let _ = buf.split_to(8);
                        let body = buf.split_to(len);
                        if let Some(v) = std::str::from_utf8(&body).ok().and_then(|t| t.trim().parse::<i32>().ok()) {
                            outs2.borrow_mut().push(v);
                        }
                    }
                }
            }
        }
    });
    if !sc.local_sets.is_empty() || sc.drop_handle_after.is_some() {
        let sets = sc.local_sets.clone();
        let drop_after = sc.drop_handle_after;
        exec.spawn("local", 64, async move {
            let mut polls = 0u32;
            let mut sets = sets;
            sets.sort();
            for (after, v) in sets {
                if drop_after.map(|d| after > d).unwrap_or(false) {
                    break;
                }
                while polls < after {
                    Yield(false).await;
                    polls += 1;
                }
                if set_tx.send(ValueDownlinkSet { to: Some(v) }).await.is_err() {
                    break;
                }
            }
            if let Some(d) = drop_after {
                while polls < d {
                    Yield(false).await;
                    polls += 1;
                }
                drop(set_tx);
            } else {
                // Keep the handle alive until the end of the run.
                let _keep = set_tx;
                std::future::pending::<()>().await;
            }
            std::future::pending::<()>().await;
        });
    } else {
        // Keep the handle alive.
        exec.spawn("hold", 64, async move {
            let _keep = set_tx;
            std::future::pending::<()>().await;
        });
    }
    let mut step_limit = false;
    let mut map_ops_issued = vec![];
    loop {
        if exec.steps > 20_000 {
            step_limit = true;
            break;
        }
        if !exec.step() {
            // Nothing is runnable: the point at which a local map write is issued / the feeder is let go.
            let mut g = gate.borrow_mut();
            if !exec.is_done(task_node) && g.want.is_some() {
                if g.phase == 0 {
                    let (p, op) = g.want.unwrap();
                    let msg = match op {
                        MOp::Upd(k, v) => MapOperation::Update { key: k, value: v },
                        MOp::Rem(k) => MapOperation::Remove { key: k },
                        MOp::Clr => MapOperation::Clear,
                    };
                    let ok = map_tx.try_send(msg).is_ok();
                    map_ops_issued.push((p, op, ok));
                    g.phase = 1;
                } else {
                    g.phase = 0;
                    g.want = None;
                    g.released = true;
                    if let Some(w) = g.waker.take() {
                        w.wake();
                    }
                }
                drop(g);
                tokio::task::yield_now().await;
                continue;
            }
            drop(g);
            if exec.is_done(task_node) || !exec.has_ready() {
                break;
            }
        }
        tokio::task::yield_now().await;
    }
    drop(map_tx);
    let rec = Record {
        out_bodies: out_bodies.borrow().clone(),
        map_ops_issued,
        sc: sc.clone(),
        trace: trace.lock().unwrap().clone(),
        result: result.borrow().clone(),
        out_frames: outs.borrow().clone(),
        steps: exec.steps,
        decisions: exec.decisions,
        panics: exec.panics.clone(),
        step_limit,
        fed: *fed.borrow(),
    };
    drop(exec);
    rec
}

/// The reference fold: expected callbacks for a prefix of the script (local map writes leave the state alone).
pub fn reference(sc: &DtScenario) -> (Vec<Cb>, bool) {
    reference_local(sc, false)
}

/// The reference fold; with `apply_local` the local map writes of the scenario are applied to the state at their
/// positions while the link is up (what the client map downlink does), without any callback.
pub fn reference_local(sc: &DtScenario, apply_local: bool) -> (Vec<Cb>, bool) {
    #[derive(PartialEq)]
    enum St {
        Unlinked,
        Linked,
        Synced,
    }
    let mut st = St::Unlinked;
    let mut val: Option<i32> = None;
    let mut map: BTreeMap<i32, i32> = BTreeMap::new();
    let mut out = vec![];
    let mut terminated = false;
    for (idx, n) in sc.script.iter().enumerate() {
        if terminated {
            break;
        }
        if apply_local && sc.map && st != St::Unlinked {
            for (_, op) in sc.map_ops.iter().filter(|(p, _)| *p as usize == idx) {
                match op {
                    MOp::Upd(k, v) => {
                        map.insert(*k, *v);
                    }
                    MOp::Rem(k) => {
                        map.remove(k);
                    }
                    MOp::Clr => map.clear(),
                }
            }
        }
        match n {
            N::Linked => {
                if st == St::Unlinked {
                    out.push(Cb::Linked);
                    st = St::Linked;
                    val = None;
                    map.clear();
                }
            }
            N::Synced => {
                if st == St::Linked {
                    if sc.map {
                        out.push(Cb::Synced(None, map.clone()));
                        st = St::Synced;
                    } else if let Some(v) = val {
                        out.push(Cb::Synced(Some(v), BTreeMap::new()));
                        st = St::Synced;
                    } else {
                        // Synced without a value: the value downlink fails (illegal script).
                        terminated = true;
                    }
                } else if !sc.map {
                    // A second synced / synced while unlinked is an error for a value downlink.
                    terminated = true;
                }
            }
            N::Unlinked => {
                out.push(Cb::Unlinked);
                if sc.terminate_on_unlinked {
                    terminated = true;
                } else {
                    st = St::Unlinked;
                }
            }
            ev => {
                if st == St::Unlinked {
                    continue;
                }
                let dispatch = st == St::Synced || sc.events_when_not_synced;
                match ev {
                    N::Val(v) => {
                        if dispatch {
                            out.push(Cb::Event(*v));
                            out.push(Cb::Set(val, *v));
                        }
                        val = Some(*v);
                    }
                    N::Update(k, v) => {
                        let old = map.insert(*k, *v);
                        if dispatch {
                            out.push(Cb::Update { k: *k, old, new: *v, map: map.clone() });
                        }
                    }
                    N::Remove(k) => {
                        if let Some(old) = map.remove(k) {
                            if dispatch {
                                out.push(Cb::Remove { k: *k, old, map: map.clone() });
                            }
                        }
                    }
                    N::Clear => {
                        let old = std::mem::take(&mut map);
                        if dispatch {
                            out.push(Cb::Clear(old));
                        }
                    }
                    N::Take(n) => {
                        let keys: Vec<i32> = map.keys().copied().skip(*n as usize).collect();
                        for k in keys {
                            let old = map.remove(&k).unwrap();
                            if dispatch {
                                out.push(Cb::Remove { k, old, map: map.clone() });
                            }
                        }
                    }
                    N::Drop(n) => {
                        let keys: Vec<i32> = map.keys().copied().take(*n as usize).collect();
                        for k in keys {
                            let old = map.remove(&k).unwrap();
                            if dispatch {
                                out.push(Cb::Remove { k, old, map: map.clone() });
                            }
                        }
                    }
                    _ => {}
                }
            }
        }
    }
    (out, terminated)
}

pub fn same_kind(a: &Cb, b: &Cb) -> bool {
    std::mem::discriminant(a) == std::mem::discriminant(b)
}

pub fn check(rec: &Record) -> Vec<Violation> {
    let sc = &rec.sc;
    let strict = check_against(rec, false);
    if !sc.map || sc.map_ops.is_empty() || !sc.legal || strict.is_empty() {
        return strict;
    }
    // The history differs from the fold of the notifications alone. If it is exactly the fold with the local
    // writes applied to the state at their positions, that is one (recorded) behaviour; anything else is judged
    // against that behaviour, so that a fault in how local writes are handled is still reported on its own.
    let with_local = check_against(rec, true);
    if with_local.is_empty() {
        let frag = if sc.in_cap < 4096 { "fragmented" } else { "whole_frames" };
        let first = &strict[0];
        return vec![Violation::new(
            "C08",
            "C08.local_write",
            &format!("applied_to_state:{frag}"),
            format!(
                "the callbacks equal the fold of the notifications only if the local writes {:?} are applied to the state when issued; against the notifications alone: {}",
                sc.map_ops, first.detail
            ),
        )];
    }
    with_local
}

fn check_against(rec: &Record, apply_local: bool) -> Vec<Violation> {
    let mut out = vec![];
    let sc = &rec.sc;
    let frag = if sc.in_cap < 4096 { "fragmented" } else { "whole_frames" };
    for p in &rec.panics {
        out.push(Violation::new("C08", "C08.panic", frag, format!("{} panicked: {}", p.node, p.message)));
    }
    if !sc.legal || rec.step_limit {
        return out;
    }
    let (expect, _) = reference_local(sc, apply_local);
    let got: Vec<Cb> = rec.trace.iter().map(|(_, c)| c.clone()).collect();
    // Compare callback by callback. The map snapshot handed to on_remove during take / drop may be any
    // state the map passes through (or the final one): it must not contain the removed key and must
    // contain every entry that survives the whole operation.
    let n = expect.len().min(got.len());
    for i in 0..n {
        let (e, g) = (&expect[i], &got[i]);
        let ok = match (e, g) {
            (Cb::Remove { k: ek, old: eo, map: em }, Cb::Remove { k: gk, old: go, map: gm }) => {
                // `em` is the state right after removing `ek`; later removals of the same take/drop shrink it further.
                let final_map: BTreeMap<i32, i32> = {
                    // Entries of `em` that are never reported removed by the directly following Remove callbacks.
                    let mut m = em.clone();
                    for later in expect[i + 1..].iter() {
                        match later {
                            Cb::Remove { k, .. } => {
                                m.remove(k);
                            }
                            _ => break,
                        }
                    }
                    m
                };
                ek == gk && eo == go && !gm.contains_key(gk) && final_map.iter().all(|(k, v)| gm.get(k) == Some(v)) && gm.iter().all(|(k, v)| em.get(k) == Some(v))
            }
            _ => e == g,
        };
        if !ok {
            let rule = if !same_kind(e, g) {
                "C08.callbacks"
            } else {
                match e {
                    Cb::Synced(..) => "C08.on_synced_state",
                    _ => "C08.fold",
                }
            };
            let kind = format!("{}:{}", cb_name(e), frag);
            out.push(Violation::new("C08", rule, &kind, format!("callback #{i}: expected {:?} but the downlink made {:?} (config events_when_not_synced={} terminate_on_unlinked={})", e, g, sc.events_when_not_synced, sc.terminate_on_unlinked)));
            return out;
        }
    }
    if got.len() > expect.len() {
        out.push(Violation::new("C08", "C08.callbacks", &format!("extra_{}:{}", cb_name(&got[expect.len()]), frag), format!("unexpected callback {:?} after the {} expected ones", got[expect.len()], expect.len())));
    } else if got.len() < expect.len() && rec.fed == sc.script.len() {
        out.push(Violation::new("C08", "C08.callbacks", &format!("missing_{}:{}", cb_name(&expect[got.len()]), frag), format!("callback {:?} was never made (got {} of {}; task result {:?})", expect[got.len()], got.len(), expect.len(), rec.result)));
    }
    if let Some(r) = &rec.result {
        if r != "Ok" {
            out.push(Violation::new("C08", "C08.task_failed", frag, format!("the downlink task failed on a legal notification sequence: {r}")));
        }
    }
    // Every local map write accepted by the handle is written to the link, in order, unchanged.
    if sc.map && !rec.map_ops_issued.is_empty() {
        let expect_out: Vec<String> = rec
            .map_ops_issued
            .iter()
            .filter(|(_, _, ok)| *ok)
            .map(|(_, op, _)| match op {
                MOp::Upd(k, v) => format!("@update(key:{k}) {v}"),
                MOp::Rem(k) => format!("@remove(key:{k})"),
                MOp::Clr => "@clear".to_string(),
            })
            .collect();
        let norm = |t: &String| t.replace(' ', "");
        let got_out: Vec<String> = rec.out_bodies.iter().map(norm).collect();
        let exp_out: Vec<String> = expect_out.iter().map(norm).collect();
        let task_over = rec.result.is_some();
        let ok = if task_over { exp_out.starts_with(&got_out) } else { got_out == exp_out };
        if !ok {
            out.push(Violation::new("C08", "C08.local_map_write", frag, format!("local writes handed to the handle {:?}, commands written to the link {:?}", expect_out, rec.out_bodies)));
        }
    }
    // Local sets come out in order.
    let sets: Vec<i32> = {
        let mut s = sc.local_sets.clone();
        s.sort();
        s.into_iter().map(|(_, v)| v).collect()
    };
    let mut pos = 0;
    for v in rec.out_frames.iter() {
        match sets[pos..].iter().position(|s| s == v) {
            Some(p) => pos += p + 1,
            None => {
                out.push(Violation::new("C08", "C08.local_set_order", frag, format!("the downlink sent {v} out of order / unknown (sets {:?}, sent {:?})", sets, rec.out_frames)));
                break;
            }
        }
    }
    out
}

pub fn cb_name(c: &Cb) -> &'static str {
    match c {
        Cb::Linked => "linked",
        Cb::Synced(..) => "synced",
        Cb::Event(_) => "event",
        Cb::Set(..) => "set",
        Cb::Update { .. } => "update",
        Cb::Remove { .. } => "remove",
        Cb::Clear(_) => "clear",
        Cb::Unlinked => "unlinked",
    }
}

pub struct DlTaskWorld {
    pub map: bool,
}

impl World for DlTaskWorld {
    fn name(&self) -> &'static str {
        if self.map {
            "dltask-map"
        } else {
            "dltask-value"
        }
    }

    fn generate(&self, seed: u64, _tier: Tier) -> Json {
        serde_json::to_value(generate(seed, self.map)).unwrap()
    }

    fn execute(&self, scenario: &Json, keep_log: bool) -> Outcome {
        let sc: DtScenario = match serde_json::from_value(scenario.clone()) {
            Ok(s) => s,
            Err(e) => return Outcome { harness_error: Some(format!("bad scenario: {e}")), ..Default::default() },
        };
        let rec = block_on_sim(sc.tokio_seed, run(&sc));
        let mut log = EventLog::new(keep_log);
        for (s, c) in rec.trace.iter() {
            log.rec(*s, "callback", &format!("{:?}", c));
        }
        log.rec(rec.steps, "result", &format!("{:?} fed={} sent={:?}", rec.result, rec.fed, rec.out_frames));
        if !rec.map_ops_issued.is_empty() {
            log.rec(rec.steps, "local", &format!("issued={:?} written={:?}", rec.map_ops_issued, rec.out_bodies));
        }
        let mut out = Outcome {
            violations: check(&rec),
            log_hash: log.hash(),
            log_lines: log.lines().to_vec(),
            steps: rec.steps,
            decisions: rec.decisions,
            ..Default::default()
        };
        out.count("notifications_fed", rec.fed as u64);
        out.count("callbacks", rec.trace.len() as u64);
        out.count("legal_scripts", sc.legal as u64);
        out.count("illegal_scripts", !sc.legal as u64);
        out.count("fragmented_runs", (sc.in_cap < 4096) as u64);
        out.count("probe.events_before_sync", sc.script.iter().take_while(|n| !matches!(n, N::Synced)).filter(|n| !matches!(n, N::Linked | N::Unlinked)).count() as u64);
        out.count("probe.take_drop", sc.script.iter().filter(|n| matches!(n, N::Take(_) | N::Drop(_))).count() as u64);
        out.count("probe.clear", sc.script.iter().filter(|n| matches!(n, N::Clear)).count() as u64);
        out.count("probe.relink", sc.script.iter().filter(|n| matches!(n, N::Linked)).count().saturating_sub(1) as u64);
        out.count("local_sets_sent", rec.out_frames.len() as u64);
        out.count("local_map_writes_issued", rec.map_ops_issued.len() as u64);
        out.count("local_map_writes_written", rec.out_bodies.len() as u64);
        if sc.map && sc.legal && !sc.map_ops.is_empty() {
            out.count("probe.local_write_changes_fold", (reference_local(&sc, true).0 != reference_local(&sc, false).0) as u64);
        }
        out.count("step_limit_hit", rec.step_limit as u64);
        out.nontrivial = sc.script.len() > 3 && (sc.in_cap < 4096 || sc.script.iter().any(|n| matches!(n, N::Take(_) | N::Drop(_) | N::Clear)) || !sc.local_sets.is_empty() || !sc.map_ops.is_empty() || sc.script.iter().filter(|n| matches!(n, N::Linked)).count() > 1 || !sc.events_when_not_synced);
        out
    }

    fn shrink(&self, scenario: &Json) -> Vec<Json> {
        let Ok(sc) = serde_json::from_value::<DtScenario>(scenario.clone()) else { return vec![] };
        let mut out = vec![];
        let n = sc.script.len();
        for i in 0..n {
            // Keep scripts legal: never drop Linked / Synced markers, only events and whole trailing parts.
            if !matches!(sc.script[i], N::Linked | N::Synced | N::Unlinked) {
                let mut c = sc.clone();
                c.script.remove(i);
                for (p, _) in c.map_ops.iter_mut() {
                    if *p as usize > i {
                        *p -= 1;
                    }
                }
                out.push(c);
            }
        }
        for cut in (1..n).rev() {
            let mut c = sc.clone();
            c.script.truncate(cut);
            for (p, _) in c.map_ops.iter_mut() {
                *p = (*p).min(cut as u32);
            }
            out.push(c);
        }
        if !sc.local_sets.is_empty() {
            let mut c = sc.clone();
            c.local_sets.clear();
            out.push(c);
        }
        for i in 0..sc.map_ops.len() {
            let mut c = sc.clone();
            c.map_ops.remove(i);
            out.push(c);
        }
        if sc.in_cap != 4096 {
            let mut c = sc.clone();
            c.in_cap = 4096;
            out.push(c);
        }
        if sc.gap != 0 {
            let mut c = sc.clone();
            c.gap = 0;
            out.push(c);
        }
        if sc.policy != 0 {
            let mut c = sc.clone();
            c.policy = 0;
            out.push(c);
        }
        out.into_iter().map(|s| serde_json::to_value(s).unwrap()).collect()
    }

    fn rule(&self) -> String {
        "one run = one seeded notification script (legal sessions linked/events/synced/events/unlinked/relink, or an arbitrary order for 'no panic'), one of the four configurations, interleaved local sets, channel capacity (whole frames or fragmented), schedule seed; \
         non-trivial = more than three notifications and at least one of: fragmented delivery, take/drop/clear, local sets, a relink, or events suppressed before sync; distinct = distinct hash of the callback trace".into()
    }

    fn components(&self) -> Json {
        json!({
            "real": ["swimos_downlink::DownlinkTask over value_downlink / map_downlink models (task/value.rs, task/map.rs)", "swimos_agent_protocol downlink notification / map message codecs", "swimos_byte_channel"],
            "stub": ["notification feeder (scripted link)", "output drain", "executor"],
            "not_covered": ["agent-hosted downlinks (server/swimos_agent/src/agent_model/downlink/hosted) are not driven by this world yet"]
        })
    }
}

#[allow(dead_code)]
fn unused(_: BTreeSet<i32>) {}
