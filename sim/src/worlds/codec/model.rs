//! Harness-side message model of the `codec` world: an explicit, JSON-serialisable description of
//! every message of every codec family, body values, and the canonical comparable form of decoded
//! items.

use std::fmt::Debug;

use serde::{Deserialize, Serialize};
use swimos_form::read::RecognizerReadable;
use swimos_form::write::StructuralWritable;
use swimos_model::{Attr, Blob, Item, Text, Value};
use swimos_recon::print_recon_compact;

use crate::core::rng::Rng;

pub fn hex(bytes: &[u8]) -> String {
    let mut s = String::with_capacity(bytes.len() * 2);
    for b in bytes {
        s.push_str(&format!("{:02x}", b));
    }
    s
}

pub fn unhex(s: &str) -> Option<Vec<u8>> {
    if s.len() % 2 != 0 {
        return None;
    }
    let b = s.as_bytes();
    let mut out = Vec::with_capacity(s.len() / 2);
    for i in (0..b.len()).step_by(2) {
        let t = std::str::from_utf8(&b[i..i + 2]).ok()?;
        out.push(u8::from_str_radix(t, 16).ok()?);
    }
    Some(out)
}

/// JSON model of a `swimos_model::Value` (restricted to shapes whose Recon text is unambiguous).
#[derive(Debug, Clone, Serialize, Deserialize, PartialEq)]
pub enum VJ {
    Extant,
    Bool(bool),
    I32(i32),
    I64(i64),
    U64(u64),
    F64(f64),
    Text(String),
    Data(String),
    Rec { attrs: Vec<(String, VJ)>, items: Vec<IJ> },
}

#[derive(Debug, Clone, Serialize, Deserialize, PartialEq)]
pub enum IJ {
    V(VJ),
    Slot(VJ, VJ),
}

impl VJ {
    pub fn to_value(&self) -> Value {
        match self {
            VJ::Extant => Value::Extant,
            VJ::Bool(b) => Value::BooleanValue(*b),
            VJ::I32(n) => Value::Int32Value(*n),
            VJ::I64(n) => Value::Int64Value(*n),
            VJ::U64(n) => Value::UInt64Value(*n),
            VJ::F64(x) => Value::Float64Value(*x),
            VJ::Text(s) => Value::Text(Text::new(s)),
            VJ::Data(h) => Value::Data(Blob::encode(unhex(h).unwrap_or_default())),
            VJ::Rec { attrs, items } => Value::Record(
                attrs.iter().map(|(n, v)| Attr { name: Text::new(n), value: v.to_value() }).collect(),
                items
                    .iter()
                    .map(|i| match i {
                        IJ::V(v) => Item::ValueItem(v.to_value()),
                        IJ::Slot(k, v) => Item::Slot(k.to_value(), v.to_value()),
                    })
                    .collect(),
            ),
        }
    }
}

/// A message body (or a map key / map value).
#[derive(Debug, Clone, Serialize, Deserialize, PartialEq)]
pub enum Body {
    /// Arbitrary bytes (hex); only for raw encoder -> raw decoder pairs.
    Raw(String),
    I32(i32),
    Text(String),
    Val(VJ),
}

/// One message of any family. `k` selects the variant, the other fields are used as the variant requires.
#[derive(Debug, Clone, Serialize, Deserialize, PartialEq, Default)]
pub struct Msg {
    pub k: String,
    /// Map payload kind (update/remove/clear/take/drop) for families whose payload is a map message/operation.
    #[serde(default, skip_serializing_if = "Option::is_none")]
    pub mk: Option<String>,
    /// Uuid (32 hex digits).
    #[serde(default, skip_serializing_if = "Option::is_none")]
    pub id: Option<String>,
    /// take/drop count, or a 16 bit endpoint id.
    #[serde(default, skip_serializing_if = "Option::is_none")]
    pub n: Option<u64>,
    #[serde(default, skip_serializing_if = "Option::is_none")]
    pub host: Option<String>,
    #[serde(default, skip_serializing_if = "Option::is_none")]
    pub node: Option<String>,
    #[serde(default, skip_serializing_if = "Option::is_none")]
    pub lane: Option<String>,
    #[serde(default, skip_serializing_if = "std::ops::Not::not")]
    pub flag: bool,
    /// Trailing spaces appended to Recon bodies when a raw encoder feeds a typed decoder.
    #[serde(default, skip_serializing_if = "is_zero")]
    pub trail: u8,
    #[serde(default, skip_serializing_if = "Vec::is_empty")]
    pub b: Vec<Body>,
}

fn is_zero(n: &u8) -> bool {
    *n == 0
}

impl Msg {
    pub fn kind(k: &str) -> Msg {
        Msg { k: k.to_string(), ..Default::default() }
    }
    pub fn uuid(&self) -> Result<uuid::Uuid, String> {
        let s = self.id.as_deref().ok_or("missing id")?;
        u128::from_str_radix(s, 16).map(uuid::Uuid::from_u128).map_err(|e| format!("bad id: {e}"))
    }
    pub fn num(&self) -> Result<u64, String> {
        self.n.ok_or_else(|| "missing n".to_string())
    }
    pub fn body(&self, i: usize) -> Result<&Body, String> {
        self.b.get(i).ok_or_else(|| format!("missing body {i} in {}", self.k))
    }
    pub fn node(&self) -> &str {
        self.node.as_deref().unwrap_or("")
    }
    pub fn lane(&self) -> &str {
        self.lane.as_deref().unwrap_or("")
    }
}

/// Canonical comparable component of a decoded item.
#[derive(Debug, Clone, PartialEq)]
pub enum Canon {
    Bytes(Vec<u8>),
    I32(i32),
    Str(String),
    Val(Value),
    Id(u128),
    Num(u64),
    Flag(bool),
    Absent,
}

impl Canon {
    pub fn render(&self) -> String {
        match self {
            Canon::Bytes(b) => match std::str::from_utf8(b) {
                Ok(s) if s.chars().all(|c| !c.is_control()) && b.len() <= 48 => format!("b{:?}", s),
                _ if b.len() <= 48 => format!("x{}", hex(b)),
                _ => format!("x{}..({} bytes)", hex(&b[..24]), b.len()),
            },
            Canon::I32(n) => format!("{n}i32"),
            Canon::Str(s) => {
                if s.len() <= 48 {
                    format!("{:?}", s)
                } else {
                    format!("str({} bytes, fnv {:x})", s.len(), crate::core::rng::fnv1a(s.as_bytes()))
                }
            }
            Canon::Val(v) => format!("`{}`", print_recon_compact(v)),
            Canon::Id(i) => format!("#{:x}", i),
            Canon::Num(n) => format!("{n}"),
            Canon::Flag(b) => format!("{b}"),
            Canon::Absent => "-".to_string(),
        }
    }
}

#[derive(Debug, Clone, PartialEq)]
pub struct CanonMsg {
    pub kind: String,
    pub parts: Vec<Canon>,
}

impl CanonMsg {
    pub fn new(kind: &str, parts: Vec<Canon>) -> CanonMsg {
        CanonMsg { kind: kind.to_string(), parts }
    }
    pub fn render(&self) -> String {
        let parts: Vec<String> = self.parts.iter().map(|p| p.render()).collect();
        format!("{}({})", self.kind, parts.join(", "))
    }
}

/// A typed body type usable with the Recon based ("typed") encoders and decoders.
pub trait Ty: RecognizerReadable + StructuralWritable + Clone + Debug + PartialEq + Send + 'static {
    const NAME: &'static str;
    fn from_body(b: &Body) -> Result<Self, String>;
    fn canon(self) -> Canon;
}

impl Ty for i32 {
    const NAME: &'static str = "i32";
    fn from_body(b: &Body) -> Result<Self, String> {
        match b {
            Body::I32(n) => Ok(*n),
            ow => Err(format!("body {:?} is not an i32", ow)),
        }
    }
    fn canon(self) -> Canon {
        Canon::I32(self)
    }
}

impl Ty for String {
    const NAME: &'static str = "text";
    fn from_body(b: &Body) -> Result<Self, String> {
        match b {
            Body::Text(s) => Ok(s.clone()),
            ow => Err(format!("body {:?} is not a text", ow)),
        }
    }
    fn canon(self) -> Canon {
        Canon::Str(self)
    }
}

impl Ty for Value {
    const NAME: &'static str = "value";
    fn from_body(b: &Body) -> Result<Self, String> {
        match b {
            Body::Val(v) => Ok(v.to_value()),
            Body::I32(n) => Ok(Value::Int32Value(*n)),
            Body::Text(s) => Ok(Value::Text(Text::new(s))),
            ow => Err(format!("body {:?} is not a value", ow)),
        }
    }
    fn canon(self) -> Canon {
        Canon::Val(self)
    }
}

/// The bytes a *raw* encoder is given for a body: arbitrary bytes as they are, typed bodies as the
/// compact Recon text of the value (which is also exactly what a typed encoder must put on the wire).
pub fn raw_bytes(b: &Body, trail: u8) -> Vec<u8> {
    let mut out = match b {
        Body::Raw(h) => return unhex(h).unwrap_or_default(),
        Body::I32(n) => format!("{}", print_recon_compact(n)).into_bytes(),
        Body::Text(s) => format!("{}", print_recon_compact(s)).into_bytes(),
        Body::Val(v) => format!("{}", print_recon_compact(&v.to_value())).into_bytes(),
    };
    for _ in 0..trail {
        out.push(b' ');
    }
    out
}

// ---------------------------------------------------------------------------------------------
// Generators (boundary heavy).
// ---------------------------------------------------------------------------------------------

const TEXTS: &[&str] = &[
    "", "a", "name", "true", "2morrow", "h\u{e9}llo", "\u{65e5}\u{672c}\u{8a9e}", "\u{1f600}", "a\"b\\c", "line\nbreak\ttab", "sp ace", "@attr{1}",
    "\u{3}\u{4}\u{3}\u{4}", "x\u{0}y", "{", "0", "-1", "\u{7ff}\u{800}\u{ffff}\u{10000}",
];

pub fn gen_text(rng: &mut Rng) -> String {
    match rng.below(10) {
        0 => {
            // Long text, lengths around interesting sizes.
            let n = *rng.pick(&[7usize, 8, 9, 15, 16, 17, 31, 32, 33, 255, 256, 300]);
            let alphabet: Vec<char> = "abcXYZ_09 \u{e9}\u{3c0}".chars().collect();
            (0..n).map(|_| *rng.pick(&alphabet)).collect()
        }
        _ => rng.pick(TEXTS).to_string(),
    }
}

pub fn gen_name(rng: &mut Rng) -> String {
    match rng.below(8) {
        0 => String::new(),
        1 => "a".into(),
        2 => "/node".into(),
        3 => "lane".into(),
        4 => "/n\u{f6}de/\u{3c0}".into(),
        5 => {
            let n = *rng.pick(&[7usize, 8, 9, 16, 17, 24, 31, 32, 33, 300]);
            (0..n).map(|i| (b'a' + (i % 26) as u8) as char).collect()
        }
        6 => "\u{3}\u{4}\u{0}\u{1}".into(),
        _ => format!("/unit/{}", rng.below(1000)),
    }
}

pub fn gen_i32(rng: &mut Rng) -> i32 {
    match rng.below(8) {
        0 => 0,
        1 => -1,
        2 => i32::MAX,
        3 => i32::MIN,
        4 => 7,
        5 => 12345678,
        _ => rng.range_i(-100_000, 100_000) as i32,
    }
}

fn gen_prim(rng: &mut Rng) -> VJ {
    match rng.below(11) {
        0 => VJ::Extant,
        1 => VJ::Bool(rng.chance(1, 2)),
        2 | 3 => VJ::I32(gen_i32(rng)),
        4 => VJ::I64(*rng.pick(&[i64::MAX, i64::MIN, 1 << 40, -(1 << 33), 5])),
        5 => VJ::U64(*rng.pick(&[u64::MAX, 1 << 63, 77])),
        6 => VJ::F64(*rng.pick(&[0.5, -2.25, 1234.125])),
        7 => VJ::Data(hex(&gen_raw(rng))),
        _ => VJ::Text(gen_text(rng)),
    }
}

fn gen_ident(rng: &mut Rng) -> String {
    rng.pick(&["a", "tag", "update", "key", "_x1", "\u{3c0}"]).to_string()
}

pub fn gen_value(rng: &mut Rng) -> VJ {
    match rng.below(10) {
        0..=4 => gen_prim(rng),
        5 => VJ::Rec { attrs: vec![], items: vec![] },
        6 => {
            // Attribute(s) only or attributes with a body of primitives.
            let na = rng.range(1, 2) as usize;
            let attrs = (0..na)
                .map(|_| (gen_ident(rng), if rng.chance(1, 2) { VJ::Extant } else { VJ::I32(gen_i32(rng)) }))
                .collect();
            let ni = *rng.pick(&[0usize, 2, 3]);
            let items = (0..ni).map(|_| gen_item(rng, false)).collect();
            VJ::Rec { attrs, items }
        }
        _ => {
            let ni = rng.range(2, 4) as usize;
            let items = (0..ni).map(|_| gen_item(rng, true)).collect();
            VJ::Rec { attrs: vec![], items }
        }
    }
}

fn gen_item(rng: &mut Rng, nest: bool) -> IJ {
    match rng.below(6) {
        0 | 1 => IJ::Slot(VJ::Text(gen_ident(rng)), gen_prim(rng)),
        2 if nest => {
            let ni = rng.range(2, 3) as usize;
            IJ::V(VJ::Rec { attrs: vec![], items: (0..ni).map(|_| gen_item(rng, false)).collect() })
        }
        3 => IJ::Slot(VJ::I32(gen_i32(rng)), gen_prim(rng)),
        _ => IJ::V(gen_prim(rng)),
    }
}

/// Raw bodies: lengths around header sizes, contents that imitate tags and length prefixes.
pub fn gen_raw(rng: &mut Rng) -> Vec<u8> {
    let len = match rng.below(10) {
        0 | 1 => 0,
        2 => 1,
        3 => *rng.pick(&[7usize, 8, 9]),
        4 => *rng.pick(&[15usize, 16, 17, 18]),
        5 => *rng.pick(&[24usize, 25, 31, 32, 33]),
        6 => *rng.pick(&[255usize, 256, 257]),
        _ => rng.range(2, 40) as usize,
    };
    let style = rng.below(6);
    (0..len)
        .map(|i| match style {
            0 => 0u8,
            1 => *rng.pick(&[0u8, 1, 2, 3, 4, 5]),
            2 => 0xff,
            3 => b'a' + (i % 26) as u8,
            4 => {
                if i % 9 == 8 {
                    *rng.pick(&[3u8, 4])
                } else {
                    0
                }
            }
            _ => rng.below(256) as u8,
        })
        .collect()
}

pub fn gen_uuid(rng: &mut Rng) -> String {
    let v: u128 = match rng.below(6) {
        0 => 0,
        1 => u128::MAX,
        2 => 1,
        3 => 0x0304_0304_0304_0304_0304_0304_0304_0304,
        _ => ((rng.next_u64() as u128) << 64) | rng.next_u64() as u128,
    };
    format!("{:032x}", v)
}

pub fn gen_count(rng: &mut Rng) -> u64 {
    match rng.below(6) {
        0 => 0,
        1 => 1,
        2 => u64::MAX,
        3 => 0x0300_0000_0000_0004,
        _ => rng.below(1000),
    }
}

/// Generates a body of the given type name ("raw", "i32", "text", "value").
pub fn gen_body(rng: &mut Rng, ty: &str) -> Body {
    match ty {
        "i32" => Body::I32(gen_i32(rng)),
        "text" => Body::Text(gen_text(rng)),
        "value" => Body::Val(gen_value(rng)),
        _ => Body::Raw(hex(&gen_raw(rng))),
    }
}

/// Simpler bodies of the same type (for shrinking).
pub fn simpler_bodies(b: &Body) -> Vec<Body> {
    match b {
        Body::Raw(h) => {
            let bytes = unhex(h).unwrap_or_default();
            let mut out = vec![];
            if !bytes.is_empty() {
                out.push(Body::Raw(String::new()));
                out.push(Body::Raw(hex(&bytes[..bytes.len() / 2])));
                out.push(Body::Raw(hex(&bytes[..bytes.len() - 1])));
                if bytes.iter().any(|b| *b != b'a') {
                    out.push(Body::Raw(hex(&vec![b'a'; bytes.len()])));
                }
            }
            out
        }
        Body::I32(n) => {
            if *n != 0 {
                vec![Body::I32(0), Body::I32(n / 10)]
            } else {
                vec![]
            }
        }
        Body::Text(s) => {
            let mut out = vec![];
            if !s.is_empty() {
                out.push(Body::Text(String::new()));
                out.push(Body::Text("a".into()));
                let cs: Vec<char> = s.chars().collect();
                out.push(Body::Text(cs[..cs.len() / 2].iter().collect()));
                out.push(Body::Text(cs[..cs.len() - 1].iter().collect()));
            }
            out.retain(|b| b != &Body::Text(s.clone()));
            out
        }
        Body::Val(v) => {
            let mut out = vec![];
            if *v != VJ::Extant {
                out.push(Body::Val(VJ::Extant));
                out.push(Body::Val(VJ::I32(1)));
            }
            if let VJ::Rec { attrs, items } = v {
                if !items.is_empty() {
                    out.push(Body::Val(VJ::Rec { attrs: attrs.clone(), items: items[..items.len() - 1].to_vec() }));
                }
                if !attrs.is_empty() {
                    out.push(Body::Val(VJ::Rec { attrs: attrs[..attrs.len() - 1].to_vec(), items: items.clone() }));
                }
            }
            out.retain(|b| b != &Body::Val(v.clone()));
            out
        }
    }
}
