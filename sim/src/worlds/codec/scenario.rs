//! Scenario of the `codec` world: explicit JSON, pure function of the seed; expansion of the
//! enumerating variants; shrinking.

use serde::{Deserialize, Serialize};

use crate::core::rng::Rng;
use crate::core::Tier;

use super::model::{gen_body, gen_count, gen_name, gen_uuid, hex, raw_bytes, simpler_bodies, Body, Msg};
use super::pairs::{family_is_map, FieldKind, Pair, Prepared, FAMILIES};
use super::LEN_VALUES;

#[derive(Debug, Clone, Serialize, Deserialize, PartialEq)]
pub struct Scenario {
    pub seed: u64,
    /// split_enum | multi_split | corrupt_enum | corrupt_random (informative).
    pub kind: String,
    pub groups: Vec<Group>,
}

/// One codec pair, one message sequence (one encoded stream), many cases over it.
#[derive(Debug, Clone, Serialize, Deserialize, PartialEq)]
pub struct Group {
    pub pair: Pair,
    pub msgs: Vec<Msg>,
    pub variants: Vec<Variant>,
}

/// One case, or with `each` an enumeration of cases:
/// `split` = every single split point p (reads [p, rest...]), `truncate` = every truncation position,
/// `tag_bit` = every bit of every tag byte, `len_value` = every length field x every boundary value,
/// `garbage` = first/middle/last byte of every Recon body region.
#[derive(Debug, Clone, Serialize, Deserialize, PartialEq, Default)]
pub struct Variant {
    #[serde(default, skip_serializing_if = "Option::is_none")]
    pub each: Option<String>,
    /// Sizes of the successive reads.
    #[serde(default)]
    pub chunks: Vec<usize>,
    /// Read size once `chunks` is exhausted (0 = the rest at once).
    #[serde(default)]
    pub rep: usize,
    /// `Pending` before read j if bit j % 64 is set.
    #[serde(default)]
    pub pend: u64,
    /// Initial capacity of the FramedRead buffer (0 = default).
    #[serde(default)]
    pub cap: usize,
    #[serde(default, skip_serializing_if = "Option::is_none")]
    pub corr: Option<Corr>,
}

/// kind: bitflip_tag (frame, field = index among the tag bytes of the frame, bit = index among the tag bits),
/// len (frame, field = index among the length fields of the frame, value = boundary value name),
/// truncate (at = stream position), garbage (frame, field = body region, at = offset in the region).
#[derive(Debug, Clone, Serialize, Deserialize, PartialEq, Default)]
pub struct Corr {
    pub kind: String,
    #[serde(default)]
    pub frame: usize,
    #[serde(default)]
    pub field: usize,
    #[serde(default)]
    pub bit: u8,
    #[serde(default, skip_serializing_if = "String::is_empty")]
    pub value: String,
    #[serde(default)]
    pub at: usize,
}

const MAX_ENUM: usize = 400;

fn positions(lo: usize, hi: usize) -> Vec<usize> {
    // lo..hi, thinned evenly if there are more than MAX_ENUM.
    let n = hi.saturating_sub(lo);
    if n <= MAX_ENUM {
        (lo..hi).collect()
    } else {
        (0..MAX_ENUM).map(|i| lo + i * n / MAX_ENUM).collect()
    }
}

/// Expands a variant into explicit cases.
pub fn expand(v: &Variant, prep: &Prepared) -> Vec<Variant> {
    let base = Variant { each: None, ..v.clone() };
    let total = prep.bytes.len();
    match v.each.as_deref() {
        None => vec![base],
        Some("split") => positions(1, total).into_iter().map(|p| Variant { chunks: vec![p], ..base.clone() }).collect(),
        Some("truncate") => positions(0, total)
            .into_iter()
            .map(|at| Variant { corr: Some(Corr { kind: "truncate".into(), at, ..Default::default() }), ..base.clone() })
            .collect(),
        Some("tag_bit") => {
            let mut out = vec![];
            for (frame, fs) in prep.fields.iter().enumerate() {
                let mut field = 0;
                for f in fs {
                    if let FieldKind::Tag { mask, .. } = &f.kind {
                        for bit in 0..mask.count_ones() as u8 {
                            out.push(Variant {
                                corr: Some(Corr { kind: "bitflip_tag".into(), frame, field, bit, ..Default::default() }),
                                ..base.clone()
                            });
                        }
                        field += 1;
                    }
                }
            }
            out.truncate(MAX_ENUM);
            out
        }
        Some("len_value") => {
            let mut out = vec![];
            for (frame, fs) in prep.fields.iter().enumerate() {
                let mut field = 0;
                for f in fs {
                    if let FieldKind::Len { .. } = &f.kind {
                        for value in LEN_VALUES {
                            out.push(Variant {
                                corr: Some(Corr { kind: "len".into(), frame, field, value: value.to_string(), ..Default::default() }),
                                ..base.clone()
                            });
                        }
                        field += 1;
                    }
                }
            }
            out.truncate(MAX_ENUM);
            out
        }
        Some("garbage") => {
            let mut out = vec![];
            for (frame, regions) in prep.bodies.iter().enumerate() {
                for (field, (_, len)) in regions.iter().filter(|(_, l)| *l > 0).enumerate() {
                    let mut ats = vec![0, len / 2, len - 1];
                    ats.dedup();
                    for at in ats {
                        out.push(Variant {
                            corr: Some(Corr { kind: "garbage".into(), frame, field, at, ..Default::default() }),
                            ..base.clone()
                        });
                    }
                }
            }
            out.truncate(MAX_ENUM);
            out
        }
        Some(_) => vec![base],
    }
}

// ---------------------------------------------------------------------------------------------
// Generation.
// ---------------------------------------------------------------------------------------------

fn body_types(pair: &Pair) -> (String, String) {
    if pair.ty == "raw" {
        return ("raw".into(), "raw".into());
    }
    match pair.ty.split_once(',') {
        Some((k, v)) => (k.to_string(), v.to_string()),
        None => (pair.ty.clone(), pair.ty.clone()),
    }
}

pub fn gen_pair(rng: &mut Rng) -> Pair {
    let mut combos = vec![];
    for (f, encs, decs, map) in FAMILIES {
        for e in *encs {
            for d in *decs {
                combos.push((*f, *e, *d, *map));
            }
        }
    }
    let (family, enc, dec, map) = *rng.pick(&combos);
    let all_raw = enc == "raw" && dec == "raw";
    let ty = if all_raw && rng.chance(7, 10) {
        "raw".to_string()
    } else if map {
        rng.pick(&["i32,text", "text,i32", "value,value"]).to_string()
    } else {
        rng.pick(&["i32", "text", "value"]).to_string()
    };
    Pair { family: family.to_string(), enc: enc.to_string(), dec: dec.to_string(), ty }
}

fn small_enough(b: &Body, small: bool) -> bool {
    !small || raw_bytes(b, 0).len() <= 20
}

fn body(rng: &mut Rng, ty: &str, small: bool) -> Body {
    for _ in 0..6 {
        let b = gen_body(rng, ty);
        if small_enough(&b, small) {
            return b;
        }
    }
    match ty {
        "i32" => Body::I32(7),
        "text" => Body::Text("a".into()),
        "value" => Body::Val(super::model::VJ::I32(1)),
        _ => Body::Raw(hex(b"ab")),
    }
}

fn name(rng: &mut Rng, small: bool) -> String {
    for _ in 0..6 {
        let n = gen_name(rng);
        if !small || n.len() <= 12 {
            return n;
        }
    }
    "n".into()
}

fn map_payload(rng: &mut Rng, m: &mut Msg, pair: &Pair, with_take_drop: bool, small: bool) {
    let (kt, vt) = body_types(pair);
    let kinds: &[&str] = if with_take_drop { &["update", "update", "remove", "clear", "take", "drop"] } else { &["update", "update", "remove", "clear"] };
    let mk = *rng.pick(kinds);
    m.mk = Some(mk.to_string());
    match mk {
        "update" => m.b = vec![body(rng, &kt, small), body(rng, &vt, small)],
        "remove" => m.b = vec![body(rng, &kt, small)],
        "take" | "drop" => m.n = Some(gen_count(rng)),
        _ => {}
    }
}

pub fn gen_msg(rng: &mut Rng, pair: &Pair, small: bool) -> Msg {
    let (vt, _) = body_types(pair);
    let fam = pair.family.as_str();
    let map = family_is_map(fam);
    let mut m = Msg::default();
    let payload = |rng: &mut Rng, m: &mut Msg, take_drop: bool| {
        if map {
            map_payload(rng, m, pair, take_drop, small)
        } else {
            m.b = vec![body(rng, &vt, small)]
        }
    };
    match fam {
        "lane.value_request" | "lane.map_request" => match rng.below(10) {
            0..=5 => {
                m.k = "command".into();
                payload(rng, &mut m, true);
            }
            6..=8 => {
                m.k = "sync".into();
                m.id = Some(gen_uuid(rng));
            }
            _ => m.k = "init_complete".into(),
        },
        "lane.value_response" | "lane.map_response" => match rng.below(10) {
            0..=3 => {
                m.k = "event".into();
                payload(rng, &mut m, false);
            }
            4..=6 => {
                m.k = "sync_event".into();
                m.id = Some(gen_uuid(rng));
                payload(rng, &mut m, false);
            }
            7 | 8 => {
                m.k = "synced".into();
                m.id = Some(gen_uuid(rng));
            }
            _ => m.k = "initialized".into(),
        },
        "map.message" => {
            m.k = "map".into();
            payload(rng, &mut m, true);
        }
        "map.operation" => {
            m.k = "map".into();
            payload(rng, &mut m, false);
        }
        "store.value_init" | "store.map_init" => {
            if rng.chance(4, 5) {
                m.k = "command".into();
                payload(rng, &mut m, true);
            } else {
                m.k = "init_complete".into();
            }
        }
        "store.initialized" => m.k = "initialized".into(),
        "store.value_response" | "store.map_response" => {
            m.k = "event".into();
            payload(rng, &mut m, false);
        }
        "downlink.value_notification" | "downlink.map_notification" => match rng.below(10) {
            0 => m.k = "linked".into(),
            1 => m.k = "synced".into(),
            2 => m.k = "unlinked".into(),
            _ => {
                m.k = "event".into();
                payload(rng, &mut m, true);
            }
        },
        "downlink.operation" => {
            m.k = "op".into();
            payload(rng, &mut m, false);
        }
        "command.message" => {
            let addr = |rng: &mut Rng, m: &mut Msg| {
                if rng.chance(1, 2) {
                    m.host = Some(name(rng, small));
                }
                m.node = Some(name(rng, small));
                m.lane = Some(name(rng, small));
            };
            match rng.below(3) {
                0 => {
                    m.k = "register".into();
                    addr(rng, &mut m);
                    m.n = Some(*rng.pick(&[0u64, 1, 2, 0x0304, 65535]));
                }
                1 => {
                    m.k = "addressed".into();
                    addr(rng, &mut m);
                    m.flag = rng.chance(1, 2);
                    payload(rng, &mut m, false);
                }
                _ => {
                    m.k = "registered".into();
                    m.n = Some(*rng.pick(&[0u64, 1, 2, 0x0304, 65535]));
                    m.flag = rng.chance(1, 2);
                    payload(rng, &mut m, false);
                }
            }
        }
        "messages.request" => {
            m.id = Some(gen_uuid(rng));
            m.node = Some(name(rng, small));
            m.lane = Some(name(rng, small));
            match rng.below(6) {
                0 => m.k = "link".into(),
                1 => m.k = "sync".into(),
                2 => m.k = "unlink".into(),
                _ => {
                    m.k = "command".into();
                    payload(rng, &mut m, false);
                }
            }
        }
        "messages.response" => {
            m.id = Some(gen_uuid(rng));
            m.node = Some(name(rng, small));
            m.lane = Some(name(rng, small));
            match rng.below(8) {
                0 => m.k = "linked".into(),
                1 => m.k = "synced".into(),
                2 => m.k = "unlinked".into(),
                3 => {
                    m.k = "unlinked".into();
                    let choices: [&[u8]; 3] = [b"@laneNotFound", b"x", b"\xff\x00"];
                    let c: &[u8] = choices[rng.usize_below(3)];
                    m.b = vec![Body::Raw(hex(c))];
                }
                _ => {
                    m.k = "event".into();
                    payload(rng, &mut m, false);
                }
            }
        }
        "util.with_len_bytes" => {
            m.k = "bytes".into();
            payload(rng, &mut m, false);
        }
        _ => {
            m.k = "value".into();
            payload(rng, &mut m, false);
        }
    }
    if pair.enc == "raw" && pair.ty != "raw" && !m.b.is_empty() && m.k != "unlinked" && rng.chance(1, 5) {
        m.trail = rng.range(1, 3) as u8;
    }
    m
}

fn gen_msgs(rng: &mut Rng, pair: &Pair, lo: u64, hi: u64, small: bool) -> Vec<Msg> {
    let n = rng.range(lo, hi);
    (0..n).map(|_| gen_msg(rng, pair, small)).collect()
}

fn gen_pend(rng: &mut Rng) -> u64 {
    match rng.below(4) {
        0 => rng.next_u64(),
        1 => u64::MAX,
        2 => rng.next_u64() & rng.next_u64() & rng.next_u64(),
        _ => 0,
    }
}

fn gen_cap(rng: &mut Rng) -> usize {
    match rng.below(5) {
        0 => *rng.pick(&[1usize, 2, 3, 8, 9, 16, 17, 33, 64]),
        _ => 0,
    }
}

/// A random multi-split: explicit read sizes down to one byte.
fn gen_chunking(rng: &mut Rng) -> Variant {
    let mut v = Variant { pend: gen_pend(rng), cap: gen_cap(rng), ..Default::default() };
    match rng.below(6) {
        0 => v.rep = 1,
        1 => v.rep = rng.range(2, 9) as usize,
        2 => {
            // Mostly single bytes with occasional bigger reads.
            let n = rng.range(4, 60);
            v.chunks = (0..n).map(|_| if rng.chance(3, 4) { 1 } else { rng.range(2, 40) as usize }).collect();
            v.rep = rng.range(1, 3) as usize;
        }
        3 => {
            let n = rng.range(1, 12);
            v.chunks = (0..n).map(|_| *rng.pick(&[1usize, 7, 8, 9, 10, 16, 17, 18, 24, 25, 31, 32, 33])).collect();
            v.rep = *rng.pick(&[0usize, 1, 8, 9]);
        }
        4 => {
            let n = rng.range(1, 30);
            v.chunks = (0..n).map(|_| rng.range(1, 24) as usize).collect();
            v.rep = *rng.pick(&[0usize, 1, 2, 5]);
        }
        _ => {
            // Few large reads.
            let n = rng.range(1, 4);
            v.chunks = (0..n).map(|_| rng.range(1, 200) as usize).collect();
        }
    }
    v
}

fn gen_corr(rng: &mut Rng) -> Corr {
    let frame = rng.below(8) as usize;
    match rng.below(10) {
        0..=2 => Corr { kind: "bitflip_tag".into(), frame, field: rng.below(4) as usize, bit: rng.below(8) as u8, ..Default::default() },
        3..=6 => Corr { kind: "len".into(), frame, field: rng.below(4) as usize, value: rng.pick(LEN_VALUES).to_string(), ..Default::default() },
        7 | 8 => Corr { kind: "truncate".into(), at: rng.below(4096) as usize, ..Default::default() },
        _ => Corr { kind: "garbage".into(), frame, field: rng.below(2) as usize, at: rng.below(64) as usize, bit: rng.below(12) as u8, ..Default::default() },
    }
}

pub fn generate(seed: u64, tier: Tier) -> Scenario {
    let root = Rng::new(seed);
    let mut rng = root.sub("codec");
    let scale = if tier == Tier::Thorough { 2 } else { 1 };
    let kind = *rng.pick_weighted(&[(30u64, "split_enum"), (25, "multi_split"), (30, "corrupt_enum"), (15, "corrupt_random")]);
    let mut groups = vec![];
    match kind {
        "split_enum" => {
            for _ in 0..rng.range(1, 2) {
                let pair = gen_pair(&mut rng);
                let small = rng.chance(3, 4);
                let msgs = gen_msgs(&mut rng, &pair, 1, if small { 4 } else { 2 }, small);
                let mut variants = vec![
                    Variant::default(),
                    Variant { rep: 1, ..Default::default() },
                    Variant { each: Some("split".into()), cap: gen_cap(&mut rng), ..Default::default() },
                ];
                if rng.chance(1, 2) {
                    // Every split point again, followed by small reads and Pending.
                    variants.push(Variant { each: Some("split".into()), rep: rng.range(1, 9) as usize, pend: gen_pend(&mut rng), ..Default::default() });
                }
                groups.push(Group { pair, msgs, variants });
            }
        }
        "multi_split" => {
            for _ in 0..10 * scale {
                let pair = gen_pair(&mut rng);
                let small = rng.chance(1, 2);
                let msgs = gen_msgs(&mut rng, &pair, 1, 8, small);
                let variants = (0..3).map(|_| gen_chunking(&mut rng)).collect();
                groups.push(Group { pair, msgs, variants });
            }
        }
        "corrupt_enum" => {
            for _ in 0..2 {
                let pair = gen_pair(&mut rng);
                let msgs = gen_msgs(&mut rng, &pair, 1, 3, true);
                let mut variants = vec![];
                let each: Vec<&str> = match rng.below(4) {
                    0 => vec!["truncate"],
                    1 => vec!["tag_bit", "garbage"],
                    2 => vec!["len_value"],
                    _ => vec!["tag_bit", "len_value"],
                };
                for e in each {
                    variants.push(Variant { each: Some(e.into()), ..Default::default() });
                    variants.push(Variant { each: Some(e.into()), rep: 1, ..Default::default() });
                    variants.push(Variant { each: Some(e.into()), ..gen_chunking(&mut rng) });
                }
                groups.push(Group { pair, msgs, variants });
            }
        }
        _ => {
            for _ in 0..10 * scale {
                let pair = gen_pair(&mut rng);
                let small = rng.chance(1, 2);
                let msgs = gen_msgs(&mut rng, &pair, 1, 8, small);
                let variants = (0..3)
                    .map(|_| {
                        let mut v = if rng.chance(1, 3) { Variant::default() } else { gen_chunking(&mut rng) };
                        v.corr = Some(gen_corr(&mut rng));
                        v
                    })
                    .collect();
                groups.push(Group { pair, msgs, variants });
            }
        }
    }
    Scenario { seed, kind: kind.to_string(), groups }
}

// ---------------------------------------------------------------------------------------------
// Shrinking: narrow to one case, then shorten the message sequence, then simplify the chunking.
// ---------------------------------------------------------------------------------------------

fn single(sc: &Scenario, g: &Group, variants: Vec<Variant>) -> Scenario {
    Scenario { seed: sc.seed, kind: sc.kind.clone(), groups: vec![Group { pair: g.pair.clone(), msgs: g.msgs.clone(), variants }] }
}

fn frame_based(c: &Corr) -> bool {
    c.kind != "truncate"
}

pub fn shrink(sc: &Scenario) -> Vec<Scenario> {
    let mut out = vec![];
    let n_variants: usize = sc.groups.iter().map(|g| g.variants.len()).sum();
    let any_each = sc.groups.iter().any(|g| g.variants.iter().any(|v| v.each.is_some()));
    if sc.groups.len() > 1 {
        for g in &sc.groups {
            out.push(single(sc, g, g.variants.clone()));
        }
        return out;
    }
    let Some(g) = sc.groups.first() else { return out };
    if n_variants > 1 {
        // Halves first, then single variants.
        let h = g.variants.len() / 2;
        out.push(single(sc, g, g.variants[..h].to_vec()));
        out.push(single(sc, g, g.variants[h..].to_vec()));
        for v in &g.variants {
            out.push(single(sc, g, vec![v.clone()]));
        }
        return out;
    }
    if any_each {
        // One enumerating variant: expand it into explicit cases (bisect, then singles).
        let Ok(prep) = super::pairs::prepare(&g.pair, &g.msgs) else { return out };
        let cases = expand(&g.variants[0], &prep);
        if cases.len() > 8 {
            let h = cases.len() / 2;
            out.push(single(sc, g, cases[..h].to_vec()));
            out.push(single(sc, g, cases[h..].to_vec()));
        } else {
            for c in cases {
                out.push(single(sc, g, vec![c]));
            }
        }
        return out;
    }
    let Some(v) = g.variants.first() else { return out };
    let with = |msgs: Vec<Msg>, v: Variant| Scenario {
        seed: sc.seed,
        kind: sc.kind.clone(),
        groups: vec![Group { pair: g.pair.clone(), msgs, variants: vec![v] }],
    };
    // 1. Shorten the message sequence.
    if g.msgs.len() > 1 {
        for i in (0..g.msgs.len()).rev() {
            let mut msgs = g.msgs.clone();
            msgs.remove(i);
            let mut v2 = v.clone();
            if let Some(c) = &mut v2.corr {
                if frame_based(c) {
                    let frame = c.frame % g.msgs.len();
                    if i == frame {
                        continue;
                    }
                    c.frame = if i < frame { frame - 1 } else { frame };
                }
            }
            out.push(with(msgs, v2));
        }
    }
    // 2. Simplify the messages.
    for (i, m) in g.msgs.iter().enumerate() {
        let mut push = |m2: Msg| {
            if &m2 != m {
                let mut msgs = g.msgs.clone();
                msgs[i] = m2;
                out.push(with(msgs, v.clone()));
            }
        };
        for (bi, b) in m.b.iter().enumerate() {
            for s in simpler_bodies(b) {
                let mut m2 = m.clone();
                m2.b[bi] = s;
                push(m2);
            }
        }
        if m.trail > 0 {
            push(Msg { trail: 0, ..m.clone() });
        }
        if m.host.is_some() {
            push(Msg { host: None, ..m.clone() });
            push(Msg { host: Some("h".into()), ..m.clone() });
        }
        if m.node.as_deref().map(|s| s.len() > 1).unwrap_or(false) {
            push(Msg { node: Some("n".into()), ..m.clone() });
        }
        if m.lane.as_deref().map(|s| s.len() > 1).unwrap_or(false) {
            push(Msg { lane: Some("l".into()), ..m.clone() });
        }
        if m.id.as_deref().map(|s| s.chars().any(|c| c != '0')).unwrap_or(false) {
            push(Msg { id: Some(format!("{:032x}", 0)), ..m.clone() });
        }
        if m.n.map(|n| n != 0).unwrap_or(false) {
            push(Msg { n: Some(0), ..m.clone() });
        }
        if m.flag {
            push(Msg { flag: false, ..m.clone() });
        }
    }
    // 3. Simplify the chunking.
    let mut pushv = |v2: Variant| {
        if &v2 != v {
            out.push(with(g.msgs.clone(), v2));
        }
    };
    if !v.chunks.is_empty() || v.rep != 0 {
        pushv(Variant { chunks: vec![], rep: 0, ..v.clone() });
    }
    pushv(Variant { pend: 0, ..v.clone() });
    pushv(Variant { cap: 0, ..v.clone() });
    if v.rep != 0 {
        pushv(Variant { rep: 0, ..v.clone() });
    }
    if v.chunks.len() > 1 {
        let h = v.chunks.len() / 2;
        pushv(Variant { chunks: v.chunks[..h].to_vec(), ..v.clone() });
        for i in 0..v.chunks.len().min(40) {
            // Merge read i with the next one, or drop the last one.
            let mut c = v.chunks.clone();
            if i + 1 < c.len() {
                c[i] += c[i + 1];
                c.remove(i + 1);
            } else {
                c.pop();
            }
            pushv(Variant { chunks: c, ..v.clone() });
        }
    } else if v.chunks.len() == 1 && v.rep == 0 && v.chunks[0] > 1 {
        // A single split point is already minimal; nothing to do.
    }
    out
}
