//! W-CODEC: decides C10 ("binary frames decode to what was encoded under any fragmentation") by
//! driving the product's real `tokio_util` decoders through the real `FramedRead` over a
//! fragmenting, faulty byte stream (`SimPipe`).

pub mod model;
pub mod pairs;
pub mod pipe;
pub mod scenario;

use std::collections::BTreeMap;

use serde::{Deserialize, Serialize};
use serde_json::{json, Value as Json};

use crate::core::log::EventLog;
use crate::core::{Outcome, Tier, Violation, World};

use model::{hex, Body, Msg};
use pairs::{Field, FieldKind, Pair, Prepared};
use pipe::{DriveIn, DriveOut, Ev};
use scenario::{Corr, Scenario, Variant};

pub use pipe::LAST_PANIC_LOCATION;

pub struct CodecWorld;

const PROPERTY: &str = "C10";

/// Length boundary values by name, for a length field of `bits` bits whose current value is `cur`.
pub const LEN_VALUES: &[&str] = &["zero", "minus1", "plus1", "p31", "high", "max", "max7"];

fn len_value(name: &str, bits: u8, cur: u64) -> Option<u64> {
    let max: u64 = if bits >= 64 { u64::MAX } else { (1u64 << bits) - 1 };
    let v = match name {
        "zero" => 0,
        "minus1" => cur.checked_sub(1)?,
        "plus1" => cur.checked_add(1).filter(|v| *v <= max)?,
        "p31" => 1u64 << 31,
        // 2^63 for 64 bit fields, 2^60 for the 61 bit body length, 2^31 for 32 bit fields.
        "high" => 1u64 << (bits - 1),
        "max" => max,
        "max7" => max - 7,
        _ => return None,
    };
    if v == cur {
        None
    } else {
        Some(v)
    }
}

/// The result of one case (serialisable: cases with huge corrupted lengths run in a child process).
#[derive(Debug, Clone, Default, Serialize, Deserialize)]
pub struct CaseResult {
    /// (rule, signature detail, human detail)
    pub violations: Vec<(String, String, String)>,
    pub log: Vec<(String, String)>,
    pub counters: BTreeMap<String, u64>,
    pub nontrivial: bool,
    pub polls: u64,
    pub harness_error: Option<String>,
}

impl CaseResult {
    fn count(&mut self, k: &str, n: u64) {
        if n > 0 {
            *self.counters.entry(k.to_string()).or_insert(0) += n;
        }
    }
    fn rec(&mut self, kind: &str, detail: String) {
        self.log.push((kind.to_string(), detail));
    }
    fn violate(&mut self, rule: &str, sig: String, detail: String) {
        if !self.violations.iter().any(|(r, s, _)| r == rule && *s == sig) {
            self.violations.push((rule.to_string(), sig, detail));
        }
    }
}

/// A corruption resolved against the layout of the encoded stream.
#[derive(Debug, Clone)]
struct Fired {
    kind: &'static str,
    /// Index of the first frame that is affected.
    frame: usize,
    desc: String,
    /// The new tag is outside the decoder's defined set and the decoder has an error path for that.
    bad_tag: bool,
    /// The new length claims more bytes than the stream will ever deliver.
    short: bool,
    /// The corrupted length is smaller than the true one: every byte the frame declares is in the stream.
    shrunk: bool,
    /// A truncation exactly at a frame boundary: simply a shorter valid stream.
    clean_cut: bool,
    /// A length >= 2^31 was injected.
    big_len: bool,
}

fn tag_fields(fs: &[Field]) -> Vec<&Field> {
    fs.iter().filter(|f| matches!(f.kind, FieldKind::Tag { .. })).collect()
}

fn len_fields(fs: &[Field]) -> Vec<&Field> {
    fs.iter().filter(|f| matches!(f.kind, FieldKind::Len { .. })).collect()
}

fn mask_bits(mask: u8) -> Vec<u8> {
    (0..8).filter(|b| mask >> b & 1 == 1).collect()
}

fn apply_corruption(prep: &Prepared, corr: &Corr) -> (Vec<u8>, Option<Fired>) {
    let mut data = prep.bytes.clone();
    let n = prep.ends.len();
    if n == 0 || data.is_empty() {
        return (data, None);
    }
    let total = data.len();
    let frame = corr.frame % n;
    match corr.kind.as_str() {
        "bitflip_tag" => {
            let tags = tag_fields(&prep.fields[frame]);
            if tags.is_empty() {
                return (data, None);
            }
            let f = tags[corr.field % tags.len()];
            let FieldKind::Tag { mask, valid } = &f.kind else { unreachable!() };
            let bits = mask_bits(*mask);
            let bit = bits[corr.bit as usize % bits.len()];
            let old = data[f.off];
            let new = old ^ (1 << bit);
            data[f.off] = new;
            let tag = (new & mask) >> mask.trailing_zeros();
            let bad_tag = valid.as_ref().map(|v| !v.contains(&tag)).unwrap_or(false);
            let fired = Fired {
                kind: "bitflip_tag",
                frame,
                desc: format!("frame {frame}: tag byte at {} {:#04x} -> {:#04x} (tag {tag}, defined={})", f.off, old, new, !bad_tag),
                bad_tag,
                short: false,
                shrunk: false,
                clean_cut: false,
                big_len: false,
            };
            (data, Some(fired))
        }
        "len" => {
            let lens = len_fields(&prep.fields[frame]);
            if lens.is_empty() {
                return (data, None);
            }
            let f = lens[corr.field % lens.len()];
            let FieldKind::Len { bits, cur } = f.kind else { unreachable!() };
            let Some(new) = len_value(&corr.value, bits, cur) else { return (data, None) };
            match f.width {
                4 => data[f.off..f.off + 4].copy_from_slice(&(new as u32).to_be_bytes()),
                _ => {
                    let old = u64::from_be_bytes(data[f.off..f.off + 8].try_into().unwrap());
                    let keep = if bits >= 64 { 0 } else { old & !((1u64 << bits) - 1) };
                    data[f.off..f.off + 8].copy_from_slice(&(keep | new).to_be_bytes());
                }
            }
            let after = (total - (f.off + f.width)) as u64;
            let fired = Fired {
                kind: "length_boundary",
                frame,
                desc: format!("frame {frame}: {bits} bit length at {} {cur} -> {new} ({} bytes follow)", f.off, after),
                bad_tag: false,
                short: new > after,
                // (Only where shrinking cannot move another length field: the last length of the frame, or a frame whose
                // lengths all sit at fixed positions.)
                shrunk: new < cur && (lens.iter().all(|o| o.off <= f.off) || prep.fixed_positions),
                clean_cut: false,
                big_len: new >= 1 << 31,
            };
            (data, Some(fired))
        }
        "truncate" => {
            let at = corr.at % total;
            data.truncate(at);
            let frame = prep.ends.iter().filter(|e| **e <= at).count();
            let clean_cut = at == 0 || prep.ends.contains(&at);
            let fired = Fired {
                kind: "truncate",
                frame,
                desc: format!("stream of {total} bytes truncated at {at} ({frame} complete frames, clean_cut={clean_cut})"),
                bad_tag: false,
                short: false,
                shrunk: false,
                clean_cut,
                big_len: false,
            };
            (data, Some(fired))
        }
        "garbage" => {
            let regions: Vec<&(usize, usize)> = prep.bodies[frame].iter().filter(|(_, l)| *l > 0).collect();
            if regions.is_empty() {
                return (data, None);
            }
            let (off, len) = *regions[corr.field % regions.len()];
            let at = off + corr.at % len;
            let old = data[at];
            // 0xff is never valid UTF-8; the other replacements keep the text valid UTF-8 but (usually) break its
            // syntax: an unterminated string, an unbalanced brace, a dangling attribute or escape.
            let new_byte = [0xffu8, b'"', b'{', b'(', b'%', b'@', b'\\', b'}'][(corr.bit % 8) as usize];
            let desc = if corr.bit >= 8 && len >= 2 {
                // The whole body replaced (same length, lengths intact) by a text the Recon parser stops reading before
                // its end: a blob whose base64 text is not a whole number of groups of four / a dangling `0x`.
                let text: Vec<u8> = if (len - 1) % 4 != 0 && corr.bit % 2 == 0 {
                    std::iter::once(b'%').chain(std::iter::repeat(b'Q').take(len - 1)).collect()
                } else {
                    std::iter::repeat(b' ').take(len - 2).chain(*b"0x").collect()
                };
                data[off..off + len].copy_from_slice(&text);
                format!("frame {frame}: body {off}..{} replaced by {:?}", off + len, String::from_utf8_lossy(&text))
            } else {
                data[at] = new_byte;
                format!("frame {frame}: body byte at {at} {:#04x} -> {:#04x} (body {off}..{})", old, new_byte, off + len)
            };
            let fired = Fired {
                kind: "body_garbage",
                frame,
                desc,
                bad_tag: false,
                short: false,
                shrunk: false,
                clean_cut: false,
                big_len: false,
            };
            (data, Some(fired))
        }
        _ => (data, None),
    }
}

fn fmt_chunks(v: &Variant) -> String {
    let shown: Vec<String> = v.chunks.iter().take(24).map(|c| c.to_string()).collect();
    format!(
        "[{}{}]+{} pend={:#x} cap={}",
        shown.join(","),
        if v.chunks.len() > 24 { format!(",..{} more", v.chunks.len() - 24) } else { String::new() },
        if v.rep == 0 { "rest".to_string() } else { format!("{}s", v.rep) },
        v.pend,
        v.cap
    )
}

fn first_line(s: &str) -> String {
    let l = s.lines().next().unwrap_or("");
    if l.chars().count() > 300 {
        format!("{}...", l.chars().take(300).collect::<String>())
    } else {
        l.to_string()
    }
}

/// Executes one explicit case (one variant without `each`) in this process and applies the oracles.
pub fn run_case(pair: &Pair, msgs: &[Msg], prep: &Prepared, v: &Variant) -> CaseResult {
    let mut res = CaseResult::default();
    let (data, fired) = match &v.corr {
        Some(c) => apply_corruption(prep, c),
        None => (prep.bytes.clone(), None),
    };
    let sig = pair.sig();
    res.rec(
        "case",
        format!(
            "{} ty={} msgs={} bytes={} chunks={} corruption={}",
            sig,
            pair.ty,
            msgs.len(),
            data.len(),
            fmt_chunks(v),
            fired.as_ref().map(|f| f.desc.clone()).unwrap_or_else(|| "none".into())
        ),
    );
    if fired.is_some() {
        res.rec("stream", hex(&data));
    }
    let max_polls = 16 + 4 * (data.len() as u64 + msgs.len() as u64);
    let input = DriveIn {
        data: data.clone(),
        chunks: v.chunks.clone(),
        rep: v.rep,
        pend: v.pend,
        cap: v.cap,
        max_polls,
        stop_at_error: fired.is_none(),
    };
    let out = match pairs::decode(pair, msgs, input) {
        Ok(o) => o,
        Err(e) => {
            res.harness_error = Some(e);
            return res;
        }
    };
    evaluate(pair, prep, &data, fired.as_ref(), &out, &mut res);
    res
}

fn evaluate(pair: &Pair, prep: &Prepared, data: &[u8], fired: Option<&Fired>, out: &DriveOut, res: &mut CaseResult) {
    let sig = pair.sig();
    let kind = fired.map(|f| f.kind).unwrap_or("none");
    // History.
    res.rec("reads", format!("{:?} pendings={}", out.boundaries, out.pendings));
    for (i, ev) in out.events.iter().enumerate() {
        match ev {
            Ev::Item(c, consumed) => res.rec("item", format!("{i} {} consumed={consumed}", c.render())),
            Ev::Err(e, consumed) => res.rec("error", format!("{i} {} consumed={consumed}", first_line(e))),
        }
    }
    res.rec(
        "end",
        format!("ended={} leftover={} hit_bound={} panic={:?}", out.ended, out.leftover, out.hit_bound, out.panic),
    );
    res.polls = out.polls;

    // Counters.
    let inner = out.boundaries.iter().filter(|b| !prep.ends.contains(b)).count() as u64;
    res.count("cases", 1);
    res.count("messages", prep.ends.len() as u64);
    res.count("bytes", data.len() as u64);
    res.count("splits_tested", out.boundaries.len() as u64);
    res.count("splits_inside_frame", inner);
    res.count("pending_injected", out.pendings);
    res.count("errors_returned", out.events.iter().filter(|e| matches!(e, Ev::Err(..))).count() as u64);
    res.count("items_decoded", out.events.iter().filter(|e| matches!(e, Ev::Item(..))).count() as u64);
    res.count(&format!("pair.{}", sig), 1);
    if let Some(f) = fired {
        res.count(&format!("corruption.{}", f.kind), 1);
    }
    res.nontrivial = inner > 0 || fired.is_some();

    // C10.no_panic / C10.no_hang hold for every stream.
    if let Some(p) = &out.panic {
        res.count("probe.panics", 1);
        res.violate(
            "C10.no_panic",
            format!("{sig}:{kind}"),
            format!("decoder panicked: {} [{}; corruption: {}]", p, sig, fired.map(|f| f.desc.as_str()).unwrap_or("none")),
        );
        return;
    }
    if out.hit_bound {
        res.violate(
            "C10.no_hang",
            format!("{sig}:{kind}"),
            format!(
                "stream of {} bytes did not terminate within {} polls ({} events) [{}; corruption: {}]",
                data.len(),
                out.polls,
                out.events.len(),
                sig,
                fired.map(|f| f.desc.as_str()).unwrap_or("none")
            ),
        );
        return;
    }

    match fired {
        None => check_valid_stream(&sig, prep, prep.ends.len(), out, "", res),
        Some(f) if f.kind == "truncate" && f.clean_cut => {
            // A stream cut at a frame boundary is a valid, shorter stream.
            check_valid_stream(&sig, prep, f.frame, out, " (stream cut at a frame boundary)", res)
        }
        Some(f) => check_corrupted_stream(&sig, prep, f, out, res),
    }
}

/// Coarse, stable class of a decoder error (part of the violation signature so that different
/// symptoms in one codec pair are reported separately).
fn error_class(e: &str) -> &'static str {
    if e.contains("bytes remaining on stream") {
        "error_bytes_remaining"
    } else if e.contains("BadUtf8") || e.contains("Utf8Error") {
        "error_utf8"
    } else if e.contains("Parser(") || e.contains("UnconsumedInput") {
        "error_parse"
    } else if e.contains("InvalidHeader") || e.contains("UnexpectedCode") {
        "error_bad_header"
    } else {
        "error"
    }
}

fn canon_text(c: &model::Canon) -> Vec<u8> {
    match c {
        model::Canon::Bytes(b) => b.clone(),
        model::Canon::Str(s) => s.clone().into_bytes(),
        model::Canon::I32(n) => n.to_string().into_bytes(),
        model::Canon::Val(v) => format!("{}", swimos_recon::print_recon_compact(v)).into_bytes(),
        ow => ow.render().into_bytes(),
    }
}

/// "truncated_value" if the first differing part of the decoded item is a proper prefix of what was
/// encoded (the symptom of a token cut short at a read boundary), else "mismatch".
fn mismatch_class(got: &model::CanonMsg, want: &model::CanonMsg) -> &'static str {
    if got.kind == want.kind && got.parts.len() == want.parts.len() {
        for (g, w) in got.parts.iter().zip(want.parts.iter()) {
            if g != w {
                let (mut g, w) = (canon_text(g), canon_text(w));
                if g.ends_with(b".0") {
                    // A float cut at (or just after) the decimal point reads as `<int>.0`.
                    g.truncate(g.len() - 2);
                }
                return if g.len() < w.len() && w.starts_with(&g) { "truncated_value" } else { "mismatch" };
            }
        }
    }
    "mismatch"
}

/// Fault-free oracle over the first `n` frames: C10.roundtrip and C10.boundary.
fn check_valid_stream(sig: &str, prep: &Prepared, n: usize, out: &DriveOut, note: &str, res: &mut CaseResult) {
    let mut boundary_reported = false;
    for (i, ev) in out.events.iter().enumerate() {
        match ev {
            Ev::Err(e, consumed) => {
                res.violate(
                    "C10.roundtrip",
                    format!("{sig}:{}", error_class(e)),
                    format!(
                        "valid stream{note}: frame {i} of {n} produced an error instead of {}: {} (consumed {consumed}, frame ends at {:?}, read boundaries {:?})",
                        prep.expected.get(i).map(|c| c.render()).unwrap_or_else(|| "end of stream".into()),
                        first_line(e),
                        prep.ends.get(i),
                        out.boundaries
                    ),
                );
                return;
            }
            Ev::Item(c, consumed) => {
                if i >= n {
                    res.violate(
                        "C10.roundtrip",
                        format!("{sig}:extra"),
                        format!("valid stream{note}: {n} frames were encoded but an extra item {} was decoded", c.render()),
                    );
                    return;
                }
                if *c != prep.expected[i] {
                    res.violate(
                        "C10.roundtrip",
                        format!("{sig}:{}", mismatch_class(c, &prep.expected[i])),
                        format!(
                            "valid stream{note}: frame {i} decoded to {} but {} was encoded (read boundaries {:?}, frame ends {:?})",
                            c.render(),
                            prep.expected[i].render(),
                            out.boundaries,
                            prep.ends
                        ),
                    );
                    return;
                }
                if *consumed != prep.ends[i] && !boundary_reported {
                    boundary_reported = true;
                    let d = *consumed as i64 - prep.ends[i] as i64;
                    res.violate(
                        "C10.boundary",
                        format!("{sig}:{}", if d > 0 { "over" } else { "under" }),
                        format!(
                            "valid stream{note}: after yielding frame {i} the decoder had consumed {consumed} bytes but the frame ends at {} ({} by {} bytes)",
                            prep.ends[i],
                            if d > 0 { "over-consumed" } else { "under-consumed" },
                            d.abs()
                        ),
                    );
                }
            }
        }
    }
    if out.events.len() < n {
        res.violate(
            "C10.roundtrip",
            format!("{sig}:missing"),
            format!(
                "valid stream{note}: the stream ended after {} of {n} frames without an error; {} bytes were left in the read buffer; next expected {} (read boundaries {:?}, frame ends {:?})",
                out.events.len(),
                out.leftover,
                prep.expected[out.events.len()].render(),
                out.boundaries,
                prep.ends
            ),
        );
    }
}

/// Corruption tier oracle. Deliberately no stronger than the property: the frames before the
/// corruption decode exactly; an undefined tag yields an error (only for decoders with an explicit
/// error path); a length that the stream can never satisfy, or a truncated frame, never yields a
/// message; a corrupted Recon body does not disturb the other frames. A corrupted length that
/// describes a consistent, different framing legitimately decodes to different messages.
fn check_corrupted_stream(sig: &str, prep: &Prepared, f: &Fired, out: &DriveOut, res: &mut CaseResult) {
    let k = f.frame;
    // The prefix is byte-identical to the valid stream: the frames before the corruption must
    // decode exactly as in a valid stream (same rules, same signatures).
    {
        let prefix = DriveOut { events: out.events.iter().take(k).cloned().collect(), ..out.clone() };
        let before = res.violations.len();
        check_valid_stream(sig, prep, k, &prefix, &format!(" (the {k} frames preceding the corruption: {})", f.desc), res);
        if res.violations.len() > before {
            return;
        }
    }
    let at_k = out.events.get(k);
    match f.kind {
        "bitflip_tag" if f.bad_tag => match at_k {
            Some(Ev::Err(..)) => res.count("probe.bad_tag_error", 1),
            other => res.violate(
                "C10.bad_tag",
                sig.to_string(),
                format!(
                    "{}: the decoder defines no such tag but produced {} instead of an error",
                    f.desc,
                    match other {
                        Some(Ev::Item(c, _)) => format!("the message {}", c.render()),
                        _ => "a clean end of stream".to_string(),
                    }
                ),
            ),
        },
        "length_boundary" if f.short => match at_k {
            // The decoder ignores this length for this kind of frame (its framing of the frame is
            // fixed) and produced exactly the encoded message: not a wrong message.
            Some(Ev::Item(c, _)) if *c == prep.expected[k] => res.count("probe.short_length_ignored", 1),
            Some(Ev::Item(c, _)) => res.violate(
                "C10.short",
                format!("{sig}:length"),
                format!("{}: the frame can never be completed but the decoder produced the message {}", f.desc, c.render()),
            ),
            Some(Ev::Err(..)) => res.count("probe.short_length_error", 1),
            // Not demanded by the property text beyond "error rather than a panic, a hang or a
            // silently wrong message": a clean end of stream is counted, not flagged.
            None => res.count("probe.short_length_clean_end", 1),
        },
        // A length that was made smaller: the stream holds every byte the frame declares (and more), so the decoder has
        // all it will ever be told it needs for frame k. It must come to a verdict - a message (the lengths may describe
        // another consistent framing) or an error of its own. Yielding nothing until the end of the stream (where only the
        // framework's "bytes remaining on stream" speaks) is the hang the statement rules out: on a live channel the
        // decoder would sit on the bytes for ever and every later frame would be lost.
        "length_boundary" if f.shrunk => match at_k {
            None => res.violate("C10.hang", format!("{sig}:short_length"), format!("{}: all declared bytes of frame {k} were available but the decoder never produced a message or an error (clean end)", f.desc)),
            Some(Ev::Err(e, _)) if e.contains("bytes remaining on stream") && out.first_event_at_eof.map(|i| i <= k).unwrap_or(false) => {
                res.violate("C10.hang", format!("{sig}:short_length"), format!("{}: all declared bytes of frame {k} were available but the decoder produced nothing until the stream ended ({})", f.desc, first_line(e)))
            }
            _ => res.count("probe.shrunk_length_verdict", 1),
        },
        "truncate" => match at_k {
            Some(Ev::Item(c, _)) => res.violate(
                "C10.short",
                format!("{sig}:truncate"),
                format!("{}: the truncated frame {k} nevertheless produced the message {}", f.desc, c.render()),
            ),
            Some(Ev::Err(..)) => res.count("probe.truncate_error", 1),
            None => res.count("probe.truncate_clean_end", 1),
        },
        "body_garbage" => {
            // Every other frame must decode exactly; frame k yields one outcome (an error, or a
            // value if the damaged text happens to be acceptable).
            let n = prep.ends.len();
            for i in 0..n {
                if i == k {
                    if matches!(at_k, Some(Ev::Err(..))) {
                        res.count("probe.garbage_error", 1);
                    }
                    continue;
                }
                match out.events.get(i) {
                    Some(Ev::Item(c, consumed)) if *c == prep.expected[i] && *consumed == prep.ends[i] => {}
                    other => {
                        let class = match other {
                            Some(Ev::Item(c, _)) if *c != prep.expected[i] => mismatch_class(c, &prep.expected[i]),
                            Some(Ev::Item(..)) => "boundary",
                            Some(Ev::Err(e, _)) => error_class(e),
                            None => "missing",
                        };
                        res.violate(
                            "C10.resync",
                            format!("{sig}:{class}"),
                            format!(
                                "{}: only the body of frame {k} was damaged (lengths intact) but frame {i} did not decode to {} with {} bytes consumed: got {}",
                                f.desc,
                                prep.expected[i].render(),
                                prep.ends[i],
                                match other {
                                    Some(Ev::Item(c, n)) => format!("{} consumed={n}", c.render()),
                                    Some(Ev::Err(e, n)) => format!("error {} consumed={n}", first_line(e)),
                                    None => "end of stream".to_string(),
                                }
                            ),
                        );
                        return;
                    }
                }
            }
        }
        _ => {}
    }
}

// ---------------------------------------------------------------------------------------------
// Child process (cases whose corrupted length could make the decoder reserve an absurd amount).
// ---------------------------------------------------------------------------------------------

#[derive(Serialize, Deserialize)]
struct ChildJob {
    pair: Pair,
    msgs: Vec<Msg>,
    variants: Vec<Variant>,
}

/// Entry point of the hidden `simctl codec-child` subcommand: reads a job (one stream, explicit
/// cases) from stdin, runs the cases in order and prints one `CaseResult` JSON line per case. A
/// decoder that aborts the process (allocation failure) kills only this child; the parent sees how
/// many cases completed.
pub fn child_main() -> i32 {
    use std::io::{Read, Write};
    // No core dumps for the aborts this process exists to absorb.
    #[repr(C)]
    struct RLimit {
        cur: u64,
        max: u64,
    }
    extern "C" {
        fn setrlimit(resource: i32, rlim: *const RLimit) -> i32;
    }
    const RLIMIT_CORE: i32 = 4;
    #[cfg(target_os = "linux")]
    unsafe {
        let lim = RLimit { cur: 0, max: 0 };
        let _ = setrlimit(RLIMIT_CORE, &lim);
    }
    let mut arg = String::new();
    if let Err(e) = std::io::stdin().read_to_string(&mut arg) {
        eprintln!("cannot read job: {e}");
        return 2;
    }
    let job: ChildJob = match serde_json::from_str(&arg) {
        Ok(j) => j,
        Err(e) => {
            eprintln!("bad job: {e}");
            return 2;
        }
    };
    let prep = match pairs::prepare(&job.pair, &job.msgs) {
        Ok(p) => p,
        Err(e) => {
            eprintln!("prepare failed: {e}");
            return 2;
        }
    };
    let stdout = std::io::stdout();
    for v in &job.variants {
        let res = run_case(&job.pair, &job.msgs, &prep, v);
        let mut out = stdout.lock();
        let _ = writeln!(out, "{}", serde_json::to_string(&res).unwrap());
        let _ = out.flush();
    }
    0
}

fn spawn_child(job: &ChildJob) -> Result<std::process::Output, String> {
    use std::io::Write;
    use std::process::{Command, Stdio};
    let exe = crate::core::runner::self_exe()?;
    let mut child = Command::new(exe)
        .arg("codec-child")
        .env_remove("VERIF_TRACING")
        // An allocation failure prints a (slow to symbolise) backtrace otherwise.
        .env("RUST_BACKTRACE", "0")
        .env("RUST_LIB_BACKTRACE", "0")
        .stdin(Stdio::piped())
        .stdout(Stdio::piped())
        .stderr(Stdio::piped())
        .spawn()
        .map_err(|e| format!("cannot spawn child: {e}"))?;
    let text = serde_json::to_string(job).unwrap();
    // The child reads all of stdin before it writes anything, so this cannot deadlock.
    if let Some(mut stdin) = child.stdin.take() {
        let _ = stdin.write_all(text.as_bytes());
    }
    child.wait_with_output().map_err(|e| format!("child wait: {e}"))
}

/// Runs the cases of one stream in a child process (restarted after every case that kills it).
fn run_cases_in_child(pair: &Pair, msgs: &[Msg], prep: &Prepared, cases: &[Variant]) -> Vec<CaseResult> {
    let mut results: Vec<CaseResult> = vec![];
    while results.len() < cases.len() {
        let job = ChildJob { pair: pair.clone(), msgs: msgs.to_vec(), variants: cases[results.len()..].to_vec() };
        let output = match spawn_child(&job) {
            Ok(o) => o,
            Err(e) => {
                results.push(CaseResult { harness_error: Some(e), ..Default::default() });
                return results;
            }
        };
        let stderr = String::from_utf8_lossy(&output.stderr).to_string();
        let before = results.len();
        for line in output.stdout.split(|b| *b == b'\n').filter(|l| !l.is_empty()) {
            match serde_json::from_slice::<CaseResult>(line) {
                Ok(mut r) => {
                    r.count("child_cases", 1);
                    results.push(r);
                }
                Err(e) => {
                    // A torn last line of a child that died: the case is accounted for below.
                    if output.status.success() {
                        results.push(CaseResult { harness_error: Some(format!("bad child output: {e}")), ..Default::default() });
                        return results;
                    }
                    break;
                }
            }
        }
        if output.status.success() {
            if results.len() < cases.len() {
                results.push(CaseResult { harness_error: Some("child returned too few results".into()), ..Default::default() });
                return results;
            }
        } else if output.status.code() == Some(2) {
            results.push(CaseResult { harness_error: Some(format!("child failed: {}", first_line(&stderr))), ..Default::default() });
            return results;
        } else {
            // Killed by a signal (abort on allocation failure) or another abnormal exit, while
            // executing the case after the last one it reported.
            let v = &cases[results.len().min(cases.len() - 1)];
            let desc = v.corr.as_ref().and_then(|c| apply_corruption(prep, c).1).map(|f| (f.kind, f.desc)).unwrap_or(("none", "none".into()));
            let mut r = CaseResult::default();
            let sig = pair.sig();
            r.rec(
                "case",
                format!("{} ty={} msgs={} chunks={} corruption={} (child process)", sig, pair.ty, msgs.len(), fmt_chunks(v), desc.1),
            );
            r.rec("end", format!("child process died: {:?}: {}", output.status, first_line(&stderr)));
            r.count("cases", 1);
            r.count("messages", prep.ends.len() as u64);
            r.count("child_cases", 1);
            r.count("child_aborts", 1);
            r.count(&format!("pair.{}", sig), 1);
            if desc.0 != "none" {
                r.count(&format!("corruption.{}", desc.0), 1);
            }
            r.nontrivial = true;
            r.violate(
                "C10.no_panic",
                format!("{sig}:huge_reserve"),
                format!(
                    "the decoder killed the process ({:?}; stderr: {}) [{}; corruption: {}]",
                    output.status,
                    first_line(&stderr),
                    sig,
                    desc.1
                ),
            );
            let _ = before;
            results.push(r);
        }
    }
    results
}

// ---------------------------------------------------------------------------------------------
// The world.
// ---------------------------------------------------------------------------------------------

/// Sanity check of the generator: the compact Recon text of every typed body must read back to
/// the same value with the product's *non-incremental* parser; otherwise a mismatch would be a
/// property of the Recon model, not of the codecs.
fn recon_sanity(msgs: &[Msg]) -> Result<(), String> {
    use swimos_model::Value;
    for m in msgs {
        for b in &m.b {
            if matches!(b, Body::Raw(_)) {
                continue;
            }
            let expected = <Value as model::Ty>::from_body(b)?;
            let text = String::from_utf8(model::raw_bytes(b, m.trail)).map_err(|e| e.to_string())?;
            match swimos_recon::parser::parse_recognize::<Value>(text.as_str(), false) {
                Ok(v) if v == expected => {}
                other => return Err(format!("generator: body {:?} prints as {:?} which reads back as {:?}", b, text, other)),
            }
        }
    }
    Ok(())
}

pub fn execute_scenario(sc: &Scenario, keep_log: bool, allow_child: bool) -> Outcome {
    let mut log = EventLog::new(keep_log);
    let mut out = Outcome::default();
    let mut case_no = 0u64;
    for (gi, g) in sc.groups.iter().enumerate() {
        if let Err(e) = recon_sanity(&g.msgs) {
            out.harness_error = Some(e);
            break;
        }
        let prep = match std::panic::catch_unwind(|| pairs::prepare(&g.pair, &g.msgs)) {
            Ok(Ok(p)) => p,
            Ok(Err(e)) => {
                out.harness_error = Some(format!("group {gi}: {e}"));
                break;
            }
            Err(_) => {
                out.violations.push(Violation::new(
                    PROPERTY,
                    "C10.roundtrip",
                    &format!("{}:encoder_panic", g.pair.sig()),
                    format!("the encoder of {} panicked on a valid message sequence", g.pair.sig()),
                ));
                continue;
            }
        };
        log.rec(
            case_no,
            "group",
            &format!(
                "{gi} {} ty={} frames_end={:?} stream={} expected=[{}]",
                g.pair.sig(),
                g.pair.ty,
                prep.ends,
                hex(&prep.bytes),
                prep.expected.iter().map(|c| c.render()).collect::<Vec<_>>().join("; ")
            ),
        );
        let cases: Vec<Variant> = g.variants.iter().flat_map(|v| scenario::expand(v, &prep)).collect();
        // Decoders that reserve buffer space according to lengths read from the wire may abort
        // the process on any corrupted (or de-synchronised) stream: their groups run in a child.
        let in_child = allow_child && pairs::reserves_on_wire_length(&g.pair) && cases.iter().any(|c| c.corr.is_some());
        let results: Vec<CaseResult> = if in_child {
            out.count("child_groups", 1);
            run_cases_in_child(&g.pair, &g.msgs, &prep, &cases)
        } else {
            cases.iter().map(|case| run_case(&g.pair, &g.msgs, &prep, case)).collect()
        };
        for res in results {
            case_no += 1;
            for (k, d) in &res.log {
                log.rec(case_no, k, d);
            }
            for (k, n) in &res.counters {
                out.count(k, *n);
            }
            out.steps += res.polls;
            out.nontrivial |= res.nontrivial;
            if let Some(e) = res.harness_error {
                out.harness_error = Some(format!("group {gi} case {case_no}: {e}"));
            }
            for (rule, sig, detail) in res.violations {
                if !out.violations.iter().any(|x| x.rule == rule && x.sig == format!("{rule}:{sig}")) {
                    out.violations.push(Violation::new(PROPERTY, &rule, &sig, detail));
                }
            }
        }
    }
    out.log_hash = log.hash();
    out.log_lines = log.lines().to_vec();
    out
}

impl World for CodecWorld {
    fn name(&self) -> &'static str {
        "codec"
    }

    fn generate(&self, seed: u64, tier: Tier) -> Json {
        serde_json::to_value(scenario::generate(seed, tier)).unwrap()
    }

    fn execute(&self, scenario: &Json, keep_log: bool) -> Outcome {
        let sc: Scenario = match serde_json::from_value(scenario.clone()) {
            Ok(s) => s,
            Err(e) => return Outcome { harness_error: Some(format!("bad scenario: {e}")), ..Default::default() },
        };
        execute_scenario(&sc, keep_log, true)
    }

    fn shrink(&self, scenario: &Json) -> Vec<Json> {
        let Ok(sc) = serde_json::from_value::<Scenario>(scenario.clone()) else { return vec![] };
        scenario::shrink(&sc).into_iter().map(|s| serde_json::to_value(s).unwrap()).collect()
    }

    fn rule(&self) -> String {
        "one run = one seeded batch of cases; a case = (codec pair: family x encoder variant x decoder variant x body types, \
         explicit message sequence of 1..=8 boundary-heavy messages encoded into ONE stream by the product's encoder, \
         chunking = explicit list of read sizes then a repeat size, Pending mask, FramedRead capacity, optional corruption); \
         run kinds: split_enum (every single split point of a short stream, plus whole and 1-byte reads), multi_split \
         (random multi-splits down to 1 byte), corrupt_enum (every truncation position, every tag bit, every length field x \
         {0, len-1, len+1, 2^31, 2^63|2^60, max, max-7}, body garbage; each under whole / 1-byte / random chunking), \
         corrupt_random; the decoder is driven through tokio_util::codec::FramedRead over SimPipe with a poll bound; \
         non-trivial = a read ended inside a frame (not only at frame boundaries) or a corruption fired; distinct = distinct \
         hash of the full recorded history (streams, read boundaries, every decoded item/error with bytes consumed, end state)"
            .into()
    }

    fn components(&self) -> Json {
        let mut pairs = vec![];
        for (f, encs, decs, _) in pairs::FAMILIES {
            for e in *encs {
                for d in *decs {
                    pairs.push(format!("{f}/{e}>{d}"));
                }
            }
        }
        json!({
            "real": ["tokio_util::codec::FramedRead", "every Encoder/Decoder exported from swimos_agent_protocol::encoding::{lane,map,store,downlink,command}",
                     "swimos_messages::protocol::{RawRequestMessageEncoder/Decoder, RequestMessageDecoder, RawResponseMessageEncoder/Decoder, ResponseMessageEncoder}",
                     "swimos_utilities::encoding::{WithLengthBytesCodec, consume_bounded}", "swimos_recon::{WithLenReconEncoder, WithLenRecognizerDecoder, RecognizerDecoder}"],
            "stub": ["SimPipe (AsyncRead serving the encoded stream in scripted chunks with Pending and EOF)", "counting waker + bounded poll loop instead of a runtime"],
            "pairs": pairs,
        })
    }
}
