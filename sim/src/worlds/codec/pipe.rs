//! `SimPipe`: the fragmenting byte stream, and the bounded driver that polls the real
//! `tokio_util::codec::FramedRead` over it.

use std::fmt::Debug;
use std::panic::{catch_unwind, AssertUnwindSafe};
use std::pin::Pin;
use std::sync::atomic::{AtomicU64, Ordering};
use std::sync::Arc;
use std::task::{Context, Poll, Wake, Waker};

use futures::Stream;
use tokio::io::{AsyncRead, ReadBuf};
use tokio_util::codec::{Decoder, FramedRead};

use super::model::CanonMsg;

/// An `AsyncRead` that serves `data` in the chunk sizes of `chunks` (then chunks of `rep` bytes, or the rest
/// in one final chunk if `rep` is 0), returns `Pending` (with an immediate wake) before chunk `j` if bit
/// `j % 64` of `pend` is set, and then reports EOF.
pub struct SimPipe {
    data: Vec<u8>,
    pos: usize,
    chunks: Vec<usize>,
    /// Chunk size used once `chunks` is exhausted (0 = the rest of the data in one chunk).
    rep: usize,
    next_chunk: usize,
    left_in_chunk: usize,
    pend: u64,
    pended: bool,
    /// Stream positions at which a read ended (before the end of the data): the split points the
    /// decoder actually experienced.
    pub boundaries: Vec<usize>,
    pub pendings: u64,
    pub reads: u64,
    pub eof_reads: u64,
}

impl SimPipe {
    pub fn new(data: Vec<u8>, chunks: Vec<usize>, rep: usize, pend: u64) -> SimPipe {
        SimPipe {
            data,
            pos: 0,
            chunks,
            rep,
            next_chunk: 0,
            left_in_chunk: 0,
            pend,
            pended: false,
            boundaries: vec![],
            pendings: 0,
            reads: 0,
            eof_reads: 0,
        }
    }

    pub fn delivered(&self) -> usize {
        self.pos
    }

    pub fn at_eof(&self) -> bool {
        self.pos >= self.data.len()
    }
}

impl AsyncRead for SimPipe {
    fn poll_read(self: Pin<&mut Self>, cx: &mut Context<'_>, buf: &mut ReadBuf<'_>) -> Poll<std::io::Result<()>> {
        let this = self.get_mut();
        if this.pos >= this.data.len() {
            this.eof_reads += 1;
            return Poll::Ready(Ok(()));
        }
        if this.left_in_chunk == 0 {
            let j = this.next_chunk;
            if !this.pended && (this.pend >> (j % 64)) & 1 == 1 {
                this.pended = true;
                this.pendings += 1;
                cx.waker().wake_by_ref();
                return Poll::Pending;
            }
            this.pended = false;
            let rest = this.data.len() - this.pos;
            let want = this.chunks.get(j).copied().unwrap_or(if this.rep > 0 { this.rep } else { rest });
            this.left_in_chunk = want.max(1).min(rest);
            this.next_chunk += 1;
        }
        let n = this.left_in_chunk.min(buf.remaining());
        if n == 0 {
            // No room: never look like an EOF.
            cx.waker().wake_by_ref();
            return Poll::Pending;
        }
        buf.put_slice(&this.data[this.pos..this.pos + n]);
        this.pos += n;
        this.left_in_chunk -= n;
        this.reads += 1;
        if this.pos < this.data.len() {
            this.boundaries.push(this.pos);
        }
        Poll::Ready(Ok(()))
    }
}

struct CountingWaker(AtomicU64);

impl Wake for CountingWaker {
    fn wake(self: Arc<Self>) {
        self.0.fetch_add(1, Ordering::Relaxed);
    }
    fn wake_by_ref(self: &Arc<Self>) {
        self.0.fetch_add(1, Ordering::Relaxed);
    }
}

#[derive(Debug, Clone, PartialEq)]
pub enum Ev {
    /// A decoded item and the number of stream bytes consumed so far when it was yielded.
    Item(CanonMsg, usize),
    /// An error and the number of stream bytes consumed so far.
    Err(String, usize),
}

#[derive(Debug, Clone, Default)]
pub struct DriveOut {
    pub events: Vec<Ev>,
    pub boundaries: Vec<usize>,
    pub pendings: u64,
    pub polls: u64,
    pub wakes: u64,
    /// The stream ended (`None` after EOF).
    pub ended: bool,
    pub hit_bound: bool,
    /// Bytes left in the read buffer when the stream ended.
    pub leftover: usize,
    pub panic: Option<String>,
    /// Index of the first event that was produced after the reader had reported the end of the stream (the decoder was
    /// then being asked through `decode_eof`).
    pub first_event_at_eof: Option<usize>,
}

pub struct DriveIn {
    pub data: Vec<u8>,
    pub chunks: Vec<usize>,
    pub rep: usize,
    pub pend: u64,
    pub cap: usize,
    pub max_polls: u64,
    /// Stop at the first error (fault-free tier).
    pub stop_at_error: bool,
}

thread_local! {
    /// Location of the last panic on this thread (filled by the process-wide panic hook in main.rs).
    pub static LAST_PANIC_LOCATION: std::cell::RefCell<Option<String>> = const { std::cell::RefCell::new(None) };
}

/// Drives the real `FramedRead` over a `SimPipe` to the end of the stream, with a poll bound.
pub fn drive<D, F>(decoder: D, input: DriveIn, canon: F) -> DriveOut
where
    D: Decoder,
    D::Error: Debug,
    F: Fn(D::Item) -> CanonMsg,
{
    let mut out = DriveOut::default();
    let wk = Arc::new(CountingWaker(AtomicU64::new(0)));
    let waker = Waker::from(wk.clone());
    let DriveIn { data, chunks, rep, pend, cap, max_polls, stop_at_error } = input;
    let pipe = SimPipe::new(data, chunks, rep, pend);
    let mut framed = if cap > 0 { FramedRead::with_capacity(pipe, decoder, cap) } else { FramedRead::new(pipe, decoder) };
    LAST_PANIC_LOCATION.with(|l| *l.borrow_mut() = None);
    let result = catch_unwind(AssertUnwindSafe(|| {
        let mut cx = Context::from_waker(&waker);
        let mut just_errored = false;
        loop {
            if out.polls >= max_polls {
                out.hit_bound = true;
                break;
            }
            out.polls += 1;
            match Pin::new(&mut framed).poll_next(&mut cx) {
                Poll::Pending => {
                    // The pipe always wakes immediately.
                }
                Poll::Ready(Some(Ok(item))) => {
                    if framed.get_ref().eof_reads > 0 && out.first_event_at_eof.is_none() {
                        out.first_event_at_eof = Some(out.events.len());
                    }
                    just_errored = false;
                    let consumed = framed.get_ref().delivered() - framed.read_buffer().len();
                    out.events.push(Ev::Item(canon(item), consumed));
                }
                Poll::Ready(Some(Err(e))) => {
                    if framed.get_ref().eof_reads > 0 && out.first_event_at_eof.is_none() {
                        out.first_event_at_eof = Some(out.events.len());
                    }
                    just_errored = true;
                    let consumed = framed.get_ref().delivered() - framed.read_buffer().len();
                    out.events.push(Ev::Err(format!("{:?}", e), consumed));
                    if stop_at_error {
                        break;
                    }
                }
                Poll::Ready(None) => {
                    if just_errored {
                        // FramedRead pauses once after an error and then resumes.
                        just_errored = false;
                    } else {
                        out.ended = true;
                        break;
                    }
                }
            }
        }
    }));
    if let Err(p) = result {
        let msg = if let Some(s) = p.downcast_ref::<&str>() {
            s.to_string()
        } else if let Some(s) = p.downcast_ref::<String>() {
            s.clone()
        } else {
            "panic".to_string()
        };
        let loc = LAST_PANIC_LOCATION.with(|l| l.borrow_mut().take()).unwrap_or_default();
        out.panic = Some(if loc.is_empty() { msg } else { format!("{msg} @ {loc}") });
    }
    // The panic may have left the FramedRead in any state; only read plain counters.
    let pipe = framed.get_ref();
    out.boundaries = pipe.boundaries.clone();
    out.pendings = pipe.pendings;
    out.leftover = framed.read_buffer().len();
    out.wakes = wk.0.load(Ordering::Relaxed);
    out
}
