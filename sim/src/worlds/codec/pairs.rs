//! The codec pairs under test: how a `Msg` sequence is encoded with the product's real encoders,
//! where the tag and length fields of the encoded frames are (harness knowledge of the wire format,
//! used only to aim corruptions), what the decoder is expected to yield, and how the product's real
//! decoders are driven.

use std::fmt::Debug;

use bytes::{Bytes, BytesMut};
use serde::{Deserialize, Serialize};
use swimos_agent_protocol::encoding::{command as pc, downlink as pd, lane as pl, map as pm, store as ps};
use swimos_agent_protocol::{
    CommandMessage, DownlinkNotification, DownlinkOperation, LaneRequest, LaneResponse, MapMessage, MapOperation,
    StoreInitMessage, StoreInitialized, StoreResponse,
};
use swimos_api::address::{Address, RelativeAddress};
use swimos_form::read::RecognizerReadable;
use swimos_messages::protocol as mp;
use swimos_model::Value;
use swimos_recon::{WithLenRecognizerDecoder, WithLenReconEncoder};
use swimos_utilities::encoding::{BytesStr, WithLengthBytesCodec};
use tokio_util::codec::Encoder;

use super::model::{raw_bytes, Body, Canon, CanonMsg, Msg, Ty};
use super::pipe::{drive, DriveIn, DriveOut};

#[derive(Debug, Clone, Serialize, Deserialize, PartialEq)]
pub struct Pair {
    pub family: String,
    /// "raw" or "typed".
    pub enc: String,
    /// "raw" or "typed".
    pub dec: String,
    /// "raw", or the typed body type ("i32" | "text" | "value"), or for map families the key and
    /// value types ("i32,text" | "text,i32" | "value,value").
    pub ty: String,
}

impl Pair {
    pub fn sig(&self) -> String {
        format!("{}/{}>{}", self.family, self.enc, self.dec)
    }
}

/// (family, encoder variants, decoder variants, map payload?)
pub const FAMILIES: &[(&str, &[&str], &[&str], bool)] = &[
    ("lane.value_request", &["raw", "typed"], &["raw", "typed"], false),
    ("lane.map_request", &["raw", "typed"], &["raw", "typed"], true),
    ("lane.value_response", &["raw", "typed"], &["raw", "typed"], false),
    ("lane.map_response", &["raw", "typed"], &["raw", "typed"], true),
    ("map.message", &["raw", "typed"], &["raw", "typed"], true),
    ("map.operation", &["raw", "typed"], &["raw", "typed"], true),
    ("store.value_init", &["raw"], &["raw", "typed"], false),
    ("store.map_init", &["raw"], &["raw", "typed"], true),
    ("store.initialized", &["raw"], &["raw"], false),
    ("store.value_response", &["typed"], &["raw"], false),
    ("store.map_response", &["typed"], &["raw"], true),
    ("downlink.value_notification", &["raw"], &["typed"], false),
    ("downlink.map_notification", &["raw", "typed"], &["typed"], true),
    ("downlink.operation", &["typed"], &["raw"], false),
    ("command.message", &["raw", "typed"], &["raw", "typed"], false),
    ("messages.request", &["raw"], &["raw", "typed"], false),
    ("messages.response", &["raw", "typed"], &["raw"], false),
    ("util.with_len_bytes", &["raw"], &["raw"], false),
    ("recon.with_len", &["raw", "typed"], &["typed"], false),
];

pub fn family_is_map(family: &str) -> bool {
    FAMILIES.iter().any(|(f, _, _, m)| *f == family && *m)
}

/// Decoders that `reserve` buffer space according to a length taken from the wire (established by
/// reading their source): corrupted lengths >= 2^31 are executed in a child process for these.
pub fn reserves_on_wire_length(pair: &Pair) -> bool {
    matches!(pair.family.as_str(), "downlink.operation" | "messages.request" | "messages.response")
}

#[derive(Debug, Clone, PartialEq)]
pub enum FieldKind {
    /// A tag: the bits of `mask` in the byte; `valid` is the decoder's defined tag set when the
    /// decoder has an explicit error path for other values.
    Tag { mask: u8, valid: Option<Vec<u8>> },
    /// A big-endian length of `bits` bits (the low bits of a field of `width` bytes).
    Len { bits: u8, cur: u64 },
}

#[derive(Debug, Clone, PartialEq)]
pub struct Field {
    /// Absolute offset in the stream.
    pub off: usize,
    pub width: usize,
    pub kind: FieldKind,
}

#[derive(Debug, Default)]
pub struct Prepared {
    pub bytes: Vec<u8>,
    /// End offset of every frame.
    pub ends: Vec<usize>,
    pub fields: Vec<Vec<Field>>,
    /// Recon body regions (offset, length) of every frame.
    pub bodies: Vec<Vec<(usize, usize)>>,
    pub expected: Vec<CanonMsg>,
    /// Every length field of a frame sits at a fixed offset from the start of the frame (changing one length cannot
    /// move another).
    pub fixed_positions: bool,
}

// ---------------------------------------------------------------------------------------------
// Layout walker.
// ---------------------------------------------------------------------------------------------

struct Walker<'a> {
    base: usize,
    f: &'a [u8],
    pos: usize,
    fields: Vec<Field>,
    bodies: Vec<(usize, usize)>,
    bad: bool,
}

impl<'a> Walker<'a> {
    fn new(base: usize, f: &'a [u8]) -> Self {
        Walker { base, f, pos: 0, fields: vec![], bodies: vec![], bad: false }
    }
    fn have(&mut self, n: usize) -> bool {
        if self.pos + n > self.f.len() {
            self.bad = true;
            false
        } else {
            true
        }
    }
    fn tag(&mut self, mask: u8, valid: Option<&[u8]>) -> u8 {
        if !self.have(1) {
            return 0;
        }
        let b = self.f[self.pos];
        self.fields.push(Field {
            off: self.base + self.pos,
            width: 1,
            kind: FieldKind::Tag { mask, valid: valid.map(|v| v.to_vec()) },
        });
        self.pos += 1;
        (b & mask) >> mask.trailing_zeros()
    }
    fn len64(&mut self) -> usize {
        if !self.have(8) {
            return 0;
        }
        let v = u64::from_be_bytes(self.f[self.pos..self.pos + 8].try_into().unwrap());
        self.fields.push(Field { off: self.base + self.pos, width: 8, kind: FieldKind::Len { bits: 64, cur: v } });
        self.pos += 8;
        v as usize
    }
    fn len32(&mut self) -> usize {
        if !self.have(4) {
            return 0;
        }
        let v = u32::from_be_bytes(self.f[self.pos..self.pos + 4].try_into().unwrap());
        self.fields.push(Field { off: self.base + self.pos, width: 4, kind: FieldKind::Len { bits: 32, cur: v as u64 } });
        self.pos += 4;
        v as usize
    }
    /// The 3 bit tag + 61 bit length word of the routed messages.
    fn tag_len61(&mut self, valid: Option<&[u8]>) -> (u8, usize) {
        if !self.have(8) {
            return (0, 0);
        }
        let v = u64::from_be_bytes(self.f[self.pos..self.pos + 8].try_into().unwrap());
        self.fields.push(Field {
            off: self.base + self.pos,
            width: 1,
            kind: FieldKind::Tag { mask: 0xE0, valid: valid.map(|v| v.to_vec()) },
        });
        let len = v & !(0b111 << 61);
        self.fields.push(Field { off: self.base + self.pos, width: 8, kind: FieldKind::Len { bits: 61, cur: len } });
        self.pos += 8;
        ((v >> 61) as u8, len as usize)
    }
    fn skip(&mut self, n: usize) {
        if self.have(n) {
            self.pos += n;
        }
    }
    fn body(&mut self, n: usize) {
        if self.have(n) {
            self.bodies.push((self.base + self.pos, n));
            self.pos += n;
        }
    }
    fn map(&mut self, with_take_drop: bool) {
        let total = self.len64();
        let valid: &[u8] = if with_take_drop { &[0, 1, 2, 3, 4] } else { &[0, 1, 2] };
        match self.tag(0xff, Some(valid)) {
            0 => {
                let kl = self.len64();
                self.body(kl);
                self.body(total.saturating_sub(9 + kl));
            }
            1 => self.body(total.saturating_sub(1)),
            2 => {}
            _ => self.skip(8),
        }
    }
    fn len_body(&mut self) {
        let l = self.len64();
        self.body(l);
    }
}

fn walk(family: &str, dec: &str, w: &mut Walker<'_>) {
    match family {
        "lane.value_request" | "lane.map_request" | "store.value_init" | "store.map_init" => {
            let valid: &[u8] = if family.starts_with("lane") { &[0, 1, 4] } else { &[0, 4] };
            match w.tag(0xff, Some(valid)) {
                0 => {
                    if family.ends_with("map_request") || family.ends_with("map_init") {
                        w.map(true)
                    } else {
                        w.len_body()
                    }
                }
                1 => w.skip(16),
                _ => {}
            }
        }
        "lane.value_response" | "lane.map_response" => {
            let t = w.tag(0xff, Some(&[1, 2, 3, 5]));
            if t == 1 || t == 2 {
                w.skip(16);
            }
            if t == 1 || t == 3 {
                if family == "lane.map_response" {
                    w.map(false)
                } else {
                    w.len_body()
                }
            }
        }
        "map.message" => w.map(true),
        "map.operation" => w.map(false),
        "store.initialized" => {
            w.tag(0xff, Some(&[5]));
        }
        "store.value_response" => {
            w.tag(0xff, Some(&[3]));
            w.len_body();
        }
        "store.map_response" => {
            w.tag(0xff, Some(&[3]));
            w.map(false);
        }
        "downlink.value_notification" => {
            if w.tag(0xff, Some(&[1, 2, 3, 4])) == 3 {
                w.len_body();
            }
        }
        "downlink.map_notification" => {
            if w.tag(0xff, Some(&[1, 2, 3, 4])) == 3 {
                w.len64();
                w.map(true);
            }
        }
        "downlink.operation" | "util.with_len_bytes" | "recon.with_len" => w.len_body(),
        "command.message" => {
            // The flags byte is decoded with `from_bits_truncate`: no value is invalid.
            let flags = w.tag(0xff, None);
            let has_host = flags & 0b0100 != 0;
            if flags & 0b0001 != 0 {
                let h = if has_host { w.len64() } else { 0 };
                let n = w.len64();
                let l = w.len64();
                w.skip(h + n + l + 2);
            } else if flags & 0b0010 != 0 {
                w.skip(2);
                w.len_body();
            } else {
                let h = if has_host { w.len64() } else { 0 };
                let n = w.len64();
                let l = w.len64();
                w.skip(h + n + l);
                w.len_body();
            }
        }
        "messages.request" | "messages.response" => {
            w.skip(16);
            let n = w.len32();
            let l = w.len32();
            // Only the typed request decoder has an error path for unknown codes.
            let valid: Option<&[u8]> = if family == "messages.request" && dec == "typed" { Some(&[0, 1, 2, 3]) } else { None };
            let (_, body) = w.tag_len61(valid);
            w.skip(n + l);
            w.body(body);
        }
        _ => w.bad = true,
    }
}

// ---------------------------------------------------------------------------------------------
// Building product messages from the model; canonical forms of decoded items.
// ---------------------------------------------------------------------------------------------

type Conv<'a, T> = &'a dyn Fn(&Body) -> Result<T, String>;
type Sub<T> = (String, Vec<T>);

fn raw_conv(trail: u8) -> impl Fn(&Body) -> Result<Vec<u8>, String> {
    move |b: &Body| Ok(raw_bytes(b, trail))
}

fn join_kind(a: &str, b: &str) -> String {
    if b.is_empty() {
        a.to_string()
    } else {
        format!("{a}.{b}")
    }
}

fn bytes_canon<B: AsRef<[u8]>>(b: B) -> Canon {
    Canon::Bytes(b.as_ref().to_vec())
}

fn build_map_message<K, V>(m: &Msg, fk: Conv<'_, K>, fv: Conv<'_, V>) -> Result<MapMessage<K, V>, String> {
    Ok(match m.mk.as_deref() {
        Some("update") => MapMessage::Update { key: fk(m.body(0)?)?, value: fv(m.body(1)?)? },
        Some("remove") => MapMessage::Remove { key: fk(m.body(0)?)? },
        Some("clear") => MapMessage::Clear,
        Some("take") => MapMessage::Take(m.num()?),
        Some("drop") => MapMessage::Drop(m.num()?),
        ow => return Err(format!("bad map message kind {:?}", ow)),
    })
}

fn build_map_operation<K, V>(m: &Msg, fk: Conv<'_, K>, fv: Conv<'_, V>) -> Result<MapOperation<K, V>, String> {
    Ok(match m.mk.as_deref() {
        Some("update") => MapOperation::Update { key: fk(m.body(0)?)?, value: fv(m.body(1)?)? },
        Some("remove") => MapOperation::Remove { key: fk(m.body(0)?)? },
        Some("clear") => MapOperation::Clear,
        ow => return Err(format!("bad map operation kind {:?}", ow)),
    })
}

fn canon_map_message<K, V>(m: MapMessage<K, V>, ck: &dyn Fn(K) -> Canon, cv: &dyn Fn(V) -> Canon) -> Sub<Canon> {
    match m {
        MapMessage::Update { key, value } => ("update".into(), vec![ck(key), cv(value)]),
        MapMessage::Remove { key } => ("remove".into(), vec![ck(key)]),
        MapMessage::Clear => ("clear".into(), vec![]),
        MapMessage::Take(n) => ("take".into(), vec![Canon::Num(n)]),
        MapMessage::Drop(n) => ("drop".into(), vec![Canon::Num(n)]),
    }
}

fn canon_map_operation<K, V>(m: MapOperation<K, V>, ck: &dyn Fn(K) -> Canon, cv: &dyn Fn(V) -> Canon) -> Sub<Canon> {
    match m {
        MapOperation::Update { key, value } => ("update".into(), vec![ck(key), cv(value)]),
        MapOperation::Remove { key } => ("remove".into(), vec![ck(key)]),
        MapOperation::Clear => ("clear".into(), vec![]),
    }
}

fn build_lane_request<P>(m: &Msg, payload: &dyn Fn(&Msg) -> Result<P, String>) -> Result<LaneRequest<P>, String> {
    Ok(match m.k.as_str() {
        "command" => LaneRequest::Command(payload(m)?),
        "sync" => LaneRequest::Sync(m.uuid()?),
        "init_complete" => LaneRequest::InitComplete,
        ow => return Err(format!("bad lane request kind {ow}")),
    })
}

fn canon_lane_request<P>(r: LaneRequest<P>, c: &dyn Fn(P) -> Sub<Canon>) -> CanonMsg {
    match r {
        LaneRequest::Command(p) => {
            let (k, parts) = c(p);
            CanonMsg { kind: join_kind("command", &k), parts }
        }
        LaneRequest::Sync(id) => CanonMsg::new("sync", vec![Canon::Id(id.as_u128())]),
        LaneRequest::InitComplete => CanonMsg::new("init_complete", vec![]),
    }
}

fn build_lane_response<P>(m: &Msg, payload: &dyn Fn(&Msg) -> Result<P, String>) -> Result<LaneResponse<P>, String> {
    Ok(match m.k.as_str() {
        "event" => LaneResponse::StandardEvent(payload(m)?),
        "initialized" => LaneResponse::Initialized,
        "sync_event" => LaneResponse::SyncEvent(m.uuid()?, payload(m)?),
        "synced" => LaneResponse::Synced(m.uuid()?),
        ow => return Err(format!("bad lane response kind {ow}")),
    })
}

fn canon_lane_response<P>(r: LaneResponse<P>, c: &dyn Fn(P) -> Sub<Canon>) -> CanonMsg {
    match r {
        LaneResponse::StandardEvent(p) => {
            let (k, parts) = c(p);
            CanonMsg { kind: join_kind("event", &k), parts }
        }
        LaneResponse::Initialized => CanonMsg::new("initialized", vec![]),
        LaneResponse::SyncEvent(id, p) => {
            let (k, mut parts) = c(p);
            parts.insert(0, Canon::Id(id.as_u128()));
            CanonMsg { kind: join_kind("sync_event", &k), parts }
        }
        LaneResponse::Synced(id) => CanonMsg::new("synced", vec![Canon::Id(id.as_u128())]),
    }
}

fn build_store_init<P>(m: &Msg, payload: &dyn Fn(&Msg) -> Result<P, String>) -> Result<StoreInitMessage<P>, String> {
    Ok(match m.k.as_str() {
        "command" => StoreInitMessage::Command(payload(m)?),
        "init_complete" => StoreInitMessage::InitComplete,
        ow => return Err(format!("bad store init kind {ow}")),
    })
}

fn canon_store_init<P>(r: StoreInitMessage<P>, c: &dyn Fn(P) -> Sub<Canon>) -> CanonMsg {
    match r {
        StoreInitMessage::Command(p) => {
            let (k, parts) = c(p);
            CanonMsg { kind: join_kind("command", &k), parts }
        }
        StoreInitMessage::InitComplete => CanonMsg::new("init_complete", vec![]),
    }
}

fn build_notification<P>(m: &Msg, payload: &dyn Fn(&Msg) -> Result<P, String>) -> Result<DownlinkNotification<P>, String> {
    Ok(match m.k.as_str() {
        "linked" => DownlinkNotification::Linked,
        "synced" => DownlinkNotification::Synced,
        "unlinked" => DownlinkNotification::Unlinked,
        "event" => DownlinkNotification::Event { body: payload(m)? },
        ow => return Err(format!("bad notification kind {ow}")),
    })
}

fn canon_notification<P>(r: DownlinkNotification<P>, c: &dyn Fn(P) -> Sub<Canon>) -> CanonMsg {
    match r {
        DownlinkNotification::Linked => CanonMsg::new("linked", vec![]),
        DownlinkNotification::Synced => CanonMsg::new("synced", vec![]),
        DownlinkNotification::Unlinked => CanonMsg::new("unlinked", vec![]),
        DownlinkNotification::Event { body } => {
            let (k, parts) = c(body);
            CanonMsg { kind: join_kind("event", &k), parts }
        }
    }
}

fn build_command<S, T>(m: &Msg, fs: &dyn Fn(&str) -> S, fb: Conv<'_, T>) -> Result<CommandMessage<S, T>, String> {
    let addr = || Address { host: m.host.as_deref().map(fs), node: fs(m.node()), lane: fs(m.lane()) };
    Ok(match m.k.as_str() {
        "register" => CommandMessage::Register { address: addr(), id: m.num()? as u16 },
        "addressed" => CommandMessage::Addressed { target: addr(), command: fb(m.body(0)?)?, overwrite_permitted: m.flag },
        "registered" => CommandMessage::Registered { target: m.num()? as u16, command: fb(m.body(0)?)?, overwrite_permitted: m.flag },
        ow => return Err(format!("bad command kind {ow}")),
    })
}

fn canon_command<S: AsRef<str>, T>(c: CommandMessage<S, T>, cb: &dyn Fn(T) -> Canon) -> CanonMsg {
    let addr = |a: Address<S>| {
        vec![
            a.host.map(|h| Canon::Str(h.as_ref().to_string())).unwrap_or(Canon::Absent),
            Canon::Str(a.node.as_ref().to_string()),
            Canon::Str(a.lane.as_ref().to_string()),
        ]
    };
    match c {
        CommandMessage::Register { address, id } => {
            let mut p = addr(address);
            p.push(Canon::Num(id as u64));
            CanonMsg::new("register", p)
        }
        CommandMessage::Addressed { target, command, overwrite_permitted } => {
            let mut p = addr(target);
            p.push(Canon::Flag(overwrite_permitted));
            p.push(cb(command));
            CanonMsg::new("addressed", p)
        }
        CommandMessage::Registered { target, command, overwrite_permitted } => {
            CanonMsg::new("registered", vec![Canon::Num(target as u64), Canon::Flag(overwrite_permitted), cb(command)])
        }
    }
}

fn build_request<P, T>(m: &Msg, fs: &dyn Fn(&str) -> P, fb: Conv<'_, T>) -> Result<mp::RequestMessage<P, T>, String> {
    let path = RelativeAddress { node: fs(m.node()), lane: fs(m.lane()) };
    let envelope = match m.k.as_str() {
        "link" => mp::Operation::Link,
        "sync" => mp::Operation::Sync,
        "unlink" => mp::Operation::Unlink,
        "command" => mp::Operation::Command(fb(m.body(0)?)?),
        ow => return Err(format!("bad request kind {ow}")),
    };
    Ok(mp::RequestMessage { origin: m.uuid()?, path, envelope })
}

fn canon_request<P: AsRef<str>, T>(r: mp::RequestMessage<P, T>, cb: &dyn Fn(T) -> Canon) -> CanonMsg {
    let mut parts = vec![
        Canon::Id(r.origin.as_u128()),
        Canon::Str(r.path.node.as_ref().to_string()),
        Canon::Str(r.path.lane.as_ref().to_string()),
    ];
    let kind = match r.envelope {
        mp::Operation::Link => "link",
        mp::Operation::Sync => "sync",
        mp::Operation::Unlink => "unlink",
        mp::Operation::Command(b) => {
            parts.push(cb(b));
            "command"
        }
    };
    CanonMsg::new(kind, parts)
}

fn build_response<P, T, U>(m: &Msg, fs: &dyn Fn(&str) -> P, fb: Conv<'_, T>, fu: &dyn Fn(Vec<u8>) -> U) -> Result<mp::ResponseMessage<P, T, U>, String> {
    let path = RelativeAddress { node: fs(m.node()), lane: fs(m.lane()) };
    let envelope = match m.k.as_str() {
        "linked" => mp::Notification::Linked,
        "synced" => mp::Notification::Synced,
        "unlinked" => mp::Notification::Unlinked(m.b.first().map(|b| fu(raw_bytes(b, 0)))),
        "event" => mp::Notification::Event(fb(m.body(0)?)?),
        ow => return Err(format!("bad response kind {ow}")),
    };
    Ok(mp::ResponseMessage { origin: m.uuid()?, path, envelope })
}

fn canon_response<P: AsRef<str>, T, U: AsRef<[u8]>>(r: mp::ResponseMessage<P, T, U>, cb: &dyn Fn(T) -> Canon) -> CanonMsg {
    let mut parts = vec![
        Canon::Id(r.origin.as_u128()),
        Canon::Str(r.path.node.as_ref().to_string()),
        Canon::Str(r.path.lane.as_ref().to_string()),
    ];
    let kind = match r.envelope {
        mp::Notification::Linked => "linked",
        mp::Notification::Synced => "synced",
        mp::Notification::Unlinked(b) => {
            // An empty unlink body is indistinguishable from an absent one on the wire (the length
            // is zero either way); the oracle treats both as absent.
            match b {
                Some(b) if !b.as_ref().is_empty() => parts.push(bytes_canon(b)),
                _ => parts.push(Canon::Absent),
            }
            "unlinked"
        }
        mp::Notification::Event(b) => {
            parts.push(cb(b));
            "event"
        }
    };
    CanonMsg::new(kind, parts)
}

// ---------------------------------------------------------------------------------------------
// Encoding.
// ---------------------------------------------------------------------------------------------

fn encode_all<E, I>(mut enc: E, items: Vec<I>) -> Result<(Vec<u8>, Vec<usize>), String>
where
    E: Encoder<I>,
    E::Error: Debug,
{
    // One buffer for the whole stream, as `FramedWrite` does.
    let mut buf = BytesMut::new();
    let mut ends = vec![];
    for item in items {
        enc.encode(item, &mut buf).map_err(|e| format!("encoder failed: {:?}", e))?;
        ends.push(buf.len());
    }
    Ok((buf.to_vec(), ends))
}

fn collect<T>(msgs: &[Msg], f: impl Fn(&Msg) -> Result<T, String>) -> Result<Vec<T>, String> {
    msgs.iter().map(f).collect()
}

macro_rules! with_ty {
    ($ty:expr, $T:ident, $body:block) => {
        match $ty {
            "i32" => {
                type $T = i32;
                $body
            }
            "text" => {
                type $T = String;
                $body
            }
            "value" => {
                type $T = Value;
                $body
            }
            ow => Err(format!("bad body type {ow}")),
        }
    };
}

macro_rules! with_kv {
    ($ty:expr, $K:ident, $V:ident, $body:block) => {
        match $ty {
            "i32,text" => {
                type $K = i32;
                type $V = String;
                $body
            }
            "text,i32" => {
                type $K = String;
                type $V = i32;
                $body
            }
            "value,value" => {
                type $K = Value;
                type $V = Value;
                $body
            }
            ow => Err(format!("bad key/value types {ow}")),
        }
    };
}

type Encoded = (Vec<u8>, Vec<usize>);

fn trail_of(pair: &Pair, m: &Msg) -> u8 {
    if pair.enc == "raw" {
        m.trail
    } else {
        0
    }
}

/// Encodes the messages with the encoder variant of the pair.
fn encode(pair: &Pair, msgs: &[Msg]) -> Result<Encoded, String> {
    let raw = pair.enc == "raw";
    let ty = pair.ty.as_str();
    // Payload builders.
    let rawv = |m: &Msg| raw_conv(trail_of(pair, m))(m.body(0)?);
    let raw_mm = |m: &Msg| {
        let c = raw_conv(trail_of(pair, m));
        build_map_message::<Vec<u8>, Vec<u8>>(m, &c, &c)
    };
    let raw_mo = |m: &Msg| {
        let c = raw_conv(trail_of(pair, m));
        build_map_operation::<Vec<u8>, Vec<u8>>(m, &c, &c)
    };
    match pair.family.as_str() {
        "lane.value_request" => {
            if raw {
                encode_all(pl::RawValueLaneRequestEncoder::default(), collect(msgs, |m| build_lane_request(m, &rawv))?)
            } else {
                with_ty!(ty, T, {
                    encode_all(
                        pl::ValueLaneRequestEncoder::default(),
                        collect(msgs, |m| build_lane_request(m, &|m: &Msg| T::from_body(m.body(0)?)))?,
                    )
                })
            }
        }
        "lane.map_request" => {
            if raw {
                encode_all(pl::RawMapLaneRequestEncoder::default(), collect(msgs, |m| build_lane_request(m, &raw_mm))?)
            } else {
                with_kv!(ty, K, V, {
                    encode_all(
                        pl::MapLaneRequestEncoder::default(),
                        collect(msgs, |m| build_lane_request(m, &|m: &Msg| build_map_message::<K, V>(m, &K::from_body, &V::from_body)))?,
                    )
                })
            }
        }
        "lane.value_response" => {
            if raw {
                encode_all(pl::RawValueLaneResponseEncoder::default(), collect(msgs, |m| build_lane_response(m, &rawv))?)
            } else {
                with_ty!(ty, T, {
                    encode_all(
                        pl::ValueLaneResponseEncoder::default(),
                        collect(msgs, |m| build_lane_response(m, &|m: &Msg| T::from_body(m.body(0)?)))?,
                    )
                })
            }
        }
        "lane.map_response" => {
            if raw {
                encode_all(pl::RawMapLaneResponseEncoder::default(), collect(msgs, |m| build_lane_response(m, &raw_mo))?)
            } else {
                with_kv!(ty, K, V, {
                    encode_all(
                        pl::MapLaneResponseEncoder::default(),
                        collect(msgs, |m| build_lane_response(m, &|m: &Msg| build_map_operation::<K, V>(m, &K::from_body, &V::from_body)))?,
                    )
                })
            }
        }
        "map.message" => {
            if raw {
                encode_all(pm::RawMapMessageEncoder::default(), collect(msgs, raw_mm)?)
            } else {
                with_kv!(ty, K, V, {
                    encode_all(pm::MapMessageEncoder::default(), collect(msgs, |m| build_map_message::<K, V>(m, &K::from_body, &V::from_body))?)
                })
            }
        }
        "map.operation" => {
            if raw {
                encode_all(pm::RawMapOperationEncoder, collect(msgs, raw_mo)?)
            } else {
                with_kv!(ty, K, V, {
                    encode_all(pm::MapOperationEncoder, collect(msgs, |m| build_map_operation::<K, V>(m, &K::from_body, &V::from_body))?)
                })
            }
        }
        "store.value_init" => encode_all(ps::RawValueStoreInitEncoder::default(), collect(msgs, |m| build_store_init(m, &rawv))?),
        "store.map_init" => encode_all(ps::RawMapStoreInitEncoder::default(), collect(msgs, |m| build_store_init(m, &raw_mm))?),
        "store.initialized" => encode_all(ps::StoreInitializedCodec, msgs.iter().map(|_| StoreInitialized).collect()),
        "store.value_response" => with_ty!(ty, T, {
            encode_all(
                ps::ValueStoreResponseEncoder::default(),
                collect(msgs, |m| Ok(StoreResponse { message: T::from_body(m.body(0)?)? }))?,
            )
        }),
        "store.map_response" => with_kv!(ty, K, V, {
            encode_all(
                ps::MapStoreResponseEncoder::default(),
                collect(msgs, |m| Ok(StoreResponse { message: build_map_operation::<K, V>(m, &K::from_body, &V::from_body)? }))?,
            )
        }),
        "downlink.value_notification" => encode_all(pd::DownlinkNotificationEncoder, collect(msgs, |m| build_notification(m, &rawv))?),
        "downlink.map_notification" => {
            // The event body is an encoded map message (as the runtime and the product's tests do).
            let body = |m: &Msg| -> Result<Vec<u8>, String> {
                let one = std::slice::from_ref(m);
                if raw {
                    Ok(encode_all(pm::RawMapMessageEncoder::default(), collect(one, raw_mm)?)?.0)
                } else {
                    with_kv!(ty, K, V, {
                        Ok(encode_all(pm::MapMessageEncoder::default(), collect(one, |m| build_map_message::<K, V>(m, &K::from_body, &V::from_body))?)?.0)
                    })
                }
            };
            encode_all(pd::DownlinkNotificationEncoder, collect(msgs, |m| build_notification(m, &body))?)
        }
        "downlink.operation" => with_ty!(ty, T, {
            encode_all(pd::DownlinkOperationEncoder::default(), collect(msgs, |m| Ok(DownlinkOperation { body: T::from_body(m.body(0)?)? }))?)
        }),
        "command.message" => {
            let fs = |s: &str| s.to_string();
            if raw {
                encode_all(
                    pc::RawCommandMessageEncoder::default(),
                    collect(msgs, |m| build_command::<String, Vec<u8>>(m, &fs, &raw_conv(trail_of(pair, m))))?,
                )
            } else {
                with_ty!(ty, T, {
                    encode_all(pc::CommandMessageEncoder::default(), collect(msgs, |m| build_command::<String, T>(m, &fs, &T::from_body))?)
                })
            }
        }
        "messages.request" => {
            let fs = |s: &str| s.to_string();
            encode_all(
                mp::RawRequestMessageEncoder,
                collect(msgs, |m| build_request::<String, Vec<u8>>(m, &fs, &raw_conv(trail_of(pair, m))))?,
            )
        }
        "messages.response" => {
            let fs = |s: &str| s.to_string();
            if raw {
                encode_all(
                    mp::RawResponseMessageEncoder,
                    collect(msgs, |m| build_response::<String, Vec<u8>, Vec<u8>>(m, &fs, &raw_conv(trail_of(pair, m)), &|v| v))?,
                )
            } else {
                with_ty!(ty, T, {
                    encode_all(mp::ResponseMessageEncoder, collect(msgs, |m| build_response::<String, T, Vec<u8>>(m, &fs, &T::from_body, &|v| v))?)
                })
            }
        }
        "util.with_len_bytes" => encode_all(WithLengthBytesCodec, collect(msgs, rawv)?),
        "recon.with_len" => {
            if raw {
                encode_all(WithLengthBytesCodec, collect(msgs, rawv)?)
            } else {
                with_ty!(ty, T, { encode_all(WithLenReconEncoder, collect(msgs, |m| T::from_body(m.body(0)?))?) })
            }
        }
        ow => Err(format!("unknown family {ow}")),
    }
}

// ---------------------------------------------------------------------------------------------
// Expected items (in the decoder's item type) and decoding.
// ---------------------------------------------------------------------------------------------

/// What happens on the decoder side of a pair: with `input == None` the expected canonical items
/// are computed from the model; otherwise the product's decoder is driven over the input.
pub enum Side {
    Expected(Vec<CanonMsg>),
    Decoded(DriveOut),
}

fn val_sub<T>(c: impl Fn(T) -> Canon) -> impl Fn(T) -> Sub<Canon> {
    move |t| (String::new(), vec![c(t)])
}

macro_rules! side {
    ($msgs:expr, $input:expr, $decoder:expr, $build:expr, $canon:expr) => {{
        let canon = $canon;
        match $input {
            None => {
                let build = $build;
                let mut out = vec![];
                for m in $msgs {
                    out.push(canon(build(m)?));
                }
                Ok(Side::Expected(out))
            }
            Some(input) => Ok(Side::Decoded(drive($decoder, input, canon))),
        }
    }};
}

/// The decoder side of the pair. Raw decoders see the bodies as bytes: the bytes the raw encoder was
/// given, or for a typed encoder the compact Recon text of the value (which is what the typed
/// encoders are specified to write).
pub fn decoder_side(pair: &Pair, msgs: &[Msg], input: Option<DriveIn>) -> Result<Side, String> {
    let raw = pair.dec == "raw";
    let ty = pair.ty.as_str();
    let bm = |m: &Msg| {
        let t = trail_of(pair, m);
        move |b: &Body| -> Result<BytesMut, String> { Ok(BytesMut::from(&raw_bytes(b, t)[..])) }
    };
    let rawv = |m: &Msg| bm(m)(m.body(0)?);
    let raw_mm = |m: &Msg| {
        let c = bm(m);
        build_map_message::<BytesMut, BytesMut>(m, &c, &c)
    };
    let raw_mo = |m: &Msg| {
        let c = bm(m);
        build_map_operation::<BytesMut, BytesMut>(m, &c, &c)
    };
    let cbm = |b: BytesMut| bytes_canon(b);
    let c_mm_raw = |m: MapMessage<BytesMut, BytesMut>| canon_map_message(m, &cbm, &cbm);
    let c_mo_raw = |m: MapOperation<BytesMut, BytesMut>| canon_map_operation(m, &cbm, &cbm);

    match pair.family.as_str() {
        "lane.value_request" => {
            if raw {
                side!(
                    msgs,
                    input,
                    pl::RawValueLaneRequestDecoder::default(),
                    |m: &Msg| build_lane_request(m, &|m: &Msg| rawv(m)),
                    |r: LaneRequest<BytesMut>| canon_lane_request(r, &val_sub(bytes_canon))
                )
            } else {
                with_ty!(ty, T, {
                    side!(
                        msgs,
                        input,
                        pl::ValueLaneRequestDecoder::<T>::default(),
                        |m: &Msg| build_lane_request(m, &|m: &Msg| T::from_body(m.body(0)?)),
                        |r: LaneRequest<T>| canon_lane_request(r, &val_sub(T::canon))
                    )
                })
            }
        }
        "lane.map_request" => {
            if raw {
                side!(
                    msgs,
                    input,
                    pl::RawMapLaneRequestDecoder::default(),
                    |m: &Msg| build_lane_request(m, &|m: &Msg| raw_mm(m)),
                    |r: LaneRequest<MapMessage<_, _>>| canon_lane_request(r, &|p| c_mm_raw(p))
                )
            } else {
                with_kv!(ty, K, V, {
                    side!(
                        msgs,
                        input,
                        pl::MapLaneRequestDecoder::<K, V>::default(),
                        |m: &Msg| build_lane_request(m, &|m: &Msg| build_map_message::<K, V>(m, &K::from_body, &V::from_body)),
                        |r: LaneRequest<MapMessage<K, V>>| canon_lane_request(r, &|p| canon_map_message(p, &K::canon, &V::canon))
                    )
                })
            }
        }
        "lane.value_response" => {
            if raw {
                side!(
                    msgs,
                    input,
                    pl::RawValueLaneResponseDecoder::default(),
                    |m: &Msg| build_lane_response(m, &|m: &Msg| rawv(m)),
                    |r: LaneResponse<BytesMut>| canon_lane_response(r, &val_sub(bytes_canon))
                )
            } else {
                with_ty!(ty, T, {
                    side!(
                        msgs,
                        input,
                        pl::ValueLaneResponseDecoder::<T>::default(),
                        |m: &Msg| build_lane_response(m, &|m: &Msg| T::from_body(m.body(0)?)),
                        |r: LaneResponse<T>| canon_lane_response(r, &val_sub(T::canon))
                    )
                })
            }
        }
        "lane.map_response" => {
            if raw {
                side!(
                    msgs,
                    input,
                    pl::RawMapLaneResponseDecoder::default(),
                    |m: &Msg| build_lane_response(m, &|m: &Msg| raw_mo(m)),
                    |r: LaneResponse<MapOperation<_, _>>| canon_lane_response(r, &|p| c_mo_raw(p))
                )
            } else {
                with_kv!(ty, K, V, {
                    side!(
                        msgs,
                        input,
                        pl::MapLaneResponseDecoder::<K, V>::default(),
                        |m: &Msg| build_lane_response(m, &|m: &Msg| build_map_operation::<K, V>(m, &K::from_body, &V::from_body)),
                        |r: LaneResponse<MapOperation<K, V>>| canon_lane_response(r, &|p| canon_map_operation(p, &K::canon, &V::canon))
                    )
                })
            }
        }
        "map.message" => {
            if raw {
                side!(msgs, input, pm::RawMapMessageDecoder::default(), |m: &Msg| raw_mm(m), |r: MapMessage<_, _>| {
                    let (k, parts) = c_mm_raw(r);
                    CanonMsg { kind: k, parts }
                })
            } else {
                with_kv!(ty, K, V, {
                    side!(
                        msgs,
                        input,
                        pm::MapMessageDecoder::<K, V>::default(),
                        |m: &Msg| build_map_message::<K, V>(m, &K::from_body, &V::from_body),
                        |r: MapMessage<K, V>| {
                            let (k, parts) = canon_map_message(r, &K::canon, &V::canon);
                            CanonMsg { kind: k, parts }
                        }
                    )
                })
            }
        }
        "map.operation" => {
            if raw {
                side!(msgs, input, pm::RawMapOperationDecoder, |m: &Msg| raw_mo(m), |r: MapOperation<_, _>| {
                    let (k, parts) = c_mo_raw(r);
                    CanonMsg { kind: k, parts }
                })
            } else {
                with_kv!(ty, K, V, {
                    side!(
                        msgs,
                        input,
                        pm::MapOperationDecoder::<K, V>::default(),
                        |m: &Msg| build_map_operation::<K, V>(m, &K::from_body, &V::from_body),
                        |r: MapOperation<K, V>| {
                            let (k, parts) = canon_map_operation(r, &K::canon, &V::canon);
                            CanonMsg { kind: k, parts }
                        }
                    )
                })
            }
        }
        "store.value_init" => {
            if raw {
                side!(
                    msgs,
                    input,
                    ps::RawValueStoreInitDecoder::default(),
                    |m: &Msg| build_store_init(m, &|m: &Msg| rawv(m)),
                    |r: StoreInitMessage<BytesMut>| canon_store_init(r, &val_sub(bytes_canon))
                )
            } else {
                with_ty!(ty, T, {
                    side!(
                        msgs,
                        input,
                        ps::ValueStoreInitDecoder::<T>::default(),
                        |m: &Msg| build_store_init(m, &|m: &Msg| T::from_body(m.body(0)?)),
                        |r: StoreInitMessage<T>| canon_store_init(r, &val_sub(T::canon))
                    )
                })
            }
        }
        "store.map_init" => {
            if raw {
                side!(
                    msgs,
                    input,
                    ps::RawMapStoreInitDecoder::default(),
                    |m: &Msg| build_store_init(m, &|m: &Msg| raw_mm(m)),
                    |r: StoreInitMessage<MapMessage<_, _>>| canon_store_init(r, &|p| c_mm_raw(p))
                )
            } else {
                with_kv!(ty, K, V, {
                    side!(
                        msgs,
                        input,
                        ps::MapStoreInitDecoder::<K, V>::default(),
                        |m: &Msg| build_store_init(m, &|m: &Msg| build_map_message::<K, V>(m, &K::from_body, &V::from_body)),
                        |r: StoreInitMessage<MapMessage<K, V>>| canon_store_init(r, &|p| canon_map_message(p, &K::canon, &V::canon))
                    )
                })
            }
        }
        "store.initialized" => side!(
            msgs,
            input,
            ps::StoreInitializedCodec,
            |_m: &Msg| -> Result<StoreInitialized, String> { Ok(StoreInitialized) },
            |_r: StoreInitialized| CanonMsg::new("initialized", vec![])
        ),
        "store.value_response" => side!(
            msgs,
            input,
            ps::RawValueStoreResponseDecoder::default(),
            |m: &Msg| -> Result<StoreResponse<BytesMut>, String> { Ok(StoreResponse { message: rawv(m)? }) },
            |r: StoreResponse<BytesMut>| CanonMsg::new("event", vec![bytes_canon(r.message)])
        ),
        "store.map_response" => side!(
            msgs,
            input,
            ps::RawMapStoreResponseDecoder::default(),
            |m: &Msg| -> Result<StoreResponse<MapOperation<_, _>>, String> { Ok(StoreResponse { message: raw_mo(m)? }) },
            |r: StoreResponse<MapOperation<_, _>>| {
                let (k, parts) = c_mo_raw(r.message);
                CanonMsg { kind: join_kind("event", &k), parts }
            }
        ),
        "downlink.value_notification" => with_ty!(ty, T, {
            side!(
                msgs,
                input,
                pd::ValueNotificationDecoder::<T>::default(),
                |m: &Msg| build_notification(m, &|m: &Msg| T::from_body(m.body(0)?)),
                |r: DownlinkNotification<T>| canon_notification(r, &val_sub(T::canon))
            )
        }),
        "downlink.map_notification" => with_kv!(ty, K, V, {
            side!(
                msgs,
                input,
                pd::MapNotificationDecoder::<K, V>::default(),
                |m: &Msg| build_notification(m, &|m: &Msg| build_map_message::<K, V>(m, &K::from_body, &V::from_body)),
                |r: DownlinkNotification<MapMessage<K, V>>| canon_notification(r, &|p| canon_map_message(p, &K::canon, &V::canon))
            )
        }),
        "downlink.operation" => side!(
            msgs,
            input,
            pd::DownlinkOperationDecoder,
            |m: &Msg| -> Result<DownlinkOperation<Bytes>, String> { Ok(DownlinkOperation { body: rawv(m)?.freeze() }) },
            |r: DownlinkOperation<Bytes>| CanonMsg::new("op", vec![bytes_canon(r.body)])
        ),
        "command.message" => {
            if raw {
                side!(
                    msgs,
                    input,
                    pc::RawCommandMessageDecoder::<BytesStr>::default(),
                    |m: &Msg| build_command::<BytesStr, BytesMut>(m, &|s: &str| BytesStr::from(s), &|b: &Body| Ok(BytesMut::from(&raw_conv(trail_of(pair, m))(b)?[..]))),
                    |r: CommandMessage<BytesStr, BytesMut>| canon_command(r, &bytes_canon)
                )
            } else {
                with_ty!(ty, T, {
                    side!(
                        msgs,
                        input,
                        pc::CommandMessageDecoder::<String, T>::default(),
                        |m: &Msg| build_command::<String, T>(m, &|s: &str| s.to_string(), &T::from_body),
                        |r: CommandMessage<String, T>| canon_command(r, &T::canon)
                    )
                })
            }
        }
        "messages.request" => {
            if raw {
                side!(
                    msgs,
                    input,
                    mp::RawRequestMessageDecoder,
                    |m: &Msg| build_request::<BytesStr, Bytes>(m, &|s: &str| BytesStr::from(s), &|b: &Body| Ok(Bytes::from(raw_conv(trail_of(pair, m))(b)?))),
                    |r: mp::RequestMessage<BytesStr, Bytes>| canon_request(r, &bytes_canon)
                )
            } else {
                with_ty!(ty, T, {
                    side!(
                        msgs,
                        input,
                        mp::RequestMessageDecoder::<T, <T as RecognizerReadable>::Rec>::new(T::make_recognizer()),
                        |m: &Msg| build_request::<swimos_model::Text, T>(m, &|s: &str| swimos_model::Text::new(s), &T::from_body),
                        |r: mp::RequestMessage<swimos_model::Text, T>| canon_request(r, &T::canon)
                    )
                })
            }
        }
        "messages.response" => side!(
            msgs,
            input,
            mp::RawResponseMessageDecoder,
            |m: &Msg| build_response::<BytesStr, Bytes, Bytes>(m, &|s: &str| BytesStr::from(s), &|b: &Body| Ok(Bytes::from(raw_bytes(b, trail_of(pair, m)))), &|v| Bytes::from(v)),
            |r: mp::ResponseMessage<BytesStr, Bytes, Bytes>| canon_response_any(r)
        ),
        "util.with_len_bytes" => side!(
            msgs,
            input,
            WithLengthBytesCodec,
            |m: &Msg| -> Result<BytesMut, String> { rawv(m) },
            |r: BytesMut| CanonMsg::new("bytes", vec![bytes_canon(r)])
        ),
        "recon.with_len" => with_ty!(ty, T, {
            side!(
                msgs,
                input,
                WithLenRecognizerDecoder::new(T::make_recognizer()),
                |m: &Msg| T::from_body(m.body(0)?),
                |r: T| CanonMsg::new("value", vec![r.canon()])
            )
        }),
        ow => Err(format!("unknown family {ow}")),
    }
}

/// Canonical form of a raw response for both the expected (`String`/`Vec<u8>`) and the decoded
/// (`BytesStr`/`Bytes`) representation.
fn canon_response_any<P: AsRef<str>, T: AsRef<[u8]>, U: AsRef<[u8]>>(r: mp::ResponseMessage<P, T, U>) -> CanonMsg {
    canon_response(r, &|b: T| bytes_canon(b))
}

/// Encodes the messages, computes the frame layout and the expected items.
pub fn prepare(pair: &Pair, msgs: &[Msg]) -> Result<Prepared, String> {
    let (bytes, ends) = encode(pair, msgs)?;
    let expected = match decoder_side(pair, msgs, None)? {
        Side::Expected(e) => e,
        Side::Decoded(_) => return Err("internal: expected side".into()),
    };
    let mut fields = vec![];
    let mut bodies = vec![];
    let mut start = 0;
    for end in &ends {
        let mut w = Walker::new(start, &bytes[start..*end]);
        walk(&pair.family, &pair.dec, &mut w);
        if w.bad || w.pos != end - start {
            return Err(format!(
                "internal: layout walker disagrees with the encoder for {} (frame {}..{}, walked {}, bad={})",
                pair.sig(),
                start,
                end,
                w.pos,
                w.bad
            ));
        }
        fields.push(w.fields);
        bodies.push(w.bodies);
        start = *end;
    }
    let fixed_positions = pair.family == "downlink.map_notification";
    Ok(Prepared { bytes, ends, fields, bodies, expected, fixed_positions })
}

pub fn decode(pair: &Pair, msgs: &[Msg], input: DriveIn) -> Result<DriveOut, String> {
    match decoder_side(pair, msgs, Some(input))? {
        Side::Decoded(d) => Ok(d),
        Side::Expected(_) => Err("internal: decoded side".into()),
    }
}
