//! W-DLRT: the real downlink runtime (`ValueDownlinkRuntime` / `MapDownlinkRuntime`) shared by
//! several scripted consumers, talking to a scripted remote lane on the socket side.

use std::cell::RefCell;
use std::collections::{BTreeMap, BTreeSet};
use std::future::Future;
use std::num::NonZeroUsize;
use std::pin::Pin;
use std::rc::Rc;
use std::task::{Context, Poll};
use std::time::Duration;

use bytes::BytesMut;
use serde::{Deserialize, Serialize};
use serde_json::{json, Value as Json};
use swimos_agent_protocol::encoding::downlink::DownlinkOperationEncoder;
use swimos_agent_protocol::encoding::map::MapOperationEncoder;
use swimos_agent_protocol::{DownlinkOperation, MapMessage, MapOperation};
use swimos_api::address::RelativeAddress;
use swimos_messages::protocol::{
    Operation, RawRequestMessageDecoder, RawResponseMessageEncoder, ResponseMessage,
};
use swimos_model::Text;
use swimos_recon::parser::parse_recognize;
use swimos_runtime::downlink::failure::{AlwaysAbortStrategy, AlwaysIgnoreStrategy};
use swimos_runtime::downlink::{
    AttachAction, DownlinkOptions, DownlinkRuntimeConfig, IdentifiedAddress, MapDownlinkRuntime,
    ValueDownlinkRuntime,
};
use swimos_utilities::byte_channel::{byte_channel, ByteReader, ByteWriter};
use swimos_utilities::trigger;
use tokio::io::{AsyncRead, AsyncWriteExt, ReadBuf};
use tokio::sync::mpsc;
use tokio_util::codec::{Decoder, Encoder};
use uuid::Uuid;

use crate::core::exec::{now_step, Exec, Policy, Scheduler};
use crate::core::log::EventLog;
use crate::core::rng::Rng;
use crate::core::tok::block_on_sim;
use crate::core::{Outcome, Tier, Violation, World};

#[derive(Debug, Clone, Serialize, Deserialize, PartialEq, Eq)]
pub enum COp {
    Set(i32),
    Update(i32, i32),
    Remove(i32),
    Clear,
    Pause(u32),
    /// Drop both halves of the consumer.
    Drop,
    /// Drop only the half the consumer sends its commands on; it keeps reading its notifications (a read-only
    /// consumer from then on).
    DropWriter,
}

#[derive(Debug, Clone, Serialize, Deserialize, PartialEq, Eq)]
pub struct ReadCfg {
    pub max_chunk: u32,
    pub stall_pm: u32,
    pub stall_max: u32,
}

#[derive(Debug, Clone, Serialize, Deserialize, PartialEq, Eq)]
pub struct Consumer {
    pub id: u32,
    pub attach_delay: u32,
    pub sync: bool,
    pub keep_linked: bool,
    pub out_cap: u32,
    pub in_cap: u32,
    pub read: ReadCfg,
    pub chunk_seed: u64,
    pub ops: Vec<COp>,
}

#[derive(Debug, Clone, Serialize, Deserialize, PartialEq, Eq)]
pub enum RemoteOp {
    /// After this many polls of the remote, the lane changes by itself (another writer) and emits an event.
    ExtSet { after: u32, v: i32 },
    ExtUpdate { after: u32, k: i32, v: i32 },
    ExtRemove { after: u32, k: i32 },
    /// The remote closes the link.
    Unlink { after: u32 },
    /// The remote sends an event whose body is not a valid message of the lane's kind (map downlinks; only generated
    /// when the runtime is configured to ignore bad frames): nothing may reach the consumers for it and everything
    /// else must carry on.
    ExtBad { after: u32, body: String },
}

#[derive(Debug, Clone, Serialize, Deserialize, PartialEq, Eq)]
pub enum DlEnding {
    Stop,
    /// All consumers are dropped, then time passes: the runtime must stop by itself.
    EmptyTimeout,
}

#[derive(Debug, Clone, Serialize, Deserialize, PartialEq, Eq)]
pub struct DlScenario {
    pub map: bool,
    pub consumers: Vec<Consumer>,
    pub remote: Vec<RemoteOp>,
    pub remote_read: ReadCfg,
    pub remote_in_cap: u32,
    pub remote_out_cap: u32,
    /// The remote lane holds a value that it sends on sync (false: stateless lane, synced only).
    pub lane_has_state: bool,
    pub att_queue: u32,
    pub empty_timeout_ms: u64,
    pub budget: u32,
    pub policy: u32,
    pub sched_seed: u64,
    pub tokio_seed: u64,
    /// Start value of std's hash keys on the run's thread (iteration order of the product's HashMaps).
    #[serde(default)]
    pub hash_seed: u64,
    /// The map runtime is given the strategy that ignores bad frames (false: it aborts on one; none is sent then).
    #[serde(default)]
    pub ignore_bad_frames: bool,
    /// The map runtime is built with `with_interpretation(.., NoInterpretation)` (the map-*event* downlink: event bodies
    /// are passed on as they are) instead of `new`.
    #[serde(default)]
    pub no_interpretation: bool,
    /// The remote delivers one event for the lane BEFORE it answers the first link request (events of another
    /// downlink to the same node and lane that is already linked reach a new runtime like this): the consumers waiting
    /// to be linked must still be linked, synced and served afterwards.
    #[serde(default)]
    pub early_event: bool,
    pub ending: DlEnding,
    /// At quiescence (consumers attached) let time pass: the runtime must not stop.
    pub idle_probe: bool,
    pub max_steps: u64,
}

fn gen_read(rng: &mut Rng) -> ReadCfg {
    ReadCfg {
        max_chunk: *rng.pick(&[1u32, 2, 3, 7, 16, 64, 4096, 4096]),
        stall_pm: *rng.pick(&[0u32, 0, 30, 150]),
        stall_max: *rng.pick(&[1u32, 5, 30]),
    }
}

pub fn generate(seed: u64, map: bool) -> DlScenario {
    let root = Rng::new(seed);
    let mut rng = root.sub("scenario");
    let mut next_val = 1000;
    let n = rng.range(1, 4) as u32;
    let single_writer = rng.chance(1, 2);
    let keys = rng.range(1, 4) as i32;
    let caps: &[u32] = &[8, 16, 32, 64, 256, 4096];
    let mut consumers = vec![];
    for id in 0..n {
        let writer = !single_writer || id == 0;
        let n_ops = if writer { rng.range(0, 30) } else { rng.range(0, 3) };
        let mut ops = vec![];
        for _ in 0..n_ops {
            let x = rng.below(20);
            if !writer || x >= 17 {
                ops.push(COp::Pause(*rng.pick(&[1u32, 3, 10, 40])));
            } else if map {
                // One writer per key: consumer `id` owns keys congruent to id mod n (all keys if single writer).
                let k = if single_writer { rng.range_i(0, keys as i64 - 1) as i32 } else { (rng.range_i(0, keys as i64 - 1) as i32) * n as i32 + id as i32 };
                match x {
                    0..=11 => {
                        next_val += 1;
                        ops.push(COp::Update(k, next_val));
                    }
                    12..=14 => ops.push(COp::Remove(k)),
                    15 if single_writer => ops.push(COp::Clear),
                    _ => {
                        next_val += 1;
                        ops.push(COp::Update(k, next_val));
                    }
                }
            } else {
                next_val += 1;
                ops.push(COp::Set(next_val));
            }
        }
        if root.sub(&format!("drop-writer{id}")).chance(1, 6) {
            ops.push(COp::DropWriter);
        }
        if rng.chance(1, 5) {
            let at = rng.usize_below(ops.len() + 1);
            ops.insert(at, COp::Drop);
            ops.truncate(at + 1);
        }
        consumers.push(Consumer {
            id,
            attach_delay: *rng.pick(&[0u32, 0, 5, 30, 120]),
            sync: rng.chance(2, 3),
            keep_linked: rng.chance(1, 2),
            out_cap: *rng.pick(caps),
            in_cap: *rng.pick(caps),
            read: gen_read(&mut rng),
            chunk_seed: root.sub(&format!("c{id}")).next_u64(),
            ops,
        });
    }
    let mut remote = vec![];
    let n_ext = rng.range(0, 6);
    for _ in 0..n_ext {
        let after = rng.range(1, 200) as u32;
        next_val += 1;
        if map {
            // External writers use their own key range so that "one writer per key" still holds.
            let k = 100 + rng.range_i(0, 2) as i32;
            if rng.chance(3, 4) {
                remote.push(RemoteOp::ExtUpdate { after, k, v: next_val });
            } else {
                remote.push(RemoteOp::ExtRemove { after, k });
            }
        } else if single_writer && n_ext > 0 && consumers.iter().all(|c| c.ops.iter().all(|o| !matches!(o, COp::Set(_)))) {
            remote.push(RemoteOp::ExtSet { after, v: next_val });
        } else if !single_writer {
            // Value lane with consumer writers: no external writers (keeps "as if all were sent" unambiguous).
        } else {
            remote.push(RemoteOp::ExtSet { after, v: next_val });
        }
    }
    if rng.chance(1, 8) {
        remote.push(RemoteOp::Unlink { after: rng.range(5, 300) as u32 });
    }
    let ending = if rng.chance(1, 5) { DlEnding::EmptyTimeout } else { DlEnding::Stop };
    let mut br = root.sub("bad-frames");
    let ignore_bad_frames = map && br.chance(1, 4);
    if ignore_bad_frames {
        for _ in 0..br.range(1, 3) {
            let body = br.pick(&["@bogus", "@update(key:", "{", "@update(key:1,x:2) 3", "\"", "@take(x)"]).to_string();
            remote.push(RemoteOp::ExtBad { after: br.range(1, 200) as u32, body });
        }
    }
    DlScenario {
        map,
        early_event: root.sub("early-event").chance(1, 6),
        no_interpretation: map && !ignore_bad_frames && root.sub("no-interpretation").chance(1, 4),
        ignore_bad_frames,
        consumers,
        remote,
        remote_read: gen_read(&mut rng),
        remote_in_cap: *rng.pick(caps),
        remote_out_cap: *rng.pick(caps),
        lane_has_state: rng.chance(5, 6),
        att_queue: *rng.pick(&[1u32, 2, 16]),
        empty_timeout_ms: *rng.pick(&[1_000u64, 30_000]),
        budget: *rng.pick(&[2u32, 3, 8, 64]),
        policy: rng.below(4) as u32,
        sched_seed: root.sub("sched").next_u64(),
        tokio_seed: root.sub("tokio").next_u64(),
        hash_seed: root.sub("hash").next_u64() | 1,
        ending,
        idle_probe: rng.chance(1, 3),
        max_steps: 40_000,
    }
}

// ------------------------------------------------------------------------------------------------

#[derive(Debug, Clone, PartialEq, Eq)]
pub enum Note {
    Linked,
    Synced,
    Unlinked,
    Value(i32),
    Map(MapEv),
    Undecodable(String),
}

/// How a map key travels: the keys of the external writers (>= 100) are text keys with a character outside ASCII,
/// the consumers' own keys are integers.
pub fn wire_key(k: i32) -> String {
    if k >= 100 {
        format!("\"k\u{e9}\u{20ac}{k}\"")
    } else {
        k.to_string()
    }
}

fn key_of_value(v: &swimos_model::Value) -> Option<i32> {
    match v {
        swimos_model::Value::Int32Value(k) => Some(*k),
        swimos_model::Value::Int64Value(k) => i32::try_from(*k).ok(),
        swimos_model::Value::UInt32Value(k) => i32::try_from(*k).ok(),
        swimos_model::Value::UInt64Value(k) => i32::try_from(*k).ok(),
        swimos_model::Value::Text(t) => t.as_str().strip_prefix("k\u{e9}\u{20ac}").and_then(|r| r.parse::<i32>().ok()).filter(|k| *k >= 100),
        _ => None,
    }
}

#[derive(Debug, Clone, PartialEq, Eq)]
pub enum MapEv {
    Update(i32, i32),
    Remove(i32),
    Clear,
    Other(String),
}

#[derive(Debug, Default)]
struct Hist {
    /// (step, consumer, notification)
    notes: Vec<(u64, u32, Note)>,
    /// (start step, end step, consumer, op, ok)
    writes: Vec<(u64, u64, u32, COp, bool)>,
    attached: Vec<(u64, u32)>,
    consumer_end: Vec<(u64, u32, String)>,
    /// Commands as the remote lane received them: (step, body)
    received: Vec<(u64, String)>,
    /// Events the remote lane emitted: (step when fully written, body, cause)
    emitted: Vec<(u64, String, &'static str)>,
    /// Requests seen by the remote.
    requests: Vec<(u64, String)>,
    remote_end: Vec<(u64, String)>,
    marks: Vec<(u64, String)>,
    /// Lane value history (step, value) / map history is derived from `emitted`.
    lane_values: Vec<(u64, i32)>,
    /// Every state the remote map lane held: (step, map).
    lane_maps: Vec<(u64, BTreeMap<i32, i32>)>,
}

type SharedHist = Rc<RefCell<Hist>>;

#[derive(Default)]
struct Flags {
    drain: bool,
    /// The runtime passes event bodies on as they are (Recon text) instead of re-encoded map messages.
    raw_events: bool,
}

struct Yield(bool);
impl Future for Yield {
    type Output = ();
    fn poll(mut self: Pin<&mut Self>, cx: &mut Context<'_>) -> Poll<()> {
        if self.0 {
            Poll::Ready(())
        } else {
            self.0 = true;
            cx.waker().wake_by_ref();
            Poll::Pending
        }
    }
}
async fn yield_n(n: u32) {
    for _ in 0..n {
        Yield(false).await;
    }
}

/// Throttled reader: one chunk per poll, stalls.
struct Throttle {
    reader: ByteReader,
    rng: Rng,
    cfg: ReadCfg,
    stalled: u32,
    flags: Rc<RefCell<Flags>>,
}

impl Throttle {
    /// Ok(None) = EOF.
    fn poll_chunk(&mut self, cx: &mut Context<'_>, out: &mut BytesMut) -> Poll<std::io::Result<Option<usize>>> {
        let drain = self.flags.borrow().drain;
        if !drain {
            if self.stalled > 0 {
                self.stalled -= 1;
                cx.waker().wake_by_ref();
                return Poll::Pending;
            }
            if self.cfg.stall_pm > 0 && self.rng.below(1000) < self.cfg.stall_pm as u64 {
                self.stalled = self.rng.range(1, self.cfg.stall_max.max(1) as u64) as u32;
                cx.waker().wake_by_ref();
                return Poll::Pending;
            }
        }
        let n = if drain { 4096 } else { self.rng.range(1, self.cfg.max_chunk.max(1) as u64) as usize }.min(4096);
        let mut scratch = [0u8; 4096];
        let mut rb = ReadBuf::new(&mut scratch[..n]);
        match Pin::new(&mut self.reader).poll_read(cx, &mut rb) {
            Poll::Pending => Poll::Pending,
            Poll::Ready(Err(e)) => Poll::Ready(Err(e)),
            Poll::Ready(Ok(())) => {
                let k = rb.filled().len();
                if k == 0 {
                    Poll::Ready(Ok(None))
                } else {
                    out.extend_from_slice(rb.filled());
                    Poll::Ready(Ok(Some(k)))
                }
            }
        }
    }
}

struct ConsumerReader {
    id: u32,
    map: bool,
    mdec_body: swimos_agent_protocol::encoding::map::MapMessageDecoder<swimos_model::Value, i32>,
    src: Option<Throttle>,
    buf: BytesMut,
    hist: SharedHist,
    closed: Rc<RefCell<bool>>,
}

impl Future for ConsumerReader {
    type Output = ();
    fn poll(mut self: Pin<&mut Self>, cx: &mut Context<'_>) -> Poll<()> {
        let this = &mut *self;
        if *this.closed.borrow() {
            this.src = None;
            this.hist.borrow_mut().consumer_end.push((now_step(), this.id, "dropped".into()));
            return Poll::Ready(());
        }
        let Some(src) = this.src.as_mut() else { return Poll::Ready(()) };
        match src.poll_chunk(cx, &mut this.buf) {
            Poll::Pending => Poll::Pending,
            Poll::Ready(Err(e)) => {
                this.hist.borrow_mut().consumer_end.push((now_step(), this.id, format!("io-error {e}")));
                Poll::Ready(())
            }
            Poll::Ready(Ok(None)) => {
                let left = this.buf.len();
                this.hist.borrow_mut().consumer_end.push((now_step(), this.id, format!("eof leftover={left}")));
                Poll::Ready(())
            }
            Poll::Ready(Ok(Some(_))) => {
                // The harness frames notifications itself (tag, length, body) and only decodes complete
                // bodies, so that it does not depend on the product's streaming body decoders.
                loop {
                    if this.buf.is_empty() {
                        break;
                    }
                    let tag = this.buf[0];
                    let note = match tag {
                        1 => {
                            let _ = this.buf.split_to(1);
                            Note::Linked
                        }
                        2 => {
                            let _ = this.buf.split_to(1);
                            Note::Synced
                        }
                        4 => {
                            let _ = this.buf.split_to(1);
                            Note::Unlinked
                        }
                        3 => {
                            if this.buf.len() < 9 {
                                break;
                            }
                            let len = u64::from_be_bytes(this.buf[1..9].try_into().unwrap()) as usize;
                            if this.buf.len() < 9 + len {
                                break;
                            }
                            let _ = this.buf.split_to(9);
                            let mut body = this.buf.split_to(len);
                            let raw_events = this.src.as_ref().map(|s| s.flags.borrow().raw_events).unwrap_or(false);
                            if this.map && raw_events {
                                let text = String::from_utf8_lossy(body.as_ref()).to_string();
                                match parse_recognize::<MapMessage<swimos_model::Value, i32>>(text.as_str(), false) {
                                    Ok(MapMessage::Update { key, value }) => match key_of_value(&key) {
                                        Some(k) => Note::Map(MapEv::Update(k, value)),
                                        None => Note::Undecodable(format!("unknown key {key} in {text}")),
                                    },
                                    Ok(MapMessage::Remove { key }) => match key_of_value(&key) {
                                        Some(k) => Note::Map(MapEv::Remove(k)),
                                        None => Note::Undecodable(format!("unknown key {key} in {text}")),
                                    },
                                    Ok(MapMessage::Clear) => Note::Map(MapEv::Clear),
                                    Ok(other) => Note::Map(MapEv::Other(format!("{:?}", other))),
                                    Err(e) => Note::Undecodable(format!("{e} in {text}")),
                                }
                            } else if this.map {
                                let text = format!("{:?}", body.as_ref());
                                match this.mdec_body.decode_eof(&mut body) {
                                    Ok(Some(MapMessage::Update { key, value })) => match key_of_value(&key) {
                                        Some(k) => Note::Map(MapEv::Update(k, value)),
                                        None => Note::Undecodable(format!("unknown key {key} in {text}")),
                                    },
                                    Ok(Some(MapMessage::Remove { key })) => match key_of_value(&key) {
                                        Some(k) => Note::Map(MapEv::Remove(k)),
                                        None => Note::Undecodable(format!("unknown key {key} in {text}")),
                                    },
                                    Ok(Some(MapMessage::Clear)) => Note::Map(MapEv::Clear),
                                    Ok(Some(other)) => Note::Map(MapEv::Other(format!("{:?}", other))),
                                    Ok(None) => Note::Undecodable(format!("incomplete map message {text}")),
                                    Err(e) => Note::Undecodable(format!("{e}")),
                                }
                            } else {
                                match std::str::from_utf8(body.as_ref()).ok().and_then(|t| parse_recognize::<i32>(t, false).ok()) {
                                    Some(v) => Note::Value(v),
                                    None => Note::Undecodable(format!("value body {:?}", body.as_ref())),
                                }
                            }
                        }
                        t => {
                            this.buf.clear();
                            Note::Undecodable(format!("tag {t}"))
                        }
                    };
                    this.hist.borrow_mut().notes.push((now_step(), this.id, note));
                }
                cx.waker().wake_by_ref();
                Poll::Pending
            }
        }
    }
}

type SpawnQueue = Rc<RefCell<Vec<(String, Pin<Box<dyn Future<Output = ()>>>)>>>;

async fn consumer_writer(
    c: Consumer,
    map: bool,
    att_tx: mpsc::Sender<AttachAction>,
    hist: SharedHist,
    flags: Rc<RefCell<Flags>>,
    spawn: SpawnQueue,
) {
    yield_n(c.attach_delay).await;
    let (to_consumer_tx, to_consumer_rx) = byte_channel(NonZeroUsize::new(c.out_cap.max(1) as usize).unwrap());
    let (from_consumer_tx, from_consumer_rx) = byte_channel(NonZeroUsize::new(c.in_cap.max(1) as usize).unwrap());
    let mut options = DownlinkOptions::empty();
    if c.sync {
        options |= DownlinkOptions::SYNC;
    }
    if c.keep_linked {
        options |= DownlinkOptions::KEEP_LINKED;
    }
    if att_tx.send(AttachAction::new((to_consumer_tx, from_consumer_rx), options)).await.is_err() {
        hist.borrow_mut().marks.push((now_step(), format!("consumer{} attach-failed", c.id)));
        return;
    }
    hist.borrow_mut().attached.push((now_step(), c.id));
    let closed = Rc::new(RefCell::new(false));
    spawn.borrow_mut().push((
        format!("c{}.r", c.id),
        Box::pin(ConsumerReader {
            id: c.id,
            map,
            mdec_body: Default::default(),
            src: Some(Throttle { reader: to_consumer_rx, rng: Rng::new(c.chunk_seed), cfg: c.read.clone(), stalled: 0, flags: flags.clone() }),
            buf: BytesMut::new(),
            hist: hist.clone(),
            closed: closed.clone(),
        }),
    ));
    let mut writer = Some(from_consumer_tx);
    let mut buf = BytesMut::new();
    for op in c.ops.iter() {
        let start = now_step();
        let mut ok = true;
        buf.clear();
        match op {
            COp::Pause(n) => {
                yield_n(*n).await;
                continue;
            }
            COp::DropWriter => {
                writer = None;
                hist.borrow_mut().marks.push((now_step(), format!("consumer{} dropped its command half", c.id)));
                continue;
            }
            COp::Drop => {
                writer = None;
                *closed.borrow_mut() = true;
                hist.borrow_mut().writes.push((start, now_step(), c.id, op.clone(), true));
                break;
            }
            COp::Set(v) => {
                let mut enc = DownlinkOperationEncoder::default();
                enc.encode(DownlinkOperation::new(*v), &mut buf).expect("encode");
            }
            COp::Update(k, v) => {
                let mut enc = MapOperationEncoder::default();
                enc.encode(MapOperation::Update { key: *k, value: *v }, &mut buf).expect("encode");
            }
            COp::Remove(k) => {
                let mut enc = MapOperationEncoder::default();
                enc.encode(MapOperation::<i32, i32>::Remove { key: *k }, &mut buf).expect("encode");
            }
            COp::Clear => {
                let mut enc = MapOperationEncoder::default();
                enc.encode(MapOperation::<i32, i32>::Clear, &mut buf).expect("encode");
            }
        }
        if let Some(w) = writer.as_mut() {
            if w.write_all(&buf).await.is_err() {
                ok = false;
                writer = None;
            }
        } else {
            ok = false;
        }
        hist.borrow_mut().writes.push((start, now_step(), c.id, op.clone(), ok));
    }
    // Keep the write half open.
    if let Some(w) = writer {
        Hold(w, closed).await;
    }
}

struct Hold(ByteWriter, Rc<RefCell<bool>>);
impl Future for Hold {
    type Output = ();
    fn poll(self: Pin<&mut Self>, _cx: &mut Context<'_>) -> Poll<()> {
        Poll::Pending
    }
}

/// The scripted remote lane.
async fn remote_lane(
    sc: DlScenario,
    from_runtime: ByteReader,
    to_runtime: ByteWriter,
    hist: SharedHist,
    flags: Rc<RefCell<Flags>>,
) {
    let mut src = Throttle { reader: from_runtime, rng: Rng::new(sc.sched_seed ^ 0x55), cfg: sc.remote_read.clone(), stalled: 0, flags: flags.clone() };
    let mut out = Some(to_runtime);
    let mut buf = BytesMut::new();
    let mut value: i32 = 0;
    let mut early_sent = false;
    let mut map: BTreeMap<i32, i32> = BTreeMap::new();
    let mut polls: u32 = 0;
    let mut script: Vec<RemoteOp> = sc.remote.clone();
    let origin = Uuid::from_u128(99);
    let addr = || RelativeAddress::new("/remote", "lane");
    let mut linked = false;
    hist.borrow_mut().lane_values.push((0, 0));
    hist.borrow_mut().lane_maps.push((0, BTreeMap::new()));

    async fn send(out: &mut Option<ByteWriter>, msg: ResponseMessage<&str, &[u8], &[u8]>) -> bool {
        let mut enc = RawResponseMessageEncoder;
        let mut b = BytesMut::new();
        enc.encode(msg, &mut b).expect("encode");
        match out.as_mut() {
            Some(w) => {
                if w.write_all(&b).await.is_err() {
                    *out = None;
                    false
                } else {
                    true
                }
            }
            None => false,
        }
    }

    loop {
        // Scripted external changes / unlink, by number of polls of this node.
        polls += 1;
        let mut i = 0;
        while i < script.len() {
            let due = match &script[i] {
                RemoteOp::ExtSet { after, .. } | RemoteOp::ExtUpdate { after, .. } | RemoteOp::ExtRemove { after, .. } | RemoteOp::Unlink { after } | RemoteOp::ExtBad { after, .. } => *after <= polls,
            };
            if !due {
                i += 1;
                continue;
            }
            let op = script.remove(i);
            match op {
                RemoteOp::ExtSet { v, .. } => {
                    value = v;
                    hist.borrow_mut().lane_values.push((now_step(), v));
                    if linked {
                        let body = v.to_string();
                        if send(&mut out, ResponseMessage::event(origin, addr(), body.as_bytes())).await {
                            hist.borrow_mut().emitted.push((now_step(), body, "ext"));
                        }
                    }
                }
                RemoteOp::ExtUpdate { k, v, .. } => {
                    map.insert(k, v);
                    hist.borrow_mut().lane_maps.push((now_step(), map.clone()));
                    if linked {
                        let body = format!("@update(key:{}) {v}", wire_key(k));
                        if send(&mut out, ResponseMessage::event(origin, addr(), body.as_bytes())).await {
                            hist.borrow_mut().emitted.push((now_step(), body, "ext"));
                        }
                    }
                }
                RemoteOp::ExtRemove { k, .. } => {
                    let removed = map.remove(&k).is_some();
                    hist.borrow_mut().lane_maps.push((now_step(), map.clone()));
                    if removed && linked {
                        let body = format!("@remove(key:{})", wire_key(k));
                        if send(&mut out, ResponseMessage::event(origin, addr(), body.as_bytes())).await {
                            hist.borrow_mut().emitted.push((now_step(), body, "ext"));
                        }
                    }
                }
                RemoteOp::ExtBad { body, .. } => {
                    if linked && send(&mut out, ResponseMessage::event(origin, addr(), body.as_bytes())).await {
                        hist.borrow_mut().marks.push((now_step(), format!("remote-bad-frame {body}")));
                    }
                }
                RemoteOp::Unlink { .. } => {
                    if linked {
                        let none: Option<&[u8]> = None;
                        send(&mut out, ResponseMessage::unlinked(origin, addr(), none)).await;
                        hist.borrow_mut().marks.push((now_step(), "remote-unlinked".into()));
                        linked = false;
                    }
                }
            }
        }
        // Read requests.
        let r = std::future::poll_fn(|cx| src.poll_chunk(cx, &mut buf)).await;
        match r {
            Err(e) => {
                hist.borrow_mut().remote_end.push((now_step(), format!("io-error {e}")));
                return;
            }
            Ok(None) => {
                hist.borrow_mut().remote_end.push((now_step(), format!("eof leftover={}", buf.len())));
                return;
            }
            Ok(Some(_)) => {}
        }
        let mut dec = RawRequestMessageDecoder;
        while let Ok(Some(req)) = dec.decode(&mut buf) {
            match req.envelope {
                Operation::Link => {
                    hist.borrow_mut().requests.push((now_step(), "link".into()));
                    if sc.early_event && !early_sent && !linked {
                        early_sent = true;
                        // Not recorded as emitted: no consumer is linked yet, nobody is owed this event.
                        let body = if sc.map { format!("@update(key:{}) {}", wire_key(101), 777_001) } else { "777001".to_string() };
                        if send(&mut out, ResponseMessage::event(origin, addr(), body.as_bytes())).await {
                            hist.borrow_mut().marks.push((now_step(), "remote-early-event".into()));
                        }
                    }
                    linked = true;
                    send(&mut out, ResponseMessage::linked(origin, addr())).await;
                }
                Operation::Sync => {
                    hist.borrow_mut().requests.push((now_step(), "sync".into()));
                    if !linked {
                        linked = true;
                        send(&mut out, ResponseMessage::linked(origin, addr())).await;
                    }
                    if sc.lane_has_state {
                        if sc.map {
                            for (k, v) in map.clone().iter() {
                                let body = format!("@update(key:{}) {v}", wire_key(*k));
                                if send(&mut out, ResponseMessage::event(origin, addr(), body.as_bytes())).await {
                                    hist.borrow_mut().emitted.push((now_step(), body, "sync"));
                                }
                            }
                        } else {
                            let body = value.to_string();
                            if send(&mut out, ResponseMessage::event(origin, addr(), body.as_bytes())).await {
                                hist.borrow_mut().emitted.push((now_step(), body, "sync"));
                            }
                        }
                    }
                    send(&mut out, ResponseMessage::synced(origin, addr())).await;
                }
                Operation::Unlink => {
                    hist.borrow_mut().requests.push((now_step(), "unlink".into()));
                }
                Operation::Command(body) => {
                    let text = String::from_utf8_lossy(&body).to_string();
                    hist.borrow_mut().received.push((now_step(), text.clone()));
                    // Apply to the lane and broadcast the change to the (single) linked downlink.
                    let mut emit: Option<String> = None;
                    if sc.map {
                        match parse_recognize::<MapMessage<i32, i32>>(text.as_str(), false) {
                            Ok(MapMessage::Update { key, value }) => {
                                map.insert(key, value);
                                emit = Some(format!("@update(key:{key}) {value}"));
                            }
                            Ok(MapMessage::Remove { key }) => {
                                if map.remove(&key).is_some() {
                                    emit = Some(format!("@remove(key:{key})"));
                                }
                            }
                            Ok(MapMessage::Clear) => {
                                map.clear();
                                emit = Some("@clear".into());
                            }
                            _ => {}
                        }
                        hist.borrow_mut().lane_maps.push((now_step(), map.clone()));
                    } else if let Ok(v) = text.trim().parse::<i32>() {
                        value = v;
                        hist.borrow_mut().lane_values.push((now_step(), v));
                        emit = Some(v.to_string());
                    }
                    if let (Some(body), true) = (emit, linked) {
                        if send(&mut out, ResponseMessage::event(origin, addr(), body.as_bytes())).await {
                            hist.borrow_mut().emitted.push((now_step(), body, "cmd"));
                        }
                    }
                }
            }
        }
        Yield(false).await;
    }
}

struct Record {
    sc: DlScenario,
    hist: Hist,
    runtime_done_step: Option<u64>,
    runtime_done_ms: Option<u64>,
    quiescent: Option<u64>,
    probe_ok: Option<bool>,
    stop_step: Option<u64>,
    steps: u64,
    decisions: u64,
    sim_ms: u64,
    step_limit: bool,
    panics: Vec<crate::core::exec::NodePanic>,
    time_advances: u64,
}

async fn run(sc: &DlScenario) -> Record {
    let t0 = tokio::time::Instant::now();
    let policy = match sc.policy {
        0 => Policy::Lowest,
        1 => Policy::RoundRobin,
        2 => Policy::Pct { change_points: 2 },
        _ => Policy::Random,
    };
    let mut exec = Exec::new(Scheduler::new(Rng::new(sc.sched_seed), policy, 1000), EventLog::new(false));
    let hist: SharedHist = Rc::new(RefCell::new(Hist::default()));
    let flags = Rc::new(RefCell::new(Flags { raw_events: sc.no_interpretation, ..Default::default() }));
    let spawn: SpawnQueue = Rc::new(RefCell::new(vec![]));

    let (att_tx, att_rx) = mpsc::channel::<AttachAction>(sc.att_queue.max(1) as usize);
    let (rt_out_tx, rt_out_rx) = byte_channel(NonZeroUsize::new(sc.remote_out_cap.max(1) as usize).unwrap());
    let (rt_in_tx, rt_in_rx) = byte_channel(NonZeroUsize::new(sc.remote_in_cap.max(1) as usize).unwrap());
    let (stop_tx, stop_rx) = trigger::trigger();
    let config = DownlinkRuntimeConfig {
        empty_timeout: Duration::from_millis(sc.empty_timeout_ms),
        attachment_queue_size: NonZeroUsize::new(sc.att_queue.max(1) as usize).unwrap(),
        abort_on_bad_frames: !sc.ignore_bad_frames,
        remote_buffer_size: NonZeroUsize::new(4096).unwrap(),
        downlink_buffer_size: NonZeroUsize::new(4096).unwrap(),
    };
    let address = IdentifiedAddress { identity: Uuid::from_u128(5), address: RelativeAddress::new(Text::new("/remote"), Text::new("lane")) };
    let done: Rc<RefCell<Option<(u64, u64)>>> = Rc::new(RefCell::new(None));
    let done2 = done.clone();
    let rt_node = if sc.map {
        if sc.no_interpretation {
            let rt = MapDownlinkRuntime::with_interpretation(att_rx, (rt_out_tx, rt_in_rx), stop_rx, address, config, AlwaysAbortStrategy, swimos_runtime::downlink::NoInterpretation);
            exec.spawn("runtime", sc.budget as usize, async move {
                rt.run().await;
                *done2.borrow_mut() = Some((now_step(), (tokio::time::Instant::now() - t0).as_millis() as u64));
            })
        } else if sc.ignore_bad_frames {
            let rt = MapDownlinkRuntime::new(att_rx, (rt_out_tx, rt_in_rx), stop_rx, address, config, AlwaysIgnoreStrategy);
            exec.spawn("runtime", sc.budget as usize, async move {
                rt.run().await;
                *done2.borrow_mut() = Some((now_step(), (tokio::time::Instant::now() - t0).as_millis() as u64));
            })
        } else {
            let rt = MapDownlinkRuntime::new(att_rx, (rt_out_tx, rt_in_rx), stop_rx, address, config, AlwaysAbortStrategy);
            exec.spawn("runtime", sc.budget as usize, async move {
                rt.run().await;
                *done2.borrow_mut() = Some((now_step(), (tokio::time::Instant::now() - t0).as_millis() as u64));
            })
        }
    } else {
        let rt = ValueDownlinkRuntime::new(att_rx, (rt_out_tx, rt_in_rx), stop_rx, address, config);
        exec.spawn("runtime", sc.budget as usize, async move {
            rt.run().await;
            *done2.borrow_mut() = Some((now_step(), (tokio::time::Instant::now() - t0).as_millis() as u64));
        })
    };
    exec.spawn("remote", 64, remote_lane(sc.clone(), rt_out_rx, rt_in_tx, hist.clone(), flags.clone()));
    for c in sc.consumers.iter() {
        exec.spawn(&format!("c{}.w", c.id), 64, consumer_writer(c.clone(), sc.map, att_tx.clone(), hist.clone(), flags.clone(), spawn.clone()));
    }
    let mut att_tx = Some(att_tx);

    let mut rec = Record {
        sc: sc.clone(),
        hist: Hist::default(),
        runtime_done_step: None,
        runtime_done_ms: None,
        quiescent: None,
        probe_ok: None,
        stop_step: None,
        steps: 0,
        decisions: 0,
        sim_ms: 0,
        step_limit: false,
        panics: vec![],
        time_advances: 0,
    };
    let mut stop_tx = Some(stop_tx);
    // Phases: 0 main, 1 draining, 2 probing, 3 stopping, 4 done.
    let mut phase = 0;
    'run: loop {
        loop {
            if exec.steps >= sc.max_steps {
                rec.step_limit = true;
                break 'run;
            }
            if !exec.step() {
                break;
            }
            for (name, fut) in spawn.borrow_mut().drain(..) {
                exec.spawn(&name, 64, fut);
            }
            tokio::task::yield_now().await;
        }
        for (name, fut) in spawn.borrow_mut().drain(..) {
            exec.spawn(&name, 64, fut);
        }
        if exec.has_ready() {
            continue;
        }
        match phase {
            0 => {
                flags.borrow_mut().drain = true;
                hist.borrow_mut().marks.push((exec.steps, "drain".into()));
                // Only harness nodes are woken: a spurious poll of the runtime would hide a wake-up it lost.
                exec.wake_all_except(&[rt_node]);
                phase = 1;
            }
            1 => {
                rec.quiescent = Some(exec.steps);
                hist.borrow_mut().marks.push((exec.steps, "quiescent".into()));
                if exec.is_done(rt_node) {
                    phase = 4;
                    continue;
                }
                let any_attached = sc.consumers.iter().any(|c| !c.ops.contains(&COp::Drop));
                if sc.idle_probe && any_attached && sc.ending == DlEnding::Stop {
                    // Consumers are attached and idle: time passing must not stop the runtime.
                    let before = exec.is_done(rt_node);
                    let _ = exec.wait_for_wake(Duration::from_millis(3 * sc.empty_timeout_ms + 10)).await;
                    rec.time_advances += 1;
                    phase = 2;
                    let _ = before;
                } else {
                    phase = 2;
                }
            }
            2 => {
                if sc.idle_probe && sc.ending == DlEnding::Stop {
                    rec.probe_ok = Some(!exec.is_done(rt_node));
                }
                match sc.ending {
                    DlEnding::Stop => {
                        rec.stop_step = Some(exec.steps);
                        hist.borrow_mut().marks.push((exec.steps, "stop-trigger".into()));
                        if let Some(tx) = stop_tx.take() {
                            tx.trigger();
                        }
                    }
                    DlEnding::EmptyTimeout => {
                        hist.borrow_mut().marks.push((exec.steps, "await-empty-timeout".into()));
                    }
                }
                att_tx = None;
                phase = 3;
            }
            3 => {
                if exec.is_done(rt_node) {
                    phase = 4;
                } else {
                    rec.time_advances += 1;
                    if rec.time_advances > 20 || !exec.wait_for_wake(Duration::from_millis(2 * sc.empty_timeout_ms + 1000)).await {
                        phase = 4;
                    }
                }
            }
            _ => break 'run,
        }
        if phase == 4 {
            break 'run;
        }
    }
    let _ = att_tx;
    rec.runtime_done_step = done.borrow().map(|d| d.0);
    rec.runtime_done_ms = done.borrow().map(|d| d.1);
    rec.steps = exec.steps;
    rec.decisions = exec.decisions;
    rec.sim_ms = (tokio::time::Instant::now() - t0).as_millis() as u64;
    rec.panics = exec.panics.clone();
    drop(exec);
    rec.hist = std::mem::take(&mut *hist.borrow_mut());
    rec
}

// ------------------------------------------------------------------------------------------------

fn build_log(rec: &Record, keep: bool) -> EventLog {
    let mut items: Vec<(u64, u8, usize, String, String)> = vec![];
    let h = &rec.hist;
    for (i, (s, c, n)) in h.notes.iter().enumerate() {
        items.push((*s, 1, i, "note".into(), format!("c{c} {:?}", n)));
    }
    for (i, (s0, s1, c, op, ok)) in h.writes.iter().enumerate() {
        items.push((*s1, 2, i, "write".into(), format!("c{c} start={s0} ok={ok} {:?}", op)));
    }
    for (i, (s, c)) in h.attached.iter().enumerate() {
        items.push((*s, 3, i, "attach".into(), format!("c{c}")));
    }
    for (i, (s, c, w)) in h.consumer_end.iter().enumerate() {
        items.push((*s, 4, i, "c-end".into(), format!("c{c} {w}")));
    }
    for (i, (s, b)) in h.received.iter().enumerate() {
        items.push((*s, 5, i, "lane-recv".into(), b.clone()));
    }
    for (i, (s, b, why)) in h.emitted.iter().enumerate() {
        items.push((*s, 6, i, "lane-emit".into(), format!("{b} ({why})")));
    }
    for (i, (s, r)) in h.requests.iter().enumerate() {
        items.push((*s, 7, i, "lane-req".into(), r.clone()));
    }
    for (i, (s, r)) in h.remote_end.iter().enumerate() {
        items.push((*s, 8, i, "lane-end".into(), r.clone()));
    }
    for (i, (s, m)) in h.marks.iter().enumerate() {
        items.push((*s, 9, i, "mark".into(), m.clone()));
    }
    if let Some(s) = rec.runtime_done_step {
        items.push((s, 10, 0, "rt-done".into(), format!("t={}ms", rec.runtime_done_ms.unwrap_or(0))));
    }
    for (i, p) in rec.panics.iter().enumerate() {
        items.push((p.step, 11, i, "panic".into(), format!("{} {}", p.node, p.message)));
    }
    items.sort_by(|a, b| (a.0, a.1, a.2).cmp(&(b.0, b.1, b.2)));
    let mut log = EventLog::new(keep);
    for (s, _, _, k, d) in items {
        log.rec(s, &k, &d);
    }
    log
}

fn parse_emitted_map(body: &str) -> Option<MapEv> {
    match parse_recognize::<MapMessage<i32, i32>>(body, false).ok()? {
        MapMessage::Update { key, value } => Some(MapEv::Update(key, value)),
        MapMessage::Remove { key } => Some(MapEv::Remove(key)),
        MapMessage::Clear => Some(MapEv::Clear),
        _ => None,
    }
}

fn check(rec: &Record) -> Vec<Violation> {
    let mut out = vec![];
    let sc = &rec.sc;
    let h = &rec.hist;
    for p in &rec.panics {
        out.push(Violation::new("C07", "C07.panic", &p.node, format!("{} panicked: {}", p.node, p.message)));
    }
    let remote_unlinked = h.marks.iter().find(|(_, m)| m == "remote-unlinked").map(|(s, _)| *s);
    let q = rec.quiescent;

    // Events as the lane emitted them, in order.
    let emitted: Vec<(u64, String)> = h.emitted.iter().map(|(s, b, _)| (*s, b.clone())).collect();

    for c in sc.consumers.iter() {
        let notes: Vec<&(u64, u32, Note)> = h.notes.iter().filter(|(_, id, _)| *id == c.id).collect();
        let dropped = c.ops.contains(&COp::Drop);
        let attached = h.attached.iter().find(|(_, id)| *id == c.id).map(|(s, _)| *s);
        // ---- grammar
        let mut linked = false;
        let mut synced = 0usize;
        let mut unlinked = false;
        for (s, _, n) in notes.iter().map(|x| (x.0, x.1, &x.2)) {
            if unlinked && !c.keep_linked {
                out.push(Violation::new("C07", "C07.grammar", "after_unlinked", format!("consumer {}: {:?} at step {s} after unlinked", c.id, n)));
            }
            match n {
                Note::Linked => {
                    linked = true;
                }
                Note::Synced => {
                    if !linked {
                        out.push(Violation::new("C07", "C07.grammar", "synced_before_linked", format!("consumer {}: synced at {s} before linked", c.id)));
                    }
                    synced += 1;
                }
                Note::Unlinked => {
                    unlinked = true;
                }
                Note::Value(_) | Note::Map(_) => {
                    if !linked {
                        out.push(Violation::new("C07", "C07.grammar", "event_before_linked", format!("consumer {}: event {:?} at {s} before linked", c.id, n)));
                    }
                }
                Note::Undecodable(e) => {
                    out.push(Violation::new("C07", "C07.undecodable", "", format!("consumer {}: undecodable notification at {s}: {e}", c.id)));
                }
            }
        }
        let healthy = !dropped && attached.is_some() && !rec.step_limit && q.is_some();
        // ---- completeness at quiescence (only when the link stayed up until then).
        if healthy && remote_unlinked.is_none() {
            let qs = q.unwrap();
            let upto: Vec<&Note> = notes.iter().filter(|x| x.0 <= qs).map(|x| &x.2).collect();
            if !upto.iter().any(|n| matches!(n, Note::Linked)) {
                out.push(Violation::new("C07", "C07.session", "no_linked", format!("consumer {} (sync={}) never received linked although the link is up", c.id, c.sync)));
            }
            if c.sync && !upto.iter().any(|n| matches!(n, Note::Synced)) {
                let late = attached.map(|a| h.attached.iter().any(|(s, id)| *id != c.id && *s < a)).unwrap_or(false);
                // Was a sync request seen by the lane at all after this consumer attached? (The recorded
                // registration race needs one; a consumer whose sync is never requested is a different defect.)
                let sync_sent = attached.map(|a| h.requests.iter().any(|(s, r)| *s > a && r == "sync")).unwrap_or(false);
                let kind = match (late, sync_sent) {
                    (true, true) => "no_synced:late_joiner",
                    (true, false) => "no_synced:sync_never_requested:late_joiner",
                    (false, true) => "no_synced:first_consumer",
                    (false, false) => "no_synced:sync_never_requested:first_consumer",
                };
                out.push(Violation::new("C07", "C07.session", kind, format!("consumer {} asked to be synced but never received synced", c.id)));
            }
            // Every later event, in order: the events the lane emitted after the consumer had
            // read `linked` (non-SYNC) / `synced` (SYNC) must all have been delivered, in order.
            let anchor_step = notes.iter().find(|x| if c.sync { matches!(x.2, Note::Synced) } else { matches!(x.2, Note::Linked) }).map(|x| x.0);
            if let Some(a) = anchor_step {
                let expected: Vec<&String> = emitted.iter().filter(|(s, _)| *s > a && *s <= qs).map(|(_, b)| b).collect();
                let got: Vec<String> = notes
                    .iter()
                    .filter(|x| x.0 <= qs)
                    .filter_map(|x| match &x.2 {
                        Note::Value(v) => Some(v.to_string()),
                        Note::Map(MapEv::Update(k, v)) => Some(format!("@update(key:{}) {v}", wire_key(*k))),
                        Note::Map(MapEv::Remove(k)) => Some(format!("@remove(key:{})", wire_key(*k))),
                        Note::Map(MapEv::Clear) => Some("@clear".to_string()),
                        _ => None,
                    })
                    .collect();
                // `expected` must be a (not necessarily contiguous) sub-sequence of the tail of `got`.
                let mut gi = 0usize;
                let mut missing = None;
                for e in expected.iter() {
                    match got[gi..].iter().position(|g| g == *e) {
                        Some(p) => gi += p + 1,
                        None => {
                            missing = Some((*e).clone());
                            break;
                        }
                    }
                }
                if let Some(m) = missing {
                    out.push(Violation::new("C07", "C07.event_missing", if c.sync { "sync_consumer" } else { "nosync_consumer" }, format!(
                        "consumer {} (sync={}): event {m} emitted by the lane after the consumer was {} (step {a}) was not delivered in order; got {:?}",
                        c.id, c.sync, if c.sync { "synced" } else { "linked" }, got)));
                }
            }
        }
        // ---- order: events received are an in-order sub-sequence of the events emitted (value: unique values).
        if !sc.map {
            let idx: BTreeMap<String, Vec<usize>> = {
                let mut m: BTreeMap<String, Vec<usize>> = BTreeMap::new();
                for (i, (_, b)) in emitted.iter().enumerate() {
                    m.entry(b.clone()).or_default().push(i);
                }
                m
            };
            let mut last: Option<usize> = None;
            for x in notes.iter() {
                if let Note::Value(v) = &x.2 {
                    match idx.get(&v.to_string()) {
                        // The event the remote delivered before `linked` (a value the lane did hold; nobody is owed it, a
                        // synced consumer may be given it as the current value).
                        None if sc.early_event && *v == 777_001 => {}
                        None => out.push(Violation::new("C07", "C07.invented", "", format!("consumer {}: received value {v} that the lane never emitted", c.id))),
                        Some(positions) => {
                            // The latest emission not after what was already seen ... any occurrence >= last is fine.
                            let ok = positions.iter().any(|p| last.map(|l| *p >= l).unwrap_or(true));
                            if !ok {
                                out.push(Violation::new("C07", "C07.order", "", format!("consumer {}: value {v} delivered after a later one", c.id)));
                            }
                            let p = positions.iter().copied().filter(|p| last.map(|l| *p >= l).unwrap_or(true)).min().unwrap_or(positions[0]);
                            last = Some(last.map(|l| l.max(p)).unwrap_or(p));
                        }
                    }
                }
            }
            // A lane without state answers SYNC with a bare `synced`: a consumer that asks to be synced is owed no state.
            // An event that the runtime had already passed on to another consumer before this one attached is history, not
            // state: giving it to the newcomer before its `synced` presents an old event as the lane's state.
            if c.sync && !sc.lane_has_state && !sc.early_event {
                if let (Some(att), Some(sy)) = (attached, notes.iter().find(|x| matches!(x.2, Note::Synced)).map(|x| x.0)) {
                    for x in notes.iter().filter(|x| x.0 <= sy) {
                        if let Note::Value(v) = &x.2 {
                            let seen_before = h.notes.iter().any(|(s, id, n)| *id != c.id && *s < att && matches!(n, Note::Value(w) if w == v));
                            if seen_before {
                                out.push(Violation::new("C07", "C07.synced_state", "stale_event:stateless_lane", format!(
                                    "consumer {} (attached at step {att}): before its synced (step {sy}) it was given the value {v}, an event of a lane without state that the runtime had already delivered to another consumer before this one attached", c.id)));
                                break;
                            }
                        }
                    }
                }
            }
            // Synced state: the value held by the consumer at synced is one the lane held between attach and then.
            if c.sync && sc.lane_has_state {
                if let (Some(att), Some(sy)) = (attached, notes.iter().find(|x| matches!(x.2, Note::Synced)).map(|x| x.0)) {
                    let at_sync: Option<i32> = notes.iter().filter(|x| x.0 <= sy).filter_map(|x| if let Note::Value(v) = &x.2 { Some(*v) } else { None }).last();
                    let mut held: BTreeSet<i32> = BTreeSet::new();
                    let mut cur = None;
                    // The runtime legitimately lags the lane (a synced that answers an earlier
                    // consumer's request also completes a late joiner), so any state the lane held up
                    // to that instant is consistent; what follows is checked by C07.event_missing.
                    let _ = att;
                    for (s, v) in h.lane_values.iter() {
                        if *s <= sy {
                            held.insert(*v);
                        }
                    }
                    if let Some(v) = cur {
                        held.insert(v);
                    }
                    match at_sync {
                        None => out.push(Violation::new("C07", "C07.synced_state", "missing", format!("consumer {}: synced at {sy} without a value", c.id))),
                        Some(v) if !held.contains(&v) => out.push(Violation::new("C07", "C07.synced_state", "stale", format!("consumer {}: holds {v} at synced but the lane held {:?} since it attached", c.id, held))),
                        _ => {}
                    }
                }
            }
        } else if healthy && remote_unlinked.is_none() && c.sync && sc.lane_has_state && notes.iter().any(|x| matches!(x.2, Note::Synced)) {
            // Map, at synced: the replica (fold of everything received up to the first synced) is a state the lane held
            // at some moment up to then (the runtime may lag the lane, it may not hand over a state that never existed).
            if let Some(sy) = notes.iter().find(|x| matches!(x.2, Note::Synced)).map(|x| x.0) {
                let mut at_sync: BTreeMap<i32, i32> = BTreeMap::new();
                for x in notes.iter().filter(|x| x.0 <= sy) {
                    match &x.2 {
                        Note::Map(MapEv::Update(k, v)) => {
                            at_sync.insert(*k, *v);
                        }
                        Note::Map(MapEv::Remove(k)) => {
                            at_sync.remove(k);
                        }
                        Note::Map(MapEv::Clear) => at_sync.clear(),
                        _ => {}
                    }
                }
                let bad_frames = sc.ignore_bad_frames || sc.early_event;
                if !bad_frames && !h.lane_maps.iter().any(|(s, m)| *s <= sy && *m == at_sync) {
                    let first = attached.map(|a| h.attached.iter().all(|(s, _)| *s >= a)).unwrap_or(false);
                    out.push(Violation::new("C07", "C07.synced_state", if first { "map_never_held:first_consumer" } else { "map_never_held:late_joiner" }, format!("consumer {}: at synced (step {sy}) it holds {:?}, which the lane never held up to then (lane states: {:?})", c.id, at_sync, h.lane_maps.iter().filter(|(s, _)| *s <= sy).map(|(_, m)| m.clone()).collect::<Vec<_>>())));
                }
            }
            // Map: the replica (fold of everything received) equals the lane map at quiescence.
            let qs = q.unwrap();
            let mut rep: BTreeMap<i32, i32> = BTreeMap::new();
            for x in notes.iter().filter(|x| x.0 <= qs) {
                match &x.2 {
                    Note::Map(MapEv::Update(k, v)) => {
                        rep.insert(*k, *v);
                    }
                    Note::Map(MapEv::Remove(k)) => {
                        rep.remove(k);
                    }
                    Note::Map(MapEv::Clear) => rep.clear(),
                    _ => {}
                }
            }
            let mut lane: BTreeMap<i32, i32> = BTreeMap::new();
            // The lane map is the fold of everything it emitted for commands / external changes (sync events repeat state).
            for (s, b, why) in h.emitted.iter() {
                if *s > qs || *why == "sync" {
                    continue;
                }
                match parse_emitted_map(b) {
                    Some(MapEv::Update(k, v)) => {
                        lane.insert(k, v);
                    }
                    Some(MapEv::Remove(k)) => {
                        lane.remove(&k);
                    }
                    Some(MapEv::Clear) => lane.clear(),
                    _ => {}
                }
            }
            // Changes made before the link was up were not emitted; they are visible through sync events only.
            let pre_link_changes = sc.remote.iter().any(|r| matches!(r, RemoteOp::ExtUpdate { .. } | RemoteOp::ExtRemove { .. }));
            if rep != lane && !pre_link_changes {
                let late = attached.map(|a| h.attached.iter().any(|(s, id)| *id != c.id && *s < a)).unwrap_or(false);
                out.push(Violation::new("C07", "C07.replica", if late { "late_joiner" } else { "first_consumer" }, format!("consumer {}: replica {:?} differs from the lane {:?} at quiescence", c.id, rep, lane)));
            }
        }
        // ---- unlinked at close.
        if !dropped && attached.is_some() && !rec.step_limit {
            let closed = remote_unlinked.is_some() || rec.runtime_done_step.is_some();
            if closed && !notes.iter().any(|x| matches!(x.2, Note::Unlinked)) && notes.iter().any(|x| matches!(x.2, Note::Linked)) {
                let ended_by_error = h.consumer_end.iter().any(|(_, id, w)| *id == c.id && w.starts_with("io-error"));
                if !ended_by_error {
                    out.push(Violation::new("C07", "C07.unlinked_on_close", "", format!("consumer {}: the link closed but the consumer never received unlinked", c.id)));
                }
            }
        }
    }

    // ---- socket side: commands.
    let received: Vec<&String> = h.received.iter().map(|(_, b)| b).collect();
    for c in sc.consumers.iter() {
        let written: Vec<String> = h
            .writes
            .iter()
            .filter(|w| w.2 == c.id && w.4)
            .filter_map(|w| match &w.3 {
                COp::Set(v) => Some(v.to_string()),
                COp::Update(k, v) => Some(format!("@update(key:{k}) {v}")),
                COp::Remove(k) => Some(format!("@remove(key:{k})")),
                COp::Clear => Some("@clear".into()),
                _ => None,
            })
            .collect();
        // What the lane received from this consumer (values are unique; removes/clears are attributed by key ownership).
        let mine: Vec<&String> = received.iter().copied().filter(|b| written.contains(b)).collect();
        // In-order sub-sequence (updates/sets only, they are unique).
        let uniq: Vec<&String> = mine.iter().copied().filter(|b| !b.starts_with("@remove") && !b.starts_with("@clear")).collect();
        // Order matters for a value lane at all, for a map lane per key (and across a clear).
        let key_of = |b: &String| -> String {
            if sc.map {
                match parse_emitted_map(b) {
                    Some(MapEv::Update(k, _)) | Some(MapEv::Remove(k)) => k.to_string(),
                    _ => String::new(),
                }
            } else {
                String::new()
            }
        };
        let keys: BTreeSet<String> = uniq.iter().map(|b| key_of(b)).collect();
        'keys: for key in keys.iter() {
            let mut pos = 0usize;
            for b in uniq.iter().filter(|b| &key_of(b) == key) {
                match written[pos..].iter().position(|w| &w == b) {
                    Some(p) => pos += p + 1,
                    None => {
                        out.push(Violation::new("C07", "C07.command_order", "", format!("consumer {}: the lane received {b} out of the order in which it was written ({:?})", c.id, written)));
                        break 'keys;
                    }
                }
            }
        }
        // Across a clear: an update written before a clear must not be received after it.
        if sc.map {
            let clear_pos_written: Vec<usize> = written.iter().enumerate().filter(|(_, w)| w.as_str() == "@clear").map(|(i, _)| i).collect();
            if let Some(first_clear_w) = clear_pos_written.first() {
                if let Some(first_clear_r) = received.iter().position(|b| b.as_str() == "@clear") {
                    for b in received[first_clear_r + 1..].iter() {
                        if let Some(wp) = written.iter().position(|w| &w == b) {
                            if wp < *first_clear_w && !b.starts_with("@remove") && b.as_str() != "@clear" {
                                out.push(Violation::new("C07", "C07.command_order", "across_clear", format!("consumer {}: {b} was written before a clear but received after it", c.id)));
                                break;
                            }
                        }
                    }
                }
            }
        }
        let mut seen = BTreeSet::new();
        for b in uniq.iter() {
            if !seen.insert((*b).clone()) {
                out.push(Violation::new("C07", "C07.command_duplicate", "", format!("consumer {}: the lane received {b} twice", c.id)));
            }
        }
    }
    for b in received.iter() {
        let known = sc.consumers.iter().any(|c| {
            c.ops.iter().any(|o| match o {
                COp::Set(v) => &&v.to_string() == b,
                COp::Update(k, v) => &&format!("@update(key:{k}) {v}") == b,
                COp::Remove(k) => &&format!("@remove(key:{k})") == b,
                COp::Clear => b.as_str() == "@clear",
                _ => false,
            })
        });
        if !known {
            out.push(Violation::new("C07", "C07.command_invented", "", format!("the lane received command {b} that no consumer wrote")));
        }
    }
    // Final state "as if all were sent".
    if let (Some(_), false, None) = (q, rec.step_limit, remote_unlinked) {
        let all_ok = h.writes.iter().all(|w| w.4) && sc.consumers.iter().all(|c| !c.ops.contains(&COp::Drop)) && sc.consumers.iter().all(|c| h.attached.iter().any(|(_, id)| *id == c.id));
        if all_ok {
            if sc.map {
                // One writer per key: the last operation written for a key decides it.
                let mut expect: BTreeMap<i32, Option<i32>> = BTreeMap::new();
                let single_clear_writer = sc.consumers.iter().filter(|c| c.ops.iter().any(|o| !matches!(o, COp::Pause(_) | COp::Drop | COp::DropWriter))).count() <= 1;
                for c in sc.consumers.iter() {
                    for o in c.ops.iter() {
                        match o {
                            COp::Update(k, v) => {
                                expect.insert(*k, Some(*v));
                            }
                            COp::Remove(k) => {
                                expect.insert(*k, None);
                            }
                            COp::Clear if single_clear_writer => {
                                for (_, v) in expect.iter_mut() {
                                    *v = None;
                                }
                            }
                            _ => {}
                        }
                    }
                }
                let mut lane: BTreeMap<i32, i32> = BTreeMap::new();
                for b in received.iter() {
                    match parse_emitted_map(b) {
                        Some(MapEv::Update(k, v)) => {
                            lane.insert(k, v);
                        }
                        Some(MapEv::Remove(k)) => {
                            lane.remove(&k);
                        }
                        Some(MapEv::Clear) => lane.clear(),
                        _ => {}
                    }
                }
                for (k, v) in expect.iter() {
                    if lane.get(k).copied() != *v {
                        out.push(Violation::new("C07", "C07.final_state", "map", format!("key {k}: the lane ends with {:?} but applying everything written gives {:?} (received {:?})", lane.get(k), v, received)));
                        break;
                    }
                }
            } else {
                let lasts: Vec<String> = sc.consumers.iter().filter_map(|c| c.ops.iter().rev().find_map(|o| if let COp::Set(v) = o { Some(v.to_string()) } else { None })).collect();
                if !lasts.is_empty() {
                    match received.last() {
                        Some(l) if lasts.contains(l) => {}
                        other => out.push(Violation::new("C07", "C07.final_state", "value", format!("the lane ends with {:?} but the last value written by each consumer is {:?}", other, lasts))),
                    }
                }
            }
        }
    }
    // ---- time-outs (C17 system level, reported under C07's world for C17).
    if let Some(false) = rec.probe_ok {
        out.push(Violation::new("C17", "C17.stopped_with_consumers", "", "the downlink runtime stopped for inactivity although consumers were attached".into()));
    }
    if !rec.step_limit && rec.runtime_done_step.is_none() && rec.panics.is_empty() {
        let kind = match sc.ending {
            DlEnding::Stop => "after_stop",
            DlEnding::EmptyTimeout => "after_empty_timeout",
        };
        // With the empty-timeout ending the runtime can only stop if no consumer is left.
        let all_dropped = sc.consumers.iter().all(|c| c.ops.contains(&COp::Drop));
        if sc.ending == DlEnding::Stop || all_dropped {
            out.push(Violation::new("C07", "C07.live", kind, "the downlink runtime never stopped".into()));
        }
    }
    let mut seen = BTreeSet::new();
    out.retain(|v| seen.insert((v.property.clone(), v.sig.clone())));
    out
}

pub struct DlrtWorld {
    pub map: bool,
}

impl World for DlrtWorld {
    fn name(&self) -> &'static str {
        if self.map {
            "dlrt-map"
        } else {
            "dlrt-value"
        }
    }

    fn generate(&self, seed: u64, _tier: Tier) -> Json {
        serde_json::to_value(generate(seed, self.map)).unwrap()
    }

    fn execute(&self, scenario: &Json, keep_log: bool) -> Outcome {
        let sc: DlScenario = match serde_json::from_value(scenario.clone()) {
            Ok(s) => s,
            Err(e) => return Outcome { harness_error: Some(format!("bad scenario: {e}")), ..Default::default() },
        };
        let rec = block_on_sim(sc.tokio_seed, run(&sc));
        let log = build_log(&rec, keep_log);
        let mut out = Outcome {
            violations: check(&rec),
            log_hash: log.hash(),
            log_lines: log.lines().to_vec(),
            steps: rec.steps,
            decisions: rec.decisions,
            sim_time_ms: rec.sim_ms,
            ..Default::default()
        };
        let h = &rec.hist;
        out.count("notifications_read", h.notes.len() as u64);
        out.count("commands_written", h.writes.len() as u64);
        out.count("commands_received_by_lane", h.received.len() as u64);
        out.count("events_emitted_by_lane", h.emitted.len() as u64);
        let written = h.writes.iter().filter(|w| !matches!(w.3, COp::Drop)).count() as u64;
        out.count("probe.commands_superseded", written.saturating_sub(h.received.len() as u64));
        out.count("fault.consumer_drop", h.writes.iter().filter(|w| matches!(w.3, COp::Drop)).count() as u64);
        out.count("fault.remote_unlinked", h.marks.iter().filter(|(_, m)| m == "remote-unlinked").count() as u64);
        out.count("fault.remote_event_before_linked", h.marks.iter().filter(|(_, m)| m == "remote-early-event").count() as u64);
        out.count("fault.remote_bad_frame", h.marks.iter().filter(|(_, m)| m.starts_with("remote-bad-frame")).count() as u64);
        out.count("fault.clock_advance", rec.time_advances);
        out.count("probe.late_joiner", rec.sc.consumers.iter().filter(|c| c.attach_delay >= 30).count() as u64);
        out.count("probe.nosync_consumer", rec.sc.consumers.iter().filter(|c| !c.sync).count() as u64);
        out.count("end.empty_timeout", (rec.sc.ending == DlEnding::EmptyTimeout) as u64);
        out.count("idle_probe", rec.probe_ok.is_some() as u64);
        out.count("step_limit_hit", rec.step_limit as u64);
        out.count("quiescent_runs", rec.quiescent.is_some() as u64);
        out.nontrivial = written > h.received.len() as u64 || rec.sc.consumers.len() > 1 || rec.time_advances > 0 || rec.decisions > 50;
        out
    }

    fn shrink(&self, scenario: &Json) -> Vec<Json> {
        let Ok(sc) = serde_json::from_value::<DlScenario>(scenario.clone()) else { return vec![] };
        let mut out: Vec<DlScenario> = vec![];
        if sc.consumers.len() > 1 {
            for i in 0..sc.consumers.len() {
                let mut c = sc.clone();
                c.consumers.remove(i);
                out.push(c);
            }
        }
        for (ci, cons) in sc.consumers.iter().enumerate() {
            let n = cons.ops.len();
            let mut chunk = n / 2;
            while chunk >= 1 {
                let mut start = 0;
                while start < n {
                    let end = (start + chunk).min(n);
                    let mut c = sc.clone();
                    c.consumers[ci].ops.drain(start..end);
                    out.push(c);
                    start += chunk;
                }
                if chunk == 1 {
                    break;
                }
                chunk /= 2;
            }
            if cons.attach_delay != 0 {
                let mut c = sc.clone();
                c.consumers[ci].attach_delay = 0;
                out.push(c);
            }
            if cons.read.stall_pm != 0 || cons.read.max_chunk != 4096 {
                let mut c = sc.clone();
                c.consumers[ci].read = ReadCfg { max_chunk: 4096, stall_pm: 0, stall_max: 1 };
                out.push(c);
            }
            if cons.out_cap != 4096 || cons.in_cap != 4096 {
                let mut c = sc.clone();
                c.consumers[ci].out_cap = 4096;
                c.consumers[ci].in_cap = 4096;
                out.push(c);
            }
        }
        for i in 0..sc.remote.len() {
            let mut c = sc.clone();
            c.remote.remove(i);
            out.push(c);
        }
        if sc.policy != 0 {
            let mut c = sc.clone();
            c.policy = 0;
            out.push(c);
        }
        if sc.idle_probe {
            let mut c = sc.clone();
            c.idle_probe = false;
            out.push(c);
        }
        if sc.ending != DlEnding::Stop {
            let mut c = sc.clone();
            c.ending = DlEnding::Stop;
            out.push(c);
        }
        if sc.remote_read.stall_pm != 0 || sc.remote_read.max_chunk != 4096 {
            let mut c = sc.clone();
            c.remote_read = ReadCfg { max_chunk: 4096, stall_pm: 0, stall_max: 1 };
            out.push(c);
        }
        if sc.remote_in_cap != 4096 || sc.remote_out_cap != 4096 {
            let mut c = sc.clone();
            c.remote_in_cap = 4096;
            c.remote_out_cap = 4096;
            out.push(c);
        }
        if sc.budget != 64 {
            let mut c = sc.clone();
            c.budget = 64;
            out.push(c);
        }
        out.into_iter().map(|s| serde_json::to_value(s).unwrap()).collect()
    }

    fn rule(&self) -> String {
        "one run = one seeded scenario (1-4 consumers with attach delays, SYNC/KEEP_LINKED options, command streams, read speeds, drops; scripted remote lane with external changes / unlink; channel capacities 8..4096; schedule seed); \
         non-trivial = more than one consumer, or at least one command was superseded under backpressure, or simulated time was advanced, or more than 50 real scheduling decisions; distinct = distinct hash of the recorded history".into()
    }

    fn components(&self) -> Json {
        json!({
            "real": ["swimos_runtime::downlink::{ValueDownlinkRuntime, MapDownlinkRuntime} (attach, read and write tasks, backpressure, timeout_coord)", "swimos_byte_channel", "swimos_agent_protocol downlink/map codecs", "swimos_messages::protocol codecs"],
            "stub": ["remote lane (scripted, applies commands to a model and echoes events)", "downlink consumers (scripted)", "executor"]
        })
    }
}
