//! Handler programs: the tree `Prog`, its flat wire form (`ProgMsg`, a `Form` type that travels as
//! Recon to the `run` command lane), generation and shrinking helpers.
//!
//! `swimos_form` has no `Form` implementation for `Box<T>` and the derive cannot build the
//! recognizer of a directly recursive type, so the tree is sent in prefix notation: a `Vec<Ins>`
//! where `Seq{n}` is followed by its `n` sub-programs, `AndGet`/`Susp` by exactly one.

use serde::{Deserialize, Serialize};
use swimos_form::Form;

use crate::core::rng::Rng;

/// Items in their fixed order v0 < v1 < v2 < m0 < m1.
pub const N_ITEMS: usize = 5;
pub const N_VALUES: usize = 3;
pub const ITEM_NAMES: [&str; N_ITEMS] = ["v0", "v1", "v2", "m0", "m1"];

pub fn is_map(item: i32) -> bool {
    item >= N_VALUES as i32
}

#[derive(Debug, Clone, Serialize, Deserialize, PartialEq, Eq)]
pub enum Prog {
    /// Set value item `item` (0..=2). With `peek`: `set_value(..).and_then_contextual(|agent, _| ..)` whose
    /// continuation reads value item `peek` straight from the agent when it is applied and records what it saw: the
    /// resumed part of the handler, which must see what the handlers triggered by the set have done.
    Set {
        item: i32,
        value: i32,
        #[serde(default, skip_serializing_if = "Option::is_none")]
        peek: Option<i32>,
    },
    /// Update key `key` of map item `item` (3..=4).
    Update { item: i32, key: i32, value: i32 },
    Remove { item: i32, key: i32 },
    Clear { item: i32 },
    /// Read an item (value or whole map) and record what was seen (`get_*().map(..)`).
    Get { item: i32 },
    /// Record `Mark(tag)`.
    Effect { tag: i32 },
    /// `fold` = nested `followed_by`, otherwise `Sequentially`.
    Seq { fold: bool, items: Vec<Prog> },
    /// `get_*().and_then(|seen| record(seen); body)`.
    AndThenGet { item: i32, body: Box<Prog> },
    /// Suspend a future (tokio sleep of `delay_ms`) that produces `body`; `after` = through
    /// `run_after` (handler built eagerly, `Send`), otherwise through `suspend` (built when the
    /// future completes). The continuation is its own top-level trigger `Top{id}`.
    Suspend { id: i32, delay_ms: u32, after: bool, body: Box<Prog> },
    /// `context.fail(..)`.
    Fail,
    /// `first.and_then(|()| body)`: unlike `Seq`/`followed_by`, the first part is an arbitrary (multi-step)
    /// handler whose intermediate steps may carry modifications through the `AndThen` combinator.
    AndThen { first: Box<Prog>, body: Box<Prog> },
    /// `context.stop()`: ends the handler and everything it interrupted, `on_stop` runs, the agent ends.
    Stop,
    /// The inner handler behind a completion-transforming wrapper: 0 = `Some(h).discard()`, 1 = `h.map(|_| ())`,
    /// 2 = `None.discard()` (the inner handler is built but never runs).
    Wrap { kind: i32, inner: Box<Prog> },
    /// `context.transform_entry(map, key, |_| value)`: `Some(v)` inserts or replaces (on_update), `None` removes
    /// (on_remove if the key was present).
    Transform { item: i32, key: i32, value: Option<i32> },
}

#[derive(Form, Debug, Clone, PartialEq, Eq)]
pub enum Ins {
    #[form(tag = "set")]
    Set { item: i32, value: i32, peek: i32 },
    #[form(tag = "upd")]
    Upd { item: i32, key: i32, value: i32 },
    #[form(tag = "rem")]
    Rem { item: i32, key: i32 },
    #[form(tag = "clr")]
    Clr { item: i32 },
    #[form(tag = "get")]
    Get { item: i32 },
    #[form(tag = "eff")]
    Eff { t: i32 },
    #[form(tag = "seq")]
    Seq { n: i32, fold: bool },
    #[form(tag = "andget")]
    AndGet { item: i32 },
    #[form(tag = "susp")]
    Susp { id: i32, delay: i32, after: bool },
    #[form(tag = "fail")]
    Fail,
    /// Followed by its two sub-programs.
    #[form(tag = "andthen")]
    AndThen,
    #[form(tag = "stop")]
    Stop,
    /// Followed by its sub-program.
    #[form(tag = "wrap")]
    Wrap { kind: i32 },
    #[form(tag = "xf")]
    Xf { item: i32, key: i32, value: i32, remove: bool },
}

/// What a peer sends to the `run` lane.
#[derive(Form, Debug, Clone, PartialEq, Eq)]
#[form(tag = "prog")]
pub struct ProgMsg {
    pub id: i32,
    pub code: Vec<Ins>,
}

impl Prog {
    pub fn empty() -> Prog {
        Prog::Seq { fold: false, items: vec![] }
    }

    pub fn is_empty(&self) -> bool {
        matches!(self, Prog::Seq { items, .. } if items.is_empty())
    }

    pub fn nodes(&self) -> usize {
        match self {
            Prog::Seq { items, .. } => 1 + items.iter().map(|p| p.nodes()).sum::<usize>(),
            Prog::AndThenGet { body, .. } | Prog::Suspend { body, .. } => 1 + body.nodes(),
            Prog::Wrap { inner, .. } => 1 + inner.nodes(),
            Prog::AndThen { first, body } => 1 + first.nodes() + body.nodes(),
            _ => 1,
        }
    }

    pub fn depth(&self) -> usize {
        match self {
            Prog::Seq { items, .. } => 1 + items.iter().map(|p| p.depth()).max().unwrap_or(0),
            Prog::AndThenGet { body, .. } | Prog::Suspend { body, .. } => 1 + body.depth(),
            Prog::Wrap { inner, .. } => 1 + inner.depth(),
            Prog::AndThen { first, body } => 1 + first.depth().max(body.depth()),
            _ => 1,
        }
    }

    pub fn flatten(&self, out: &mut Vec<Ins>) {
        match self {
            Prog::Set { item, value, peek } => out.push(Ins::Set { item: *item, value: *value, peek: peek.unwrap_or(-1) }),
            Prog::Update { item, key, value } => out.push(Ins::Upd { item: *item, key: *key, value: *value }),
            Prog::Remove { item, key } => out.push(Ins::Rem { item: *item, key: *key }),
            Prog::Clear { item } => out.push(Ins::Clr { item: *item }),
            Prog::Get { item } => out.push(Ins::Get { item: *item }),
            Prog::Effect { tag } => out.push(Ins::Eff { t: *tag }),
            Prog::Seq { fold, items } => {
                out.push(Ins::Seq { n: items.len() as i32, fold: *fold });
                for p in items {
                    p.flatten(out);
                }
            }
            Prog::AndThenGet { item, body } => {
                out.push(Ins::AndGet { item: *item });
                body.flatten(out);
            }
            Prog::Suspend { id, delay_ms, after, body } => {
                out.push(Ins::Susp { id: *id, delay: *delay_ms as i32, after: *after });
                body.flatten(out);
            }
            Prog::Fail => out.push(Ins::Fail),
            Prog::AndThen { first, body } => {
                out.push(Ins::AndThen);
                first.flatten(out);
                body.flatten(out);
            }
            Prog::Stop => out.push(Ins::Stop),
            Prog::Wrap { kind, inner } => {
                out.push(Ins::Wrap { kind: *kind });
                inner.flatten(out);
            }
            Prog::Transform { item, key, value } => out.push(Ins::Xf { item: *item, key: *key, value: value.unwrap_or(0), remove: value.is_none() }),
        }
    }

    pub fn to_msg(&self, id: i32) -> ProgMsg {
        let mut code = vec![];
        self.flatten(&mut code);
        ProgMsg { id, code }
    }

    fn parse(code: &[Ins], pos: &mut usize) -> Option<Prog> {
        let ins = code.get(*pos)?.clone();
        *pos += 1;
        Some(match ins {
            Ins::Set { item, value, peek } => Prog::Set { item, value, peek: if peek >= 0 { Some(peek) } else { None } },
            Ins::Upd { item, key, value } => Prog::Update { item, key, value },
            Ins::Rem { item, key } => Prog::Remove { item, key },
            Ins::Clr { item } => Prog::Clear { item },
            Ins::Get { item } => Prog::Get { item },
            Ins::Eff { t } => Prog::Effect { tag: t },
            Ins::Seq { n, fold } => {
                let mut items = vec![];
                for _ in 0..n {
                    items.push(Prog::parse(code, pos)?);
                }
                Prog::Seq { fold, items }
            }
            Ins::AndGet { item } => Prog::AndThenGet { item, body: Box::new(Prog::parse(code, pos)?) },
            Ins::Susp { id, delay, after } => Prog::Suspend {
                id,
                delay_ms: delay.max(0) as u32,
                after,
                body: Box::new(Prog::parse(code, pos)?),
            },
            Ins::Fail => Prog::Fail,
            Ins::AndThen => {
                let first = Box::new(Prog::parse(code, pos)?);
                let body = Box::new(Prog::parse(code, pos)?);
                Prog::AndThen { first, body }
            }
            Ins::Stop => Prog::Stop,
            Ins::Wrap { kind } => Prog::Wrap { kind, inner: Box::new(Prog::parse(code, pos)?) },
            Ins::Xf { item, key, value, remove } => Prog::Transform { item, key, value: if remove { None } else { Some(value) } },
        })
    }

    /// Inverse of `to_msg`. `None` if the code is not exactly one well formed program.
    pub fn from_code(code: &[Ins]) -> Option<Prog> {
        let mut pos = 0;
        let p = Prog::parse(code, &mut pos)?;
        if pos == code.len() {
            Some(p)
        } else {
            None
        }
    }

    /// Every `Suspend` node in this program (including nested ones).
    pub fn suspends<'a>(&'a self, out: &mut Vec<(&'a Prog, i32)>) {
        match self {
            Prog::Seq { items, .. } => {
                for p in items {
                    p.suspends(out);
                }
            }
            Prog::AndThenGet { body, .. } => body.suspends(out),
            // A wrapped program that never runs (kind 2) suspends nothing, but it is harmless to know its bodies.
            Prog::Wrap { inner, .. } => inner.suspends(out),
            Prog::AndThen { first, body } => {
                first.suspends(out);
                body.suspends(out);
            }
            Prog::Suspend { id, body, .. } => {
                out.push((body.as_ref(), *id));
                body.suspends(out);
            }
            _ => {}
        }
    }

    /// Smaller variants of this program, simplest first (used by `shrink`).
    pub fn variants(&self) -> Vec<Prog> {
        let mut out = vec![];
        if !self.is_empty() {
            out.push(Prog::empty());
        }
        match self {
            Prog::Effect { .. } => {}
            Prog::Seq { fold, items } => {
                if items.len() == 1 {
                    out.push(items[0].clone());
                }
                for i in 0..items.len() {
                    let mut c = items.clone();
                    c.remove(i);
                    out.push(Prog::Seq { fold: *fold, items: c });
                }
                for i in 0..items.len() {
                    for v in items[i].variants() {
                        if v.is_empty() {
                            continue; // same as removing the item
                        }
                        let mut c = items.clone();
                        c[i] = v;
                        out.push(Prog::Seq { fold: *fold, items: c });
                    }
                }
                if *fold {
                    out.push(Prog::Seq { fold: false, items: items.clone() });
                }
            }
            Prog::AndThenGet { item, body } => {
                out.push(body.as_ref().clone());
                out.push(Prog::Get { item: *item });
                for v in body.variants() {
                    out.push(Prog::AndThenGet { item: *item, body: Box::new(v) });
                }
            }
            Prog::Suspend { id, delay_ms, after, body } => {
                out.push(body.as_ref().clone());
                out.push(Prog::Effect { tag: 0 });
                for v in body.variants() {
                    out.push(Prog::Suspend { id: *id, delay_ms: *delay_ms, after: *after, body: Box::new(v) });
                }
                if *delay_ms != 0 {
                    out.push(Prog::Suspend { id: *id, delay_ms: 0, after: *after, body: body.clone() });
                }
                if *after {
                    out.push(Prog::Suspend { id: *id, delay_ms: *delay_ms, after: false, body: body.clone() });
                }
            }
            Prog::Wrap { kind, inner } => {
                out.push(inner.as_ref().clone());
                for v in inner.variants() {
                    out.push(Prog::Wrap { kind: *kind, inner: Box::new(v) });
                }
            }
            Prog::AndThen { first, body } => {
                out.push(first.as_ref().clone());
                out.push(body.as_ref().clone());
                out.push(Prog::Seq { fold: false, items: vec![first.as_ref().clone(), body.as_ref().clone()] });
                for v in first.variants() {
                    out.push(Prog::AndThen { first: Box::new(v), body: body.clone() });
                }
                for v in body.variants() {
                    out.push(Prog::AndThen { first: first.clone(), body: Box::new(v) });
                }
            }
            _ => out.push(Prog::Effect { tag: 0 }),
        }
        out
    }

    pub fn contains_stop(&self) -> bool {
        match self {
            Prog::Stop => true,
            Prog::Seq { items, .. } => items.iter().any(|p| p.contains_stop()),
            Prog::Wrap { inner, .. } => inner.contains_stop(),
            Prog::AndThenGet { body, .. } | Prog::Suspend { body, .. } => body.contains_stop(),
            Prog::AndThen { first, body } => first.contains_stop() || body.contains_stop(),
            _ => false,
        }
    }
}

/// Allocates the unique values / tags / suspend ids of one scenario.
pub struct Alloc {
    pub next_value: i32,
    pub next_tag: i32,
    pub next_susp: i32,
}

impl Alloc {
    pub fn new() -> Alloc {
        Alloc { next_value: 100, next_tag: 1, next_susp: 1000 }
    }
    fn value(&mut self) -> i32 {
        self.next_value += 1;
        self.next_value
    }
    fn tag(&mut self) -> i32 {
        self.next_tag += 1;
        self.next_tag
    }
    fn susp(&mut self) -> i32 {
        self.next_susp += 1;
        self.next_susp
    }
}

/// Generation parameters of one program.
#[derive(Clone, Copy)]
pub struct GenCfg {
    /// Items `>= min_mod` may be modified (the acyclic rule: a handler of item i has min_mod = i + 1).
    pub min_mod: i32,
    pub max_nodes: usize,
    pub max_depth: usize,
    pub key_pool: i32,
    /// Chances in per mille.
    pub fail_pm: u64,
    pub suspend_pm: u64,
    pub stop_pm: u64,
}

pub fn gen_prog(rng: &mut Rng, a: &mut Alloc, cfg: &GenCfg) -> Prog {
    let mut budget = cfg.max_nodes;
    gen_node(rng, a, cfg, cfg.max_depth, &mut budget, true)
}

fn gen_leaf(rng: &mut Rng, a: &mut Alloc, cfg: &GenCfg) -> Prog {
    let can_mod = cfg.min_mod < N_ITEMS as i32;
    let x = rng.below(100);
    if can_mod && x < 62 {
        let item = rng.range_i(cfg.min_mod as i64, N_ITEMS as i64 - 1) as i32;
        if is_map(item) {
            let key = rng.range_i(0, cfg.key_pool as i64 - 1) as i32;
            match rng.below(12) {
                0..=5 => Prog::Update { item, key, value: a.value() },
                6..=8 => Prog::Remove { item, key },
                9 => Prog::Clear { item },
                10 => Prog::Transform { item, key, value: Some(a.value()) },
                _ => Prog::Transform { item, key, value: if rng.chance(1, 2) { None } else { Some(a.value()) } },
            }
        } else {
            // One set in forty is followed by a continuation that looks at a later value item (the handlers of an item
            // only modify later items: that is where the effects of the triggered handlers show).
            let peek = if item + 1 < N_VALUES as i32 && rng.chance(1, 40) { Some(rng.range_i(item as i64 + 1, N_VALUES as i64 - 1) as i32) } else { None };
            Prog::Set { item, value: a.value(), peek }
        }
    } else if x < 85 {
        Prog::Get { item: rng.range_i(0, N_ITEMS as i64 - 1) as i32 }
    } else {
        Prog::Effect { tag: a.tag() }
    }
}

fn gen_node(rng: &mut Rng, a: &mut Alloc, cfg: &GenCfg, depth: usize, budget: &mut usize, root: bool) -> Prog {
    if *budget > 0 {
        *budget -= 1;
    }
    if depth <= 1 || *budget == 0 {
        return gen_leaf(rng, a, cfg);
    }
    if rng.below(1000) < cfg.fail_pm {
        return Prog::Fail;
    }
    if cfg.stop_pm > 0 && rng.below(1000) < cfg.stop_pm {
        return Prog::Stop;
    }
    if rng.below(1000) < cfg.suspend_pm {
        let delay_ms = *rng.pick(&[0u32, 0, 1, 2, 5, 10, 20, 50]);
        let after = rng.chance(1, 2);
        let id = a.susp();
        let body = gen_node(rng, a, cfg, depth - 1, budget, false);
        return Prog::Suspend { id, delay_ms, after, body: Box::new(body) };
    }
    let x = rng.below(100);
    let seq_chance = if root { 70 } else { 30 };
    if x < seq_chance {
        let n = rng.range(0, 5).min(*budget as u64) as usize;
        let mut items = vec![];
        for _ in 0..n {
            if *budget == 0 {
                break;
            }
            items.push(gen_node(rng, a, cfg, depth - 1, budget, false));
        }
        Prog::Seq { fold: rng.chance(1, 2), items }
    } else if x < seq_chance + 15 {
        let item = rng.range_i(0, N_ITEMS as i64 - 1) as i32;
        let body = gen_node(rng, a, cfg, depth - 1, budget, false);
        Prog::AndThenGet { item, body: Box::new(body) }
    } else if x < seq_chance + 22 {
        let inner = gen_node(rng, a, cfg, depth - 1, budget, false);
        Prog::Wrap { kind: *rng.pick(&[0i32, 0, 1, 1, 2]), inner: Box::new(inner) }
    } else if x < seq_chance + 30 {
        let first = gen_node(rng, a, cfg, depth - 1, budget, false);
        let body = gen_node(rng, a, cfg, depth - 1, budget, false);
        Prog::AndThen { first: Box::new(first), body: Box::new(body) }
    } else {
        gen_leaf(rng, a, cfg)
    }
}
