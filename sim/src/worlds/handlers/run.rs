//! Executes an `HScenario`: the real `AgentModel` of `ProgAgent` + the real agent runtime as one
//! future, polled by the simulated executor together with scripted peers that send programs to the
//! `run` lane. (Peer / attachment machinery adapted from `worlds/agent/run.rs`.)

use std::cell::RefCell;
use std::collections::HashMap;
use std::future::Future;
use std::num::NonZeroUsize;
use std::pin::Pin;
use std::rc::Rc;
use std::sync::{Arc, Mutex};
use std::task::{Context, Poll, Waker};
use std::time::Duration;

use bytes::BytesMut;
use swimos_agent::agent_model::AgentModel;
use swimos_api::address::RelativeAddress;
use swimos_api::agent::{AgentConfig, LaneConfig};
use swimos_messages::protocol::{Notification, RawRequestMessageEncoder, RawResponseMessageDecoder, RequestMessage};
use swimos_runtime::agent::{
    AgentAttachmentRequest, AgentExecError, AgentRouteChannels, AgentRouteDescriptor, AgentRouteTask,
    AgentRuntimeConfig, CombinedAgentConfig, DisconnectionReason, LinkRequest,
};
use swimos_utilities::byte_channel::{byte_channel, ByteReader, ByteWriter};
use swimos_utilities::future::RetryStrategy;
use swimos_utilities::trigger::{self, promise};
use tokio::io::{AsyncRead, AsyncWriteExt, ReadBuf};
use tokio::sync::mpsc;
use tokio_util::codec::{Decoder, Encoder};
use uuid::Uuid;

use super::model::{ProgAgent, ProgLifecycle, SharedTrace, Tr};
use super::prog::{is_map, ITEM_NAMES};
use super::scenario::*;
use crate::core::exec::{now_step, Exec, NodeFut, NodePanic, Policy, Scheduler};
use crate::core::log::EventLog;
use crate::core::rng::Rng;

pub const NODE_URI: &str = "/prog";

#[derive(Debug, Default)]
pub struct Hist {
    /// (step, peer, lane, kind + body)
    pub frames: Vec<(u64, u32, String, String)>,
    /// (start step, end step, peer, description, ok)
    pub sent: Vec<(u64, u64, u32, String, bool)>,
    pub disconnects: Vec<(u64, u32, String)>,
    pub attached: Vec<(u64, u32)>,
    pub reader_end: Vec<(u64, u32, String)>,
    pub marks: Vec<(u64, String)>,
}

pub type SharedHist = Rc<RefCell<Hist>>;

#[derive(Default)]
pub struct PeerShared {
    pub writer_waker: Option<Waker>,
    pub reader_waker: Option<Waker>,
    pub drain: bool,
    pub writer_done: bool,
    pub reader_gone: bool,
}

type SharedPeer = Rc<RefCell<PeerShared>>;
pub type SpawnQueue = Rc<RefCell<Vec<(String, usize, NodeFut)>>>;

struct Yield(bool);
impl Future for Yield {
    type Output = ();
    fn poll(mut self: Pin<&mut Self>, cx: &mut Context<'_>) -> Poll<()> {
        if self.0 {
            Poll::Ready(())
        } else {
            self.0 = true;
            cx.waker().wake_by_ref();
            Poll::Pending
        }
    }
}

async fn yield_n(n: u32) {
    for _ in 0..n {
        Yield(false).await;
    }
}

fn peer_uuid(id: u32) -> Uuid {
    Uuid::from_u128(0x1000 + id as u128)
}

struct HoldOpen {
    _w: ByteWriter,
    shared: SharedPeer,
}

impl Future for HoldOpen {
    type Output = ();
    fn poll(self: Pin<&mut Self>, cx: &mut Context<'_>) -> Poll<()> {
        // Parked for ever; dropped with the executor.
        self.shared.borrow_mut().writer_waker = Some(cx.waker().clone());
        Poll::Pending
    }
}

async fn peer_writer(
    script: Peer,
    att_tx: mpsc::Sender<AgentAttachmentRequest>,
    hist: SharedHist,
    shared: SharedPeer,
    spawn: SpawnQueue,
    budget: usize,
) {
    yield_n(script.attach_delay).await;
    let id = peer_uuid(script.id);
    let (to_agent_tx, to_agent_rx) = byte_channel(NonZeroUsize::new(script.in_cap.max(1) as usize).unwrap());
    let (from_agent_tx, from_agent_rx) = byte_channel(NonZeroUsize::new(script.out_cap.max(1) as usize).unwrap());
    let (done_tx, done_rx) = promise::promise::<DisconnectionReason>();
    let (att_trig_tx, att_trig_rx) = trigger::trigger();
    let req = AgentAttachmentRequest::TwoWay {
        id,
        io: (from_agent_tx, to_agent_rx),
        on_attached: Some(att_trig_tx),
        completion: done_tx,
    };
    if att_tx.send(req).await.is_err() {
        hist.borrow_mut().marks.push((now_step(), format!("peer{} attach-failed", script.id)));
        shared.borrow_mut().writer_done = true;
        return;
    }
    {
        let h = hist.clone();
        let pid = script.id;
        spawn.borrow_mut().push((
            format!("peer{pid}.done"),
            budget,
            Box::pin(async move {
                let text = match done_rx.await {
                    Ok(reason) => format!("{:?}", reason),
                    Err(_) => "PromiseDropped".to_string(),
                };
                h.borrow_mut().disconnects.push((now_step(), pid, text));
            }),
        ));
        let h = hist.clone();
        spawn.borrow_mut().push((
            format!("peer{pid}.att"),
            budget,
            Box::pin(async move {
                if att_trig_rx.await.is_ok() {
                    h.borrow_mut().attached.push((now_step(), pid));
                }
            }),
        ));
        spawn.borrow_mut().push((
            format!("peer{pid}.r"),
            budget,
            Box::pin(PeerReader::new(&script, from_agent_rx, hist.clone(), shared.clone())),
        ));
    }
    let mut writer = Some(to_agent_tx);
    let mut enc = RawRequestMessageEncoder;
    let mut buf = BytesMut::new();
    for op in script.ops.iter() {
        let start = now_step();
        let mut ok = true;
        let body_text;
        let (frame, desc): (Option<RequestMessage<&str, &[u8]>>, String) = match op {
            POp::Link { lane } => (
                Some(RequestMessage::link(id, RelativeAddress::new(NODE_URI, lane.as_str()))),
                format!("link {lane}"),
            ),
            POp::Sync { lane } => (
                Some(RequestMessage::sync(id, RelativeAddress::new(NODE_URI, lane.as_str()))),
                format!("sync {lane}"),
            ),
            POp::Send { id: pid, prog } => {
                body_text = swimos_recon::print_recon_compact(&prog.to_msg(*pid)).to_string();
                (
                    Some(RequestMessage::command(id, RelativeAddress::new(NODE_URI, "run"), body_text.as_bytes())),
                    format!("send prog {pid}"),
                )
            }
            POp::Direct { item, key, value } => {
                let lane = ITEM_NAMES[*item as usize];
                body_text = if is_map(*item) { format!("@update(key:{key}) {value}") } else { format!("{value}") };
                (
                    Some(RequestMessage::command(id, RelativeAddress::new(NODE_URI, lane), body_text.as_bytes())),
                    format!("direct {lane} {body_text}"),
                )
            }
            POp::DirectDrop { item, n, take } => {
                let lane = ITEM_NAMES[*item as usize];
                body_text = if *take { format!("@take({n})") } else { format!("@drop({n})") };
                (
                    Some(RequestMessage::command(id, RelativeAddress::new(NODE_URI, lane), body_text.as_bytes())),
                    format!("direct {lane} {body_text}"),
                )
            }
            POp::Pause { polls } => {
                yield_n(*polls).await;
                (None, format!("pause {polls}"))
            }
            POp::Sleep { ms } => {
                tokio::time::sleep(Duration::from_millis(*ms as u64)).await;
                (None, format!("sleep {ms}ms"))
            }
        };
        if let Some(frame) = frame {
            if let Some(w) = writer.as_mut() {
                buf.clear();
                enc.encode(frame, &mut buf).expect("encode");
                if w.write_all(&buf).await.is_err() {
                    ok = false;
                    writer = None;
                }
            } else {
                ok = false;
            }
        }
        hist.borrow_mut().sent.push((start, now_step(), script.id, desc, ok));
    }
    shared.borrow_mut().writer_done = true;
    if let Some(w) = writer {
        HoldOpen { _w: w, shared }.await;
    }
}

struct PeerReader {
    pid: u32,
    reader: Option<ByteReader>,
    buf: BytesMut,
    rng: Rng,
    max_chunk: u32,
    stall_pm: u32,
    stall_max: u32,
    stalled: u32,
    hist: SharedHist,
    shared: SharedPeer,
    scratch: Vec<u8>,
}

impl PeerReader {
    fn new(script: &Peer, reader: ByteReader, hist: SharedHist, shared: SharedPeer) -> PeerReader {
        PeerReader {
            pid: script.id,
            reader: Some(reader),
            buf: BytesMut::new(),
            rng: Rng::new(script.chunk_seed),
            max_chunk: script.max_chunk,
            stall_pm: script.stall_pm,
            stall_max: script.stall_max,
            stalled: 0,
            hist,
            shared,
            scratch: vec![0u8; 4096],
        }
    }

    fn record_frames(&mut self) -> Result<(), String> {
        let mut dec = RawResponseMessageDecoder;
        loop {
            match dec.decode(&mut self.buf) {
                Ok(Some(msg)) => {
                    let kind = match msg.envelope {
                        Notification::Linked => "linked".to_string(),
                        Notification::Synced => "synced".to_string(),
                        Notification::Unlinked(b) => {
                            format!("unlinked {:?}", b.map(|b| String::from_utf8_lossy(&b).to_string()))
                        }
                        Notification::Event(b) => format!("event {}", String::from_utf8_lossy(&b)),
                    };
                    let lane = msg.path.lane.as_str().to_string();
                    self.hist.borrow_mut().frames.push((now_step(), self.pid, lane, kind));
                }
                Ok(None) => return Ok(()),
                Err(e) => return Err(format!("{e}")),
            }
        }
    }

    fn finish(&mut self, why: &str) {
        self.reader = None;
        let mut s = self.shared.borrow_mut();
        s.reader_gone = true;
        if let Some(w) = s.writer_waker.take() {
            w.wake();
        }
        drop(s);
        self.hist.borrow_mut().reader_end.push((now_step(), self.pid, why.to_string()));
    }
}

impl Future for PeerReader {
    type Output = ();
    fn poll(mut self: Pin<&mut Self>, cx: &mut Context<'_>) -> Poll<()> {
        let this = &mut *self;
        let drain = this.shared.borrow().drain;
        if !drain {
            if this.stalled > 0 {
                this.stalled -= 1;
                cx.waker().wake_by_ref();
                return Poll::Pending;
            }
            if this.stall_pm > 0 && this.rng.below(1000) < this.stall_pm as u64 {
                this.stalled = this.rng.range(1, this.stall_max.max(1) as u64) as u32;
                cx.waker().wake_by_ref();
                return Poll::Pending;
            }
        }
        let n = if drain { this.scratch.len() } else { this.rng.range(1, this.max_chunk.max(1) as u64) as usize }
            .min(this.scratch.len());
        let Some(reader) = this.reader.as_mut() else {
            return Poll::Ready(());
        };
        let mut rb = ReadBuf::new(&mut this.scratch[..n]);
        match Pin::new(reader).poll_read(cx, &mut rb) {
            Poll::Pending => {
                this.shared.borrow_mut().reader_waker = Some(cx.waker().clone());
                Poll::Pending
            }
            Poll::Ready(Err(e)) => {
                this.finish(&format!("io-error {e}"));
                Poll::Ready(())
            }
            Poll::Ready(Ok(())) => {
                if rb.filled().is_empty() {
                    let left = this.buf.len();
                    this.finish(&format!("eof leftover={left}"));
                    return Poll::Ready(());
                }
                let filled = rb.filled().to_vec();
                this.buf.extend_from_slice(&filled);
                if let Err(e) = this.record_frames() {
                    this.finish(&format!("decode-error {e}"));
                    return Poll::Ready(());
                }
                cx.waker().wake_by_ref();
                Poll::Pending
            }
        }
    }
}

/// The agent never asks for links in this world; requests are refused.
async fn link_server(mut rx: mpsc::Receiver<LinkRequest>) {
    while let Some(req) = rx.recv().await {
        match req {
            LinkRequest::Commander(c) => {
                drop(c);
            }
            LinkRequest::Downlink(d) => {
                let _ = d.promise.send(Err(swimos_api::error::DownlinkRuntimeError::DownlinkConnectionFailed(
                    swimos_api::error::DownlinkFailureReason::UnresolvableLocal(RelativeAddress::text("/none", "none")),
                )));
            }
        }
    }
}

#[derive(Debug, Clone)]
pub struct AgentEnd {
    pub step: u64,
    pub result: String,
    pub ok: bool,
    pub sim_ms: u64,
}

pub struct RunRecord {
    pub hist: Hist,
    pub trace: Vec<(u64, Tr)>,
    pub agent_end: Option<AgentEnd>,
    pub stop_step: Option<u64>,
    pub step_limit_hit: bool,
    pub steps: u64,
    pub decisions: u64,
    pub sim_ms: u64,
    pub panics: Vec<NodePanic>,
    pub time_advances: u64,
    pub stuck_writers: Vec<u32>,
    pub poll_log: EventLog,
}

fn policy_of(p: &PolicyCfg) -> Policy {
    match p {
        PolicyCfg::Random => Policy::Random,
        PolicyCfg::Lowest => Policy::Lowest,
        PolicyCfg::RoundRobin => Policy::RoundRobin,
        PolicyCfg::Pct { change_points } => Policy::Pct { change_points: *change_points },
        PolicyCfg::StarveAgent { steps } => Policy::Starve { node: 0, steps: *steps },
    }
}

fn nz(n: u32) -> NonZeroUsize {
    NonZeroUsize::new(n.max(1) as usize).unwrap()
}

fn flush_spawns(exec: &mut Exec, spawn: &SpawnQueue) {
    let items: Vec<_> = spawn.borrow_mut().drain(..).collect();
    for (name, budget, fut) in items {
        exec.spawn(&name, budget, fut);
    }
}

#[derive(Debug, Clone, Copy, PartialEq, Eq)]
enum Phase {
    Main,
    Draining,
    Stopping,
    Done,
}

/// Longest sleep of a generated continuation is 50 ms, of a peer 60 ms: when nothing wakes within
/// this window nothing scripted is pending any more.
const QUIET_MS: u64 = 250;
pub const MAX_TIME_ADVANCES: u64 = 400;

pub async fn run_scenario(sc: &HScenario, keep_log: bool) -> RunRecord {
    let t0 = tokio::time::Instant::now();
    let k = &sc.knobs;
    let sched = Scheduler::new(Rng::new(k.sched_seed), policy_of(&k.policy), 2_000);
    let mut exec = Exec::new(sched, EventLog::new(keep_log));
    exec.trace_polls = keep_log && std::env::var("VERIF_TRACE_POLLS").is_ok();
    let hist: SharedHist = Rc::new(RefCell::new(Hist::default()));
    let spawn: SpawnQueue = Rc::new(RefCell::new(vec![]));

    let trace: SharedTrace = Arc::new(Mutex::new(vec![]));
    let lifecycle = ProgLifecycle { trace: trace.clone(), table: Arc::new(sc.table()) };
    let model = AgentModel::new(
        ProgAgent::default,
        super::model::WithInit { inner: lifecycle.into_lifecycle(), trace: trace.clone(), open_dyn: sc.dyn_on_init },
    );
    let (att_tx, att_rx) = mpsc::channel(k.att_queue.max(1) as usize);
    let (http_tx, http_rx) = mpsc::channel(4);
    let (link_tx, link_rx) = mpsc::channel(8);
    let (stop_tx, stop_rx) = trigger::trigger();
    let mut stop_tx = Some(stop_tx);
    let lane_config = LaneConfig {
        input_buffer_size: nz(k.lane_in_buf),
        output_buffer_size: nz(k.lane_out_buf),
        transient: true,
    };
    let config = CombinedAgentConfig {
        agent_config: AgentConfig { default_lane_config: Some(lane_config), keep_linked_retry: RetryStrategy::none() },
        runtime_config: AgentRuntimeConfig {
            attachment_queue_size: nz(k.att_queue),
            agent_http_request_channel_size: nz(4),
            // Far beyond anything that happens in a run: the agent never times out by itself.
            inactive_timeout: Duration::from_secs(600),
            prune_remote_delay: Duration::from_secs(600),
            shutdown_timeout: Duration::from_secs(5),
            item_init_timeout: Duration::from_secs(5),
            command_output_timeout: Duration::from_secs(30),
            command_output_retry: RetryStrategy::none(),
            command_msg_buffer: nz(k.cmd_buf),
            lane_http_request_channel_size: nz(4),
        },
    };
    let descriptor = AgentRouteDescriptor {
        identity: Uuid::from_u128(7),
        route: NODE_URI.parse().unwrap(),
        route_params: HashMap::new(),
    };
    let channels = AgentRouteChannels::new(att_rx, http_rx, link_tx);
    let end: Rc<RefCell<Option<AgentEnd>>> = Rc::new(RefCell::new(None));
    let task = AgentRouteTask::new(&model, descriptor, channels, stop_rx, config, None);
    let fut: Pin<Box<dyn Future<Output = Result<(), AgentExecError>>>> = Box::pin(task.run_agent());
    let end2 = end.clone();
    let agent_node = exec.spawn("agent", k.budget_agent as usize, async move {
        let r = fut.await;
        let (text, ok) = match r {
            Ok(()) => ("Ok".to_string(), true),
            Err(e) => (format!("Err({e})"), false),
        };
        *end2.borrow_mut() = Some(AgentEnd {
            step: now_step(),
            result: text,
            ok,
            sim_ms: (tokio::time::Instant::now() - t0).as_millis() as u64,
        });
    });
    exec.spawn("links", k.budget_peer as usize, link_server(link_rx));

    let mut peers: Vec<SharedPeer> = vec![];
    for p in &sc.peers {
        let shared: SharedPeer = Rc::new(RefCell::new(PeerShared::default()));
        peers.push(shared.clone());
        exec.spawn(
            &format!("peer{}.w", p.id),
            k.budget_peer as usize,
            peer_writer(p.clone(), att_tx.clone(), hist.clone(), shared, spawn.clone(), k.budget_peer as usize),
        );
    }

    let mut rec = RunRecord {
        hist: Hist::default(),
        trace: vec![],
        agent_end: None,
        stop_step: None,
        step_limit_hit: false,
        steps: 0,
        decisions: 0,
        sim_ms: 0,
        panics: vec![],
        time_advances: 0,
        stuck_writers: vec![],
        poll_log: EventLog::new(false),
    };

    let mut phase = Phase::Main;
    let mut stop_waits = 0u32;
    'run: loop {
        loop {
            if exec.steps >= sc.max_steps {
                rec.step_limit_hit = true;
                break 'run;
            }
            if !exec.step() {
                break;
            }
            flush_spawns(&mut exec, &spawn);
            // Fresh tokio coop budget for every node poll; deferred wakers are delivered.
            tokio::task::yield_now().await;
        }
        flush_spawns(&mut exec, &spawn);
        if exec.has_ready() {
            continue;
        }
        // Idle: nothing can run until simulated time passes.
        match phase {
            Phase::Main | Phase::Draining => {
                if exec.is_done(agent_node) {
                    // The agent ended by itself (a failed handler).
                    phase = Phase::Stopping;
                    continue;
                }
                // Let time pass while something scripted is pending (sleeping peers, suspended
                // continuations), bounded.
                if rec.time_advances < MAX_TIME_ADVANCES {
                    rec.time_advances += 1;
                    if exec.wait_for_wake(Duration::from_millis(QUIET_MS)).await {
                        continue;
                    }
                }
                if phase == Phase::Main {
                    hist.borrow_mut().marks.push((exec.steps, "drain".into()));
                    for (i, p) in peers.iter().enumerate() {
                        let mut s = p.borrow_mut();
                        if !s.writer_done {
                            rec.stuck_writers.push(sc.peers[i].id);
                        }
                        s.drain = true;
                        if let Some(w) = s.reader_waker.take() {
                            w.wake();
                        }
                    }
                    phase = Phase::Draining;
                } else {
                    rec.stop_step = Some(exec.steps);
                    hist.borrow_mut().marks.push((exec.steps, "stop-trigger".into()));
                    if let Some(tx) = stop_tx.take() {
                        tx.trigger();
                    }
                    phase = Phase::Stopping;
                }
            }
            Phase::Stopping => {
                if exec.is_done(agent_node) {
                    phase = Phase::Done;
                } else {
                    stop_waits += 1;
                    if stop_waits > 50 || !exec.wait_for_wake(Duration::from_secs(20)).await {
                        phase = Phase::Done;
                    }
                }
            }
            Phase::Done => break 'run,
        }
        if phase == Phase::Done {
            break 'run;
        }
    }

    rec.agent_end = end.borrow().clone();
    rec.steps = exec.steps;
    rec.decisions = exec.decisions;
    rec.sim_ms = (tokio::time::Instant::now() - t0).as_millis() as u64;
    rec.panics = exec.panics.clone();
    let log = std::mem::replace(&mut exec.log, EventLog::new(false));
    drop(exec);
    drop(att_tx);
    drop(http_tx);
    rec.trace = trace.lock().unwrap().clone();
    rec.hist = std::mem::take(&mut *hist.borrow_mut());
    rec.poll_log = log;
    rec
}
