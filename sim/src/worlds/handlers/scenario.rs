//! Explicit scenarios of the `handlers` world: the (item, event) -> program table, peers that send
//! top-level programs to the `run` lane, knobs. A scenario is a pure function of the run seed.

use serde::{Deserialize, Serialize};

use super::model::{Ev, Table};
use super::prog::{gen_prog, is_map, Alloc, GenCfg, Prog, N_ITEMS};
use crate::core::rng::Rng;
use crate::core::Tier;
pub use crate::worlds::agent::scenario::PolicyCfg;

#[derive(Debug, Clone, Serialize, Deserialize, PartialEq, Eq)]
pub struct TableEntry {
    pub item: i32,
    pub ev: Ev,
    pub prog: Prog,
}

#[derive(Debug, Clone, Serialize, Deserialize, PartialEq, Eq)]
pub enum POp {
    /// Send a top-level program to the `run` lane (as Recon).
    Send { id: i32, prog: Prog },
    /// Yield this many times.
    Pause { polls: u32 },
    /// Sleep in simulated time (so that programs arrive while continuations are pending).
    Sleep { ms: u32 },
    Link { lane: String },
    Sync { lane: String },
    /// A command sent straight to a lane (not through `run`): sets value lane `item` (0 or 2) to `value`, or
    /// updates `key` of map lane `item` (3 or 4). Values are unique and >= DIRECT_MIN, so the trigger can be
    /// recognised in the trace (it has no `Top` marker: the lane's own handlers are the top level).
    Direct { item: i32, key: i32, value: i32 },
    /// `@drop(n)` / `@take(n)` sent straight to map lane `item` (3 or 4): every entry it removes is a state change of
    /// its own (on_remove with the true previous value and the map after that removal).
    DirectDrop { item: i32, n: u32, take: bool },
}

pub const DIRECT_MIN: i32 = 5000;

#[derive(Debug, Clone, Serialize, Deserialize, PartialEq, Eq)]
pub struct Peer {
    pub id: u32,
    pub out_cap: u32,
    pub in_cap: u32,
    pub chunk_seed: u64,
    pub max_chunk: u32,
    pub stall_pm: u32,
    pub stall_max: u32,
    pub attach_delay: u32,
    pub ops: Vec<POp>,
}

#[derive(Debug, Clone, Serialize, Deserialize, PartialEq, Eq)]
pub struct Knobs {
    pub lane_in_buf: u32,
    pub lane_out_buf: u32,
    pub att_queue: u32,
    pub cmd_buf: u32,
    pub budget_agent: u32,
    pub budget_peer: u32,
    pub policy: PolicyCfg,
    pub sched_seed: u64,
    pub tokio_seed: u64,
    /// Start value of std's hash keys on the run's thread (iteration order of the product's HashMaps).
    #[serde(default)]
    pub hash_seed: u64,
}

#[derive(Debug, Clone, Serialize, Deserialize, PartialEq, Eq)]
pub struct HScenario {
    /// The lifecycle's on_init step asks for a dynamic lane whose completion handler records a mark.
    #[serde(default)]
    pub dyn_on_init: bool,
    pub knobs: Knobs,
    pub start: Prog,
    pub stop: Prog,
    pub table: Vec<TableEntry>,
    pub peers: Vec<Peer>,
    pub max_steps: u64,
}

impl HScenario {
    pub fn table(&self) -> Table {
        let mut t = Table::default();
        if !self.start.is_empty() {
            t.start = Some(self.start.clone());
        }
        if !self.stop.is_empty() {
            t.stop = Some(self.stop.clone());
        }
        for e in &self.table {
            t.items.insert((e.item, e.ev), e.prog.clone());
        }
        t
    }
}

pub fn events_of(item: i32) -> &'static [Ev] {
    if is_map(item) {
        &[Ev::OnUpdate, Ev::OnRemove, Ev::OnClear]
    } else {
        &[Ev::OnEvent, Ev::OnSet]
    }
}

/// Static upper bound of the number of trace entries a program produces (with everything it
/// triggers and every continuation it suspends), used to keep cascades small.
pub fn static_cost(table: &Table, prog: &Prog) -> u64 {
    let mut trig = [0u64; N_ITEMS];
    for i in (0..N_ITEMS as i32).rev() {
        let c = |ev: Ev, trig: &[u64; N_ITEMS]| table.items.get(&(i, ev)).map(|p| cost(p, trig)).unwrap_or(0);
        trig[i as usize] = if is_map(i) {
            2 + c(Ev::OnUpdate, &trig).max(c(Ev::OnRemove, &trig)).max(c(Ev::OnClear, &trig))
        } else {
            4u64.saturating_add(c(Ev::OnEvent, &trig)).saturating_add(c(Ev::OnSet, &trig))
        };
    }
    cost(prog, &trig)
}

fn cost(p: &Prog, trig: &[u64; N_ITEMS]) -> u64 {
    match p {
        Prog::Wrap { inner, .. } => 1u64.saturating_add(cost(inner, trig)),
        Prog::Set { item, .. } | Prog::Update { item, .. } | Prog::Remove { item, .. } | Prog::Clear { item } | Prog::Transform { item, .. } => {
            1u64.saturating_add(trig[(*item as usize).min(N_ITEMS - 1)])
        }
        Prog::Get { .. } | Prog::Effect { .. } | Prog::Fail | Prog::Stop => 1,
        Prog::AndThen { first, body } => 1u64.saturating_add(cost(first, trig)).saturating_add(cost(body, trig)),
        Prog::Seq { items, .. } => items.iter().fold(0u64, |a, p| a.saturating_add(cost(p, trig))),
        Prog::AndThenGet { body, .. } => 1u64.saturating_add(cost(body, trig)),
        Prog::Suspend { body, .. } => 3u64.saturating_add(cost(body, trig)),
    }
}

const COST_LIMIT: u64 = 500;

pub fn generate(seed: u64, _tier: Tier) -> HScenario {
    let root = Rng::new(seed);
    let mut rng = root.sub("scenario");
    let mut a = Alloc::new();
    let small = rng.chance(3, 4);
    let buf_choices: &[u32] = if small { &[8, 12, 16, 24, 32, 48, 64, 128] } else { &[256, 4096] };
    let policy = match rng.below(10) {
        0 => PolicyCfg::Lowest,
        1 => PolicyCfg::RoundRobin,
        2 | 3 => PolicyCfg::Pct { change_points: rng.range(0, 3) as u32 },
        4 => PolicyCfg::StarveAgent { steps: rng.range(20, 400) },
        _ => PolicyCfg::Random,
    };
    let knobs = Knobs {
        lane_in_buf: *rng.pick(buf_choices),
        lane_out_buf: *rng.pick(buf_choices),
        att_queue: *rng.pick(&[4u32, 8, 16]),
        cmd_buf: *rng.pick(&[32u32, 64, 128, 4096]),
        budget_agent: *rng.pick(&[2u32, 3, 5, 8, 64]),
        budget_peer: *rng.pick(&[2u32, 3, 8, 64]),
        policy,
        sched_seed: root.sub("sched").next_u64(),
        tokio_seed: root.sub("tokio").next_u64(),
        hash_seed: root.sub("hash").next_u64() | 1,
    };
    let key_pool = rng.range(1, 3) as i32;
    // Swarm style: the shape of the table and the presence of failures / suspensions are drawn per run.
    let entry_pm = *rng.pick(&[250u64, 500, 500, 750, 1000]);
    let table_fail_pm = *rng.pick(&[0u64, 0, 0, 30, 80]);
    let table_susp_pm = *rng.pick(&[0u64, 0, 60, 150]);
    let top_fail_pm = *rng.pick(&[0u64, 0, 20, 60]);
    let top_susp_pm = *rng.pick(&[0u64, 80, 150, 250]);
    // Separate stream: the presence of stop actions and direct lane commands does not change the rest.
    let mut xr = root.sub("extras");
    let stop_pm = *xr.pick(&[0u64, 0, 0, 15, 40]);
    let direct_pm = *xr.pick(&[0u64, 0, 250, 500]);
    let mut next_direct = DIRECT_MIN;

    let mut table = vec![];
    for item in 0..N_ITEMS as i32 {
        for ev in events_of(item) {
            if rng.below(1000) < entry_pm {
                let cfg = GenCfg {
                    min_mod: item + 1,
                    max_nodes: rng.range(1, 6) as usize,
                    max_depth: 3,
                    key_pool,
                    fail_pm: table_fail_pm,
                    suspend_pm: table_susp_pm,
                    stop_pm: stop_pm / 2,
                };
                let prog = gen_prog(&mut rng, &mut a, &cfg);
                if !prog.is_empty() {
                    table.push(TableEntry { item, ev: *ev, prog });
                }
            }
        }
    }
    let start = if rng.chance(1, 2) {
        let cfg = GenCfg { min_mod: 0, max_nodes: rng.range(1, 8) as usize, max_depth: 3, key_pool, fail_pm: 0, suspend_pm: top_susp_pm, stop_pm: 0 };
        gen_prog(&mut rng, &mut a, &cfg)
    } else {
        Prog::empty()
    };
    let stop = if rng.chance(1, 2) {
        let cfg = GenCfg { min_mod: 0, max_nodes: rng.range(1, 8) as usize, max_depth: 3, key_pool, fail_pm: top_fail_pm, suspend_pm: top_susp_pm / 2, stop_pm: 0 };
        gen_prog(&mut rng, &mut a, &cfg)
    } else {
        Prog::empty()
    };

    let n_peers = rng.range(1, 3) as u32;
    let mut peers = vec![];
    let mut next_id = 0;
    for id in 0..n_peers {
        let mut ops = vec![];
        // Some peers observe lanes so that the agent's write path runs between handlers.
        for lane in ["v0", "v2", "m0", "m1"] {
            match rng.below(8) {
                0 => ops.push(POp::Link { lane: lane.to_string() }),
                1 => ops.push(POp::Sync { lane: lane.to_string() }),
                _ => {}
            }
        }
        let n_progs = rng.range(1, 5);
        for _ in 0..n_progs {
            match rng.below(6) {
                0 => ops.push(POp::Pause { polls: *rng.pick(&[1u32, 3, 10, 40]) }),
                1 | 2 => ops.push(POp::Sleep { ms: *rng.pick(&[1u32, 2, 5, 10, 25, 60]) }),
                _ => {}
            }
            let cfg = GenCfg {
                min_mod: 0,
                max_nodes: *rng.pick(&[3usize, 6, 10, 16, 30]),
                max_depth: rng.range(2, 5) as usize,
                key_pool,
                fail_pm: top_fail_pm,
                suspend_pm: top_susp_pm,
                stop_pm,
            };
            if xr.below(1000) < direct_pm {
                next_direct += 1;
                let item = *xr.pick(&[0i32, 2, 3, 4]);
                ops.push(POp::Direct { item, key: xr.range_i(0, key_pool as i64 - 1) as i32, value: next_direct });
            }
            if xr.below(1000) < direct_pm / 2 {
                ops.push(POp::DirectDrop { item: *xr.pick(&[3i32, 4]), n: xr.range(0, key_pool as u64 + 1) as u32, take: xr.chance(1, 2) });
            }
            next_id += 1;
            ops.push(POp::Send { id: next_id, prog: gen_prog(&mut rng, &mut a, &cfg) });
        }
        peers.push(Peer {
            id,
            out_cap: *rng.pick(&[8u32, 16, 32, 64, 256, 4096]),
            in_cap: *rng.pick(&[4u32, 8, 16, 64, 4096]),
            chunk_seed: root.sub(&format!("chunk{id}")).next_u64(),
            max_chunk: *rng.pick(&[1u32, 3, 16, 64, 4096, 4096]),
            stall_pm: *rng.pick(&[0u32, 0, 20, 100]),
            stall_max: *rng.pick(&[1u32, 3, 10]),
            attach_delay: *rng.pick(&[0u32, 0, 0, 5, 30]),
            ops,
        });
    }
    let dyn_on_init = xr.chance(1, 3);
    let mut sc = HScenario { dyn_on_init, knobs, start, stop, table, peers, max_steps: 80_000 };
    bound_cost(&mut sc);
    sc
}

/// Removes the most expensive table entries until no top-level program can exceed `COST_LIMIT`.
fn bound_cost(sc: &mut HScenario) {
    loop {
        let t = sc.table();
        let mut worst = static_cost(&t, &sc.start).max(static_cost(&t, &sc.stop));
        for p in &sc.peers {
            for op in &p.ops {
                if let POp::Send { prog, .. } = op {
                    worst = worst.max(static_cost(&t, prog));
                }
                if let POp::Direct { item, value, .. } = op {
                    worst = worst.max(static_cost(&t, &Prog::Set { item: *item, value: *value, peek: None }));
                }
                if let POp::DirectDrop { item, .. } = op {
                    // At most key_pool (<= 3) removals.
                    worst = worst.max(3 * static_cost(&t, &Prog::Remove { item: *item, key: 0 }));
                }
            }
        }
        if worst <= COST_LIMIT || sc.table.is_empty() {
            // Top-level programs alone are at most 30 nodes: below the limit without a table.
            return;
        }
        let mut best = 0;
        let mut best_cost = 0;
        for (i, e) in sc.table.iter().enumerate() {
            let c = static_cost(&t, &e.prog);
            if c >= best_cost {
                best_cost = c;
                best = i;
            }
        }
        sc.table.remove(best);
    }
}

/// Candidate simplifications, simplest first.
pub fn shrink(sc: &HScenario) -> Vec<HScenario> {
    let mut out = vec![];
    if sc.peers.len() > 1 {
        for i in 0..sc.peers.len() {
            let mut c = sc.clone();
            c.peers.remove(i);
            out.push(c);
        }
    }
    for (pi, p) in sc.peers.iter().enumerate() {
        let n = p.ops.len();
        let mut chunk = n / 2;
        while chunk >= 1 {
            let mut start = 0;
            while start < n {
                let end = (start + chunk).min(n);
                let mut c = sc.clone();
                c.peers[pi].ops.drain(start..end);
                out.push(c);
                start += chunk;
            }
            if chunk == 1 {
                break;
            }
            chunk /= 2;
        }
    }
    if !sc.table.is_empty() {
        let mut c = sc.clone();
        c.table.clear();
        out.push(c);
    }
    for i in 0..sc.table.len() {
        let mut c = sc.clone();
        c.table.remove(i);
        out.push(c);
    }
    if !sc.start.is_empty() {
        let mut c = sc.clone();
        c.start = Prog::empty();
        out.push(c);
    }
    if !sc.stop.is_empty() {
        let mut c = sc.clone();
        c.stop = Prog::empty();
        out.push(c);
    }
    // A failure that happens deep inside a cascade usually reproduces with a top-level `Fail`.
    let has_fail = |p: &Prog| format!("{p:?}").contains("Fail");
    if sc.table.iter().any(|e| has_fail(&e.prog)) {
        for (pi, p) in sc.peers.iter().enumerate() {
            for (oi, op) in p.ops.iter().enumerate() {
                if let POp::Send { id, prog } = op {
                    if *prog != Prog::Fail {
                        let mut c = sc.clone();
                        c.peers[pi].ops[oi] = POp::Send { id: *id, prog: Prog::Fail };
                        c.table.clear();
                        out.push(c);
                    }
                }
            }
        }
    }
    // Replace sub-programs by something smaller.
    for (pi, p) in sc.peers.iter().enumerate() {
        for (oi, op) in p.ops.iter().enumerate() {
            if let POp::Send { id, prog } = op {
                for v in prog.variants() {
                    let mut c = sc.clone();
                    c.peers[pi].ops[oi] = POp::Send { id: *id, prog: v };
                    out.push(c);
                }
            }
        }
    }
    for (i, e) in sc.table.iter().enumerate() {
        for v in e.prog.variants() {
            if v.is_empty() {
                continue;
            }
            let mut c = sc.clone();
            c.table[i].prog = v;
            out.push(c);
        }
    }
    for v in sc.start.variants() {
        if !v.is_empty() {
            let mut c = sc.clone();
            c.start = v;
            out.push(c);
        }
    }
    for v in sc.stop.variants() {
        if !v.is_empty() {
            let mut c = sc.clone();
            c.stop = v;
            out.push(c);
        }
    }
    // Knobs.
    if sc.knobs.policy != PolicyCfg::Lowest {
        let mut c = sc.clone();
        c.knobs.policy = PolicyCfg::Lowest;
        out.push(c);
    }
    for (pi, p) in sc.peers.iter().enumerate() {
        if p.stall_pm != 0 {
            let mut c = sc.clone();
            c.peers[pi].stall_pm = 0;
            out.push(c);
        }
        if p.attach_delay != 0 {
            let mut c = sc.clone();
            c.peers[pi].attach_delay = 0;
            out.push(c);
        }
        if p.max_chunk != 4096 {
            let mut c = sc.clone();
            c.peers[pi].max_chunk = 4096;
            out.push(c);
        }
        if p.out_cap != 4096 {
            let mut c = sc.clone();
            c.peers[pi].out_cap = 4096;
            out.push(c);
        }
        if p.in_cap != 4096 {
            let mut c = sc.clone();
            c.peers[pi].in_cap = 4096;
            out.push(c);
        }
    }
    if sc.knobs.lane_out_buf != 4096 {
        let mut c = sc.clone();
        c.knobs.lane_out_buf = 4096;
        out.push(c);
    }
    if sc.knobs.lane_in_buf != 4096 {
        let mut c = sc.clone();
        c.knobs.lane_in_buf = 4096;
        out.push(c);
    }
    if sc.knobs.budget_agent != 64 {
        let mut c = sc.clone();
        c.knobs.budget_agent = 64;
        out.push(c);
    }
    if sc.knobs.budget_peer != 64 {
        let mut c = sc.clone();
        c.knobs.budget_peer = 64;
        out.push(c);
    }
    if sc.knobs.att_queue != 16 {
        let mut c = sc.clone();
        c.knobs.att_queue = 16;
        out.push(c);
    }
    if sc.knobs.cmd_buf != 4096 {
        let mut c = sc.clone();
        c.knobs.cmd_buf = 4096;
        out.push(c);
    }
    out
}
