//! W-HANDLERS (C06): generated handler programs run on a real agent; the trace recorded through
//! `context.effect` closures is compared with a reference interpreter of the documented semantics.

pub mod model;
pub mod prog;
pub mod reference;
pub mod run;
pub mod scenario;

use serde_json::{json, Value as Json};

use crate::core::log::EventLog;
use crate::core::tok::block_on_sim;
use crate::core::{Outcome, Tier, World};

use model::Tr;
use reference::RunFacts;
use run::RunRecord;
use scenario::HScenario;

pub struct HandlersWorld;

fn build_log(rec: &RunRecord, keep: bool) -> EventLog {
    let mut items: Vec<(u64, u8, usize, &'static str, String)> = vec![];
    for (i, (s, t)) in rec.trace.iter().enumerate() {
        items.push((*s, 0, i, "trace", format!("{:?}", t)));
    }
    let h = &rec.hist;
    for (i, (s, p, lane, kind)) in h.frames.iter().enumerate() {
        items.push((*s, 1, i, "frame", format!("peer{p} {lane} {kind}")));
    }
    for (i, (start, end, p, d, ok)) in h.sent.iter().enumerate() {
        items.push((*end, 2, i, "sent", format!("peer{p} start={start} ok={ok} {d}")));
    }
    for (i, (s, p, r)) in h.disconnects.iter().enumerate() {
        items.push((*s, 4, i, "closed", format!("peer{p} {r}")));
    }
    for (i, (s, p)) in h.attached.iter().enumerate() {
        items.push((*s, 5, i, "attached", format!("peer{p}")));
    }
    for (i, (s, p, w)) in h.reader_end.iter().enumerate() {
        items.push((*s, 6, i, "reader-end", format!("peer{p} {w}")));
    }
    for (i, (s, m)) in h.marks.iter().enumerate() {
        items.push((*s, 9, i, "mark", m.clone()));
    }
    if let Some(e) = &rec.agent_end {
        items.push((e.step, 11, 0, "agent-end", format!("{} t={}ms", e.result, e.sim_ms)));
    }
    for (i, p) in rec.panics.iter().enumerate() {
        items.push((p.step, 12, i, "panic", format!("{} {}", p.node, p.message)));
    }
    items.sort_by(|a, b| (a.0, a.1, a.2).cmp(&(b.0, b.1, b.2)));
    let mut log = EventLog::new(keep);
    for (s, _, _, k, d) in items {
        log.rec(s, k, &d);
    }
    log
}

impl World for HandlersWorld {
    fn name(&self) -> &'static str {
        "handlers"
    }

    fn generate(&self, seed: u64, tier: Tier) -> Json {
        serde_json::to_value(scenario::generate(seed, tier)).unwrap()
    }

    fn execute(&self, scenario: &Json, keep_log: bool) -> Outcome {
        let sc: HScenario = match serde_json::from_value(scenario.clone()) {
            Ok(s) => s,
            Err(e) => return Outcome { harness_error: Some(format!("bad scenario: {e}")), ..Default::default() },
        };
        let rec = block_on_sim(sc.knobs.tokio_seed, run::run_scenario(&sc, keep_log));
        let log = build_log(&rec, keep_log);
        let mut lines = log.lines().to_vec();
        if !rec.poll_log.lines().is_empty() {
            lines.extend(rec.poll_log.lines().iter().cloned());
            lines.sort_by_key(|l| l.trim_start().split(' ').next().and_then(|n| n.parse::<u64>().ok()).unwrap_or(0));
        }
        let recorded: Vec<Tr> = rec.trace.iter().map(|(_, t)| t.clone()).collect();
        let facts = RunFacts {
            agent_ok: rec.agent_end.as_ref().map(|e| e.ok),
            stop_triggered: rec.stop_step.is_some(),
            step_limit_hit: rec.step_limit_hit,
            time_budget_exhausted: rec.time_advances >= run::MAX_TIME_ADVANCES,
            panics: rec.panics.iter().filter(|p| p.node == "agent").map(|p| p.message.clone()).collect(),
        };
        let mut violations = reference::check_structure(&recorded, &facts);
        let (expected, st, v2) = reference::reference(&sc, &recorded, &facts);
        violations.extend(v2);
        if keep_log && !violations.is_empty() {
            lines.push("---- reference trace ----".to_string());
            for (i, e) in expected.iter().enumerate() {
                lines.push(format!("  ref[{i}] {:?}", e));
            }
        }
        let mut out = Outcome {
            violations,
            log_hash: log.hash(),
            log_lines: lines,
            steps: rec.steps,
            decisions: rec.decisions,
            sim_time_ms: rec.sim_ms,
            ..Default::default()
        };
        let sent = rec.hist.sent.iter().filter(|s| s.3.starts_with("send prog")).count() as u64;
        out.count("programs_sent", sent);
        out.count("programs_run", st.programs_run);
        out.count("probe.program_ran_twice", st.programs_ran_twice);
        out.count("nodes_executed", st.nodes);
        out.count("trace_entries", recorded.len() as u64);
        out.count("cascade_depth_max", st.depth_max); // summed over runs by the driver; see cascade_depth_ge*
        out.count("cascade_depth_ge2_runs", (st.depth_max >= 2) as u64);
        out.count("cascade_depth_ge3_runs", (st.depth_max >= 3) as u64);
        out.count("cascade_depth_ge4_runs", (st.depth_max >= 4) as u64);
        out.count("suspends", st.suspends);
        out.count("suspends_fired", st.conts_fired);
        out.count("suspends_interleaved", st.conts_interleaved);
        out.count("suspends_pending_at_stop", st.conts_pending_at_end);
        out.count("fails_fired", st.fails);
        out.count("stops_fired", st.stops);
        out.count("direct_lane_commands_handled", st.directs);
        out.count("probe.fail_swallowed_agent_continued", st.fails_swallowed);
        out.count("fails_fatal", st.fatal as u64);
        out.count("fail_aborted_frames", st.aborted_frames);
        out.count("probe.remove_absent_key", st.remove_absent);
        out.count("probe.clear_empty_map", st.clear_empty);
        for (k, v) in &st.handlers {
            out.count(&format!("handlers.{k}"), *v);
        }
        out.count("frames_read", rec.hist.frames.len() as u64);
        out.count("clock_advances", rec.time_advances);
        out.count("step_limit_hit", rec.step_limit_hit as u64);
        out.count("agent_ended_err", rec.agent_end.as_ref().map(|e| !e.ok as u64).unwrap_or(0));
        out.count("agent_never_ended", rec.agent_end.is_none() as u64);
        out.count("stuck_writers", rec.stuck_writers.len() as u64);
        out.count("agent_panics", rec.panics.len() as u64);
        out.nontrivial = st.depth_max >= 2 || st.conts_interleaved > 0;
        out
    }

    fn shrink(&self, scenario: &Json) -> Vec<Json> {
        let Ok(sc) = serde_json::from_value::<HScenario>(scenario.clone()) else { return vec![] };
        scenario::shrink(&sc).into_iter().map(|s| serde_json::to_value(s).unwrap()).collect()
    }

    fn rule(&self) -> String {
        "one run = one seeded scenario: a table (item, event) -> handler program over v0<v1<v2<m0<m1 (a handler of item i only \
         modifies items > i), 1-3 peers sending 1-5 top-level programs (trees of set/update/remove/clear/get/effect/seq/and_then/\
         suspend/fail, depth <= 5, <= 30 nodes, unique values) as Recon to the command lane `run`, drawn pauses and sleeps, lane buffers, \
         coop budgets, schedule policy and seeds; the agent runs until idle, simulated time passes until every suspended continuation \
         has fired, then the agent is stopped; non-trivial = a cascade of depth >= 2 happened (a lifecycle handler triggered another \
         lifecycle handler) or a suspended continuation started after another top-level trigger that started after its suspension; \
         distinct = distinct hash of the full recorded history (trace entries, frames read, requests, with step numbers)"
            .into()
    }

    fn components(&self) -> Json {
        json!({
            "real": ["swimos_agent::AgentModel + derive macros (ProgAgent: ValueLane, ValueStore, MapLane x2 (HashMap/BTreeMap), CommandLane)",
                     "swimos_agent event handlers (HandlerContext, and_then, followed_by, Sequentially, Suspend/run_after, Fail, boxed/boxed_local) and run_handler",
                     "lifecycle derive (on_start/on_stop/on_command/on_event/on_set/on_update/on_remove/on_clear)",
                     "swimos_runtime::agent::AgentRouteTask", "swimos_byte_channel (+coop)", "swimos_messages / swimos_agent_protocol codecs", "swimos_recon + Form derive (programs travel as Recon)",
                     "tokio time (paused clock), mpsc, select!"],
            "stub": ["remote peers (scripted byte-channel endpoints)", "link server (refuses)", "executor (seeded, replaces the tokio scheduler)",
                     "reference interpreter (harness, pure Rust)"]
        })
    }
}
