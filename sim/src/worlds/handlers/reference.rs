//! The reference interpreter of the documented handler semantics (pure Rust, no product code) and
//! the oracles of C06.
//!
//! Semantics encoded (docs/event_handler.md, docs/lifecycle.md; where the documents are silent the
//! decision follows the code and is listed as an assumption in `checks.rs`):
//!  * a handler runs its actions in order; an action that changes an item suspends the handler, the
//!    item's lifecycle handlers run to completion (value: `on_event(new)` then `on_set(new, Some(prev))`;
//!    map: `on_update(map_after, key, prev, new)` / `on_remove(map_after, key, prev)` / `on_clear(prev_map)`),
//!    recursively, then the handler resumes and sees their effects;
//!  * `on_start` first, `on_stop` last;
//!  * a failing action ends its handler and every handler it interrupted; nothing is rolled back;
//!  * [follows the code] setting a value always triggers, also when the value is unchanged (a table program
//!    that runs twice writes the same value again); updating a key always triggers `on_update`; removing an
//!    absent key triggers nothing; clearing an empty map triggers `on_clear(empty)`;
//!  * [the document] "Fail with an error. In this case all execution will stop and the agent will fail": a
//!    failure inside a suspended continuation (or on_start / on_stop) ends the agent, `on_stop` is not run.
//!    The code does NOT do this for a failure inside a trigger that started with a command received by a
//!    lane (the error is logged, the agent carries on). The property text does not constrain whether the
//!    agent survives, so this is only counted as a probe; the reference carries on like the code so
//!    that the rest of the run can still be judged. An agent that stops there is accepted as well.
//! The order of top-level triggers (programs received on `run`, continuations of suspended futures) is
//! schedule dependent and is taken from the recorded trace.

use std::collections::BTreeMap;

use super::model::{Args, Ev, OpRec, Seen, Table, Tr, H, M};
use super::prog::{is_map, Prog, N_VALUES};
use super::scenario::{HScenario, POp, DIRECT_MIN};
use crate::core::Violation;

#[derive(Debug, Default, Clone)]
pub struct Stats {
    pub programs_run: u64,
    pub programs_ran_twice: u64,
    pub conts_fired: u64,
    pub conts_interleaved: u64,
    pub conts_pending_at_end: u64,
    pub nodes: u64,
    pub depth_max: u64,
    pub suspends: u64,
    pub fails: u64,
    pub stops: u64,
    pub directs: u64,
    pub fails_swallowed: u64,
    pub fatal: bool,
    pub remove_absent: u64,
    pub clear_empty: u64,
    pub handlers: BTreeMap<&'static str, u64>,
    pub aborted_frames: u64,
}

#[derive(Debug, Clone, Copy, PartialEq, Eq)]
enum Abort {
    /// `context.fail`.
    Fail,
    /// `context.stop`.
    Stop,
}

struct Ref<'a> {
    table: &'a Table,
    vals: [i32; N_VALUES],
    maps: [M; 2],
    out: Vec<Tr>,
    /// suspend id -> indices of the triggers that suspended it (not yet fired).
    pending: BTreeMap<i32, Vec<usize>>,
    trigger: usize,
    depth: u64,
    st: Stats,
}

impl<'a> Ref<'a> {
    fn run_handler(&mut self, h: H, args: Args) -> Result<(), Abort> {
        *self.st.handlers.entry(h.kind()).or_insert(0) += 1;
        self.out.push(Tr::Enter { h, args });
        // Cascade depth: on_start / on_stop are top-level triggers (depth 0).
        let inc = matches!(h, H::Item(..)) as u64;
        self.depth += inc;
        self.st.depth_max = self.st.depth_max.max(self.depth);
        let prog = self.table.get(h);
        let r = self.exec(&prog);
        self.depth -= inc;
        if r.is_err() {
            self.st.aborted_frames += 1;
        }
        r?;
        self.out.push(Tr::Exit { h });
        Ok(())
    }

    fn exec(&mut self, p: &Prog) -> Result<(), Abort> {
        self.st.nodes += 1;
        match p {
            Prog::Set { item, value, peek } => {
                self.out.push(Tr::Op(OpRec::Set { item: *item, value: *value }));
                let i = *item as usize;
                let prev = std::mem::replace(&mut self.vals[i], *value);
                self.run_handler(H::Item(*item, Ev::OnEvent), Args::Event { new: *value })?;
                self.run_handler(H::Item(*item, Ev::OnSet), Args::Set { prev: Some(prev), new: *value })?;
                // "... run to completion, and only then does the original handler resume and observe their effects."
                if let Some(pk) = peek {
                    let seen = self.see(*pk);
                    self.out.push(Tr::Observe { item: *pk + super::model::PEEK, seen });
                }
            }
            Prog::Update { item, key, value } => {
                self.out.push(Tr::Op(OpRec::Update { item: *item, key: *key, value: *value }));
                let m = &mut self.maps[*item as usize - N_VALUES];
                let prev = m.insert(*key, *value);
                let map = m.clone();
                self.run_handler(H::Item(*item, Ev::OnUpdate), Args::Update { map, key: *key, prev, new: *value })?;
            }
            Prog::Remove { item, key } => {
                self.out.push(Tr::Op(OpRec::Remove { item: *item, key: *key }));
                let m = &mut self.maps[*item as usize - N_VALUES];
                match m.remove(key) {
                    Some(prev) => {
                        let map = m.clone();
                        self.run_handler(H::Item(*item, Ev::OnRemove), Args::Remove { map, key: *key, prev })?;
                    }
                    None => self.st.remove_absent += 1,
                }
            }
            Prog::Clear { item } => {
                self.out.push(Tr::Op(OpRec::Clear { item: *item }));
                let prev = std::mem::take(&mut self.maps[*item as usize - N_VALUES]);
                if prev.is_empty() {
                    self.st.clear_empty += 1;
                }
                self.run_handler(H::Item(*item, Ev::OnClear), Args::Clear { prev })?;
            }
            Prog::Get { item } => {
                let seen = self.see(*item);
                self.out.push(Tr::Observe { item: *item, seen });
            }
            Prog::Effect { tag } => self.out.push(Tr::Mark(*tag)),
            Prog::Seq { items, .. } => {
                for q in items {
                    self.exec(q)?;
                }
            }
            Prog::AndThenGet { item, body } => {
                let seen = self.see(*item);
                self.out.push(Tr::Observe { item: *item, seen });
                self.exec(body)?;
            }
            Prog::Suspend { id, .. } => {
                self.out.push(Tr::Op(OpRec::Suspend { id: *id }));
                self.pending.entry(*id).or_default().push(self.trigger);
                self.st.suspends += 1;
            }
            Prog::Fail => {
                self.out.push(Tr::Failing);
                self.st.fails += 1;
                return Err(Abort::Fail);
            }
            Prog::AndThen { first, body } => {
                self.exec(first)?;
                self.exec(body)?;
            }
            Prog::Wrap { kind, inner } => {
                if *kind != 2 {
                    self.exec(inner)?;
                }
            }
            Prog::Transform { item, key, value } => {
                self.out.push(Tr::Op(OpRec::Transform { item: *item, key: *key, value: *value }));
                let m = &mut self.maps[*item as usize - N_VALUES];
                match value {
                    Some(v) => {
                        let prev = m.insert(*key, *v);
                        let map = m.clone();
                        self.run_handler(H::Item(*item, Ev::OnUpdate), Args::Update { map, key: *key, prev, new: *v })?;
                    }
                    None => match m.remove(key) {
                        Some(prev) => {
                            let map = m.clone();
                            self.run_handler(H::Item(*item, Ev::OnRemove), Args::Remove { map, key: *key, prev })?;
                        }
                        None => self.st.remove_absent += 1,
                    },
                }
            }
            Prog::Stop => {
                self.out.push(Tr::Stopping);
                self.st.stops += 1;
                return Err(Abort::Stop);
            }
        }
        Ok(())
    }

    fn see(&self, item: i32) -> Seen {
        if is_map(item) {
            Seen::Map(self.maps[item as usize - N_VALUES].clone())
        } else {
            Seen::Val(self.vals[item as usize])
        }
    }
}

pub struct RunFacts {
    /// The agent future completed (with this result).
    pub agent_ok: Option<bool>,
    /// The harness fired the stop trigger (after quiescence).
    pub stop_triggered: bool,
    pub step_limit_hit: bool,
    /// The harness stopped letting time pass before the system was quiet.
    pub time_budget_exhausted: bool,
    pub panics: Vec<String>,
}

fn fmt_ctx(t: &[Tr], at: usize) -> String {
    let lo = at.saturating_sub(5);
    let hi = (at + 3).min(t.len());
    let mut s = String::new();
    for (i, e) in t.iter().enumerate().take(hi).skip(lo) {
        s.push_str(&format!("{}[{}] {:?}", if i == at { " >>" } else { "   " }, i, e));
    }
    if at >= t.len() {
        s.push_str(" >>[end]");
    }
    s
}

/// Runs the reference on the trigger order of the recorded trace; returns the expected trace, the
/// statistics and the violations of rule C06.trace.
pub fn reference(sc: &HScenario, recorded: &[Tr], facts: &RunFacts) -> (Vec<Tr>, Stats, Vec<Violation>) {
    let table = sc.table();
    let mut programs: BTreeMap<i32, &Prog> = BTreeMap::new();
    let mut bodies: BTreeMap<i32, &Prog> = BTreeMap::new();
    let mut all: Vec<&Prog> = vec![&sc.start, &sc.stop];
    for p in &sc.peers {
        for op in &p.ops {
            if let POp::Send { id, prog } = op {
                programs.insert(*id, prog);
                all.push(prog);
            }
        }
    }
    for e in &sc.table {
        all.push(&e.prog);
    }
    for p in all {
        let mut v = vec![];
        p.suspends(&mut v);
        for (body, id) in v {
            bodies.insert(id, body);
        }
    }
    let mut r = Ref {
        table: &table,
        vals: [0; N_VALUES],
        maps: [M::new(), M::new()],
        out: vec![],
        pending: BTreeMap::new(),
        trigger: 0,
        depth: 0,
        st: Stats::default(),
    };
    let mut viol = vec![];
    // Top-level triggers in recorded order: programs / continuations (`Top{id}`) and commands sent straight to a
    // lane, recognised by their unique values >= DIRECT_MIN in the first handler they trigger.
    let mut directs: Vec<(i32, i32, i32)> = vec![];
    for p in &sc.peers {
        for op in &p.ops {
            if let POp::Direct { item, key, value } = op {
                directs.push((*item, *key, *value));
            }
        }
    }
    let order: Vec<Trig> = recorded
        .iter()
        .enumerate()
        .filter_map(|(idx, t)| match t {
            Tr::Top { id } => Some(Trig::Id(*id)),
            Tr::Enter { h: H::Item(i, Ev::OnEvent), args: Args::Event { new } } if *new >= DIRECT_MIN => Some(Trig::Direct(*i, 0, *new)),
            Tr::Enter { h: H::Item(i, Ev::OnUpdate), args: Args::Update { key, new, .. } } if *new >= DIRECT_MIN => Some(Trig::Direct(*i, *key, *new)),
            // A removal that no program asked for (the entry before it is not the program's remove): one entry
            // removed by a `@drop` / `@take` command sent straight to the lane.
            Tr::Enter { h: H::Item(i, Ev::OnRemove), args: Args::Remove { key, .. } } => {
                let by_program = idx > 0
                    && matches!(&recorded[idx - 1], Tr::Op(OpRec::Remove { item, key: k }) | Tr::Op(OpRec::Transform { item, key: k, value: None }) if item == i && k == key);
                if by_program { None } else { Some(Trig::ExtRemove(*i, *key)) }
            }
            _ => None,
        })
        .collect();
    let any_direct_drop = sc.peers.iter().any(|p| p.ops.iter().any(|op| matches!(op, POp::DirectDrop { .. })));
    let mut stopped = false;
    let mut seen_ids: BTreeMap<i32, u32> = BTreeMap::new();
    let mut first_swallowed: Option<usize> = None;

    // on_start runs before anything else.
    let mut fatal = r.run_handler(H::Start, Args::None).is_err();
    // The completion handler of a dynamic lane requested in on_init runs after on_start (on_start is the first
    // handler to run), before the agent handles anything else.
    if !fatal && sc.dyn_on_init {
        r.out.push(Tr::Mark(super::model::DYN_LANE_MARK));
    }
    if !fatal {
        for trig in order {
            r.trigger += 1;
            r.depth = 0;
            let id = match trig {
                Trig::Id(id) => id,
                Trig::ExtRemove(item, key) => {
                    if !any_direct_drop {
                        viol.push(Violation::new("C06", "C06.once", "spurious:on_remove", format!("the on_remove handler of item {item} ran for key {key} although nothing removed it")));
                        break;
                    }
                    let m = &mut r.maps[item as usize - N_VALUES];
                    let Some(prev) = m.remove(&key) else {
                        viol.push(Violation::new("C06", "C06.once", "spurious:on_remove", format!("the on_remove handler of item {item} ran for key {key}, which the map does not hold")));
                        break;
                    };
                    let map = m.clone();
                    match r.run_handler(H::Item(item, Ev::OnRemove), Args::Remove { map, key, prev }) {
                        Ok(()) => {}
                        Err(Abort::Stop) => {
                            stopped = true;
                            break;
                        }
                        Err(Abort::Fail) => {
                            let at = r.out.len() - 1;
                            if recorded.len() == at + 1 && facts.agent_ok == Some(false) {
                                fatal = true;
                                break;
                            }
                            r.st.fails_swallowed += 1;
                        }
                    }
                    continue;
                }
                Trig::Direct(item, key, value) => {
                    let sent = directs.iter().position(|d| if is_map(item) { *d == (item, key, value) } else { d.0 == item && d.2 == value });
                    let Some(pos) = sent else {
                        viol.push(Violation::new("C06", "C06.trace", "unknown_direct_command", format!("the handlers of item {item} ran for the value {value} (key {key}) that no peer sent to the lane")));
                        break;
                    };
                    directs.remove(pos);
                    r.st.directs += 1;
                    let res = if is_map(item) {
                        let m = &mut r.maps[item as usize - N_VALUES];
                        let prev = m.insert(key, value);
                        let map = m.clone();
                        r.run_handler(H::Item(item, Ev::OnUpdate), Args::Update { map, key, prev, new: value })
                    } else {
                        let prev = std::mem::replace(&mut r.vals[item as usize], value);
                        r.run_handler(H::Item(item, Ev::OnEvent), Args::Event { new: value })
                            .and_then(|_| r.run_handler(H::Item(item, Ev::OnSet), Args::Set { prev: Some(prev), new: value }))
                    };
                    match res {
                        Ok(()) => {}
                        Err(Abort::Stop) => {
                            stopped = true;
                            break;
                        }
                        Err(Abort::Fail) => {
                            // Same arm of the agent's event loop as a program received on `run`: logged, carries on.
                            let at = r.out.len() - 1;
                            if recorded.len() == at + 1 && facts.agent_ok == Some(false) {
                                fatal = true;
                                break;
                            }
                            r.st.fails_swallowed += 1;
                        }
                    }
                    continue;
                }
            };
            if id < 1000 {
                let Some(prog) = programs.get(&id) else {
                    viol.push(Violation::new("C06", "C06.trace", "unknown_program", format!("a program with id {id} ran that no peer sent")));
                    break;
                };
                let n = seen_ids.entry(id).or_insert(0);
                *n += 1;
                if *n > 1 {
                    // Not C06's business (delivery of commands); counted.
                    r.st.programs_ran_twice += 1;
                }
                r.st.programs_run += 1;
                r.out.push(Tr::Top { id });
                match r.exec(prog) {
                    Ok(()) => r.out.push(Tr::TopEnd { id }),
                    Err(Abort::Stop) => {
                        stopped = true;
                        break;
                    }
                    Err(Abort::Fail) => {
                        // The code logs the error of a handler started by a lane command and the
                        // agent carries on; the reference does the same so that the rest of the
                        // run can be judged, and reports the disagreement with the document once
                        // (see `agent_continued` below).
                        let at = r.out.len() - 1;
                        if recorded.len() == at + 1 && facts.agent_ok == Some(false) {
                            // The agent did what the document says (it failed and nothing else
                            // ran): accepted as well.
                            fatal = true;
                            break;
                        }
                        r.st.fails_swallowed += 1;
                        if first_swallowed.is_none() {
                            first_swallowed = Some(r.out.len() - 1);
                        }
                    }
                }
            } else {
                let Some(body) = bodies.get(&id) else {
                    viol.push(Violation::new("C06", "C06.trace", "unknown_continuation", format!("continuation {id} is not part of the scenario")));
                    break;
                };
                let since = match r.pending.get_mut(&id) {
                    Some(v) if !v.is_empty() => v.remove(0),
                    _ => {
                        viol.push(Violation::new(
                            "C06",
                            "C06.trace",
                            "cont_not_pending",
                            format!("continuation {id} started although no suspension of it was pending (ran twice, or before it was suspended)"),
                        ));
                        break;
                    }
                };
                r.st.conts_fired += 1;
                if r.trigger > since + 1 {
                    r.st.conts_interleaved += 1;
                }
                r.out.push(Tr::Top { id });
                match r.exec(body) {
                    Ok(()) => r.out.push(Tr::TopEnd { id }),
                    Err(Abort::Stop) => {
                        stopped = true;
                        break;
                    }
                    Err(Abort::Fail) => {
                        fatal = true;
                        break;
                    }
                }
            }
        }
    }
    let conts_before_stop: u64 = r.pending.values().map(|v| v.len() as u64).sum();
    // A handler asked the agent to stop: on_stop runs, nothing else does.
    if !fatal && viol.is_empty() && (facts.stop_triggered || stopped) {
        r.trigger += 1;
        r.depth = 0;
        let _ = r.run_handler(H::Stop, Args::None);
    }
    r.st.fatal = fatal;
    r.st.conts_pending_at_end = conts_before_stop;
    let expected = std::mem::take(&mut r.out);
    let st = r.st.clone();
    if !viol.is_empty() {
        return (expected, st, viol);
    }

    // docs/event_handler.md: a handler may "Fail with an error. In this case all execution will stop
    // and the agent will fail." The code only logs a failure inside a trigger started by a lane
    // command and carries on. The property constrains the failed handler and the handlers it
    // interrupted, not whether the agent survives, so both behaviours are accepted here and the
    // disagreement with the document is only counted (probe.fail_swallowed_agent_continued).
    let _ = first_swallowed;

    // Entry by entry comparison.
    let n = recorded.len().min(expected.len());
    let mut div = None;
    for i in 0..n {
        if recorded[i] != expected[i] {
            div = Some(i);
            break;
        }
    }
    let complete = facts.agent_ok.is_some() && !facts.step_limit_hit;
    if div.is_none() && recorded.len() != expected.len() {
        if recorded.len() > expected.len() || complete {
            div = Some(n);
        }
    }
    if let Some(i) = div {
        let ek = expected.get(i).map(|e| e.kind()).unwrap_or_else(|| "End".into());
        let gk = recorded.get(i).map(|e| e.kind()).unwrap_or_else(|| "End".into());
        viol.push(Violation::new(
            "C06",
            "C06.trace",
            &format!("exp={ek},got={gk}"),
            format!(
                "recorded trace diverges from the reference at entry {i} (agent result {:?}, fatal failure expected: {fatal}); expected: {} || recorded: {}",
                facts.agent_ok,
                fmt_ctx(&expected, i),
                fmt_ctx(recorded, i)
            ),
        ));
    } else if complete && !fatal && !stopped && facts.stop_triggered && facts.agent_ok == Some(true) && conts_before_stop > 0 && !facts.time_budget_exhausted {
        // Every sleep of a continuation is far shorter than the quiet window the harness waits for
        // before it stops the agent.
        viol.push(Violation::new(
            "C06",
            "C06.trace",
            "cont_never_ran",
            format!("{conts_before_stop} suspended continuation(s) never ran although the agent was idle for longer than their delay"),
        ));
    }
    (expected, st, viol)
}

#[derive(Debug, Clone, Copy, PartialEq, Eq)]
enum Trig {
    Id(i32),
    /// (item, key, value) of a command sent straight to a lane.
    Direct(i32, i32, i32),
    /// (item, key): one entry removed by a `@drop` / `@take` command sent straight to a map lane.
    ExtRemove(i32, i32),
}

#[derive(Debug, Clone, Copy, PartialEq, Eq)]
enum Closer {
    Exit(H),
    TopEnd(i32),
}

enum Flow {
    Done,
    /// A `Failing` entry ended the whole trigger.
    Abort,
    /// A `Stopping` entry ended the whole trigger: on_stop is next, then nothing.
    Stopped,
    /// The trace ended inside a handler.
    End,
    /// A violation was recorded; the rest of the trace is not interpreted.
    Bad,
}

/// Structural check of the recorded trace that does not know the programs: it replays the recorded
/// operations on a shadow state and demands, for every state change, exactly the handlers the
/// documents promise, properly nested, with the true previous values.
struct Chk<'a> {
    t: &'a [Tr],
    pos: usize,
    vals: [i32; N_VALUES],
    maps: [M; 2],
    viol: Vec<Violation>,
}

impl<'a> Chk<'a> {
    fn bad(&mut self, rule: &str, sig: &str, what: String) -> Flow {
        let ctx = fmt_ctx(self.t, self.pos);
        self.viol.push(Violation::new("C06", rule, sig, format!("{what}; recorded: {ctx}")));
        Flow::Bad
    }

    fn body(&mut self, closer: Closer) -> Flow {
        loop {
            let Some(e) = self.t.get(self.pos).cloned() else {
                return Flow::End;
            };
            match e {
                Tr::Exit { h } => {
                    if closer == Closer::Exit(h) {
                        self.pos += 1;
                        return Flow::Done;
                    }
                    return self.bad("C06.nesting", "exit_mismatch", format!("Exit of {h:?} while {closer:?} is the innermost open frame"));
                }
                Tr::TopEnd { id } => {
                    if closer == Closer::TopEnd(id) {
                        self.pos += 1;
                        return Flow::Done;
                    }
                    return self.bad("C06.nesting", "topend_mismatch", format!("end of trigger {id} while {closer:?} is the innermost open frame"));
                }
                Tr::Top { id } => {
                    return self.bad("C06.nesting", "overlap", format!("trigger {id} started while {closer:?} had not finished"));
                }
                Tr::Enter { h, .. } => {
                    return self.bad(
                        "C06.once",
                        &format!("spurious:{}", h.kind()),
                        format!("{h:?} was entered without a state change that triggers it (triggered twice, late, or without cause)"),
                    );
                }
                Tr::Op(op) => {
                    self.pos += 1;
                    match self.apply(op) {
                        Flow::Done => {}
                        other => return other,
                    }
                }
                Tr::Observe { item, seen } if item >= super::model::PEEK => {
                    let it = item - super::model::PEEK;
                    let truth = Seen::Val(self.vals[it as usize]);
                    if seen != truth {
                        return self.bad("C06.trace", "stale_observe:continuation", format!("the continuation of a handler that set a lane observed {seen:?} of item {it} but the state is {truth:?}"));
                    }
                    self.pos += 1;
                }
                Tr::Observe { item, seen } => {
                    let truth = if is_map(item) { Seen::Map(self.maps[item as usize - N_VALUES].clone()) } else { Seen::Val(self.vals[item as usize]) };
                    if seen != truth {
                        return self.bad("C06.trace", "stale_observe", format!("a handler observed {seen:?} of item {item} but the state is {truth:?}"));
                    }
                    self.pos += 1;
                }
                Tr::Mark(_) => self.pos += 1,
                Tr::Failing => {
                    self.pos += 1;
                    return Flow::Abort;
                }
                Tr::Stopping => {
                    self.pos += 1;
                    return Flow::Stopped;
                }
            }
        }
    }

    fn apply(&mut self, op: OpRec) -> Flow {
        match op {
            OpRec::Set { item, value } => {
                let prev = std::mem::replace(&mut self.vals[item as usize], value);
                match self.expect(H::Item(item, Ev::OnEvent), Args::Event { new: value }) {
                    Flow::Done => {}
                    other => return other,
                }
                self.expect(H::Item(item, Ev::OnSet), Args::Set { prev: Some(prev), new: value })
            }
            OpRec::Update { item, key, value } => {
                let m = &mut self.maps[item as usize - N_VALUES];
                let prev = m.insert(key, value);
                let map = m.clone();
                self.expect(H::Item(item, Ev::OnUpdate), Args::Update { map, key, prev, new: value })
            }
            OpRec::Remove { item, key } => {
                let m = &mut self.maps[item as usize - N_VALUES];
                match m.remove(&key) {
                    Some(prev) => {
                        let map = m.clone();
                        self.expect(H::Item(item, Ev::OnRemove), Args::Remove { map, key, prev })
                    }
                    // [follows the code] nothing is triggered; an Enter that follows is reported by `body`.
                    None => Flow::Done,
                }
            }
            OpRec::Clear { item } => {
                let prev = std::mem::take(&mut self.maps[item as usize - N_VALUES]);
                self.expect(H::Item(item, Ev::OnClear), Args::Clear { prev })
            }
            OpRec::Suspend { .. } => Flow::Done,
            OpRec::Transform { item, key, value } => match value {
                Some(v) => self.apply(OpRec::Update { item, key, value: v }),
                None => self.apply(OpRec::Remove { item, key }),
            },
        }
    }

    fn expect(&mut self, h: H, want: Args) -> Flow {
        let Some(e) = self.t.get(self.pos).cloned() else {
            return Flow::End;
        };
        match e {
            Tr::Enter { h: h2, args } if h2 == h => {
                if args != want {
                    let prev_differs = match (&args, &want) {
                        (Args::Set { prev: a, .. }, Args::Set { prev: b, .. }) => a != b,
                        (Args::Update { prev: a, .. }, Args::Update { prev: b, .. }) => a != b,
                        (Args::Remove { prev: a, .. }, Args::Remove { prev: b, .. }) => a != b,
                        (Args::Clear { prev: a }, Args::Clear { prev: b }) => a != b,
                        _ => false,
                    };
                    return if prev_differs {
                        self.bad("C06.prev", h.kind(), format!("{h:?} received {args:?}, the true arguments are {want:?}"))
                    } else {
                        self.bad("C06.trace", &format!("handler_args:{}", h.kind()), format!("{h:?} received {args:?}, the true arguments are {want:?}"))
                    };
                }
                self.pos += 1;
                self.body(Closer::Exit(h))
            }
            other => self.bad(
                "C06.once",
                &if other.kind() == "Peek" { format!("missing:{}:continuation_first", h.kind()) } else { format!("missing:{}", h.kind()) },
                format!("the state change must trigger {h:?} next, but the next entry is {}", other.kind()),
            ),
        }
    }
}

pub fn check_structure(recorded: &[Tr], facts: &RunFacts) -> Vec<Violation> {
    let mut c = Chk { t: recorded, pos: 0, vals: [0; N_VALUES], maps: [M::new(), M::new()], viol: vec![] };
    let complete = facts.agent_ok.is_some() && !facts.step_limit_hit;
    if recorded.is_empty() {
        if complete {
            c.viol.push(Violation::new("C06", "C06.start_stop", "no_start", "the agent ran but on_start was never entered".into()));
        }
        return c.viol;
    }
    // on_start first.
    match &recorded[0] {
        Tr::Enter { h: H::Start, .. } => {
            c.pos = 1;
        }
        other => {
            c.viol.push(Violation::new("C06", "C06.start_stop", "start_not_first", format!("the first recorded entry is {other:?}, not on_start")));
            return c.viol;
        }
    }
    let mut incomplete = false;
    let mut after_abort = false;
    let mut stop_seen = false;
    let mut fatal_abort = false;
    // A handler asked the agent to stop: the next (and last) trigger must be on_stop.
    let mut stopping = false;
    match c.body(Closer::Exit(H::Start)) {
        Flow::Done => {}
        Flow::Stopped => stopping = true,
        Flow::Abort => {
            after_abort = true;
            fatal_abort = true;
        }
        Flow::End => incomplete = true,
        Flow::Bad => return c.viol,
    }
    if !incomplete && !after_abort && !stopping && c.t.get(c.pos) == Some(&Tr::Mark(super::model::DYN_LANE_MARK)) {
        // Completion of a dynamic lane requested in on_init: right after on_start.
        c.pos += 1;
    }
    while !incomplete {
        let Some(e) = c.t.get(c.pos).cloned() else { break };
        if stop_seen {
            c.bad("C06.start_stop", "after_stop", format!("{} was recorded after on_stop", e.kind()));
            return c.viol;
        }
        if stopping && !matches!(e, Tr::Enter { h: H::Stop, .. }) {
            c.bad("C06.after_stop", &format!("continued:{}", e.kind()), format!("{} was executed after a handler asked the agent to stop: only on_stop may follow", e.kind()));
            return c.viol;
        }
        match e {
            // A command sent straight to a lane: the lane's own handlers are the top level.
            Tr::Enter { h: H::Item(item, Ev::OnEvent), args: Args::Event { new } } if new >= DIRECT_MIN => {
                after_abort = false;
                match c.apply(OpRec::Set { item, value: new }) {
                    Flow::Done => {}
                    Flow::Stopped => stopping = true,
                    Flow::Abort => {
                        after_abort = true;
                        fatal_abort = false;
                    }
                    Flow::End => incomplete = true,
                    Flow::Bad => return c.viol,
                }
            }
            Tr::Enter { h: H::Item(item, Ev::OnUpdate), args: Args::Update { key, new, .. } } if new >= DIRECT_MIN => {
                after_abort = false;
                match c.apply(OpRec::Update { item, key, value: new }) {
                    Flow::Done => {}
                    Flow::Stopped => stopping = true,
                    Flow::Abort => {
                        after_abort = true;
                        fatal_abort = false;
                    }
                    Flow::End => incomplete = true,
                    Flow::Bad => return c.viol,
                }
            }
            // One entry removed by a `@drop` / `@take` command sent straight to a map lane.
            Tr::Enter { h: H::Item(item, Ev::OnRemove), args: Args::Remove { key, .. } } => {
                after_abort = false;
                if !is_map(item) || !c.maps[item as usize - N_VALUES].contains_key(&key) {
                    c.bad("C06.once", "spurious:on_remove", format!("on_remove of item {item} ran for key {key}, which the map does not hold"));
                    return c.viol;
                }
                match c.apply(OpRec::Remove { item, key }) {
                    Flow::Done => {}
                    Flow::Stopped => stopping = true,
                    Flow::Abort => {
                        after_abort = true;
                        fatal_abort = false;
                    }
                    Flow::End => incomplete = true,
                    Flow::Bad => return c.viol,
                }
            }
            Tr::Top { id } => {
                after_abort = false;
                c.pos += 1;
                match c.body(Closer::TopEnd(id)) {
                    Flow::Done => {}
                    Flow::Stopped => stopping = true,
                    Flow::Abort => {
                        after_abort = true;
                        fatal_abort = id > 1000;
                    }
                    Flow::End => incomplete = true,
                    Flow::Bad => return c.viol,
                }
            }
            Tr::Enter { h: H::Stop, .. } => {
                after_abort = false;
                c.pos += 1;
                stop_seen = true;
                match c.body(Closer::Exit(H::Stop)) {
                    Flow::Done | Flow::Abort | Flow::Stopped => {}
                    Flow::End => incomplete = true,
                    Flow::Bad => return c.viol,
                }
            }
            Tr::Enter { h: H::Start, .. } => {
                c.bad("C06.start_stop", "start_twice", "on_start was entered a second time".into());
                return c.viol;
            }
            other => {
                if after_abort {
                    c.bad(
                        "C06.after_fail",
                        &format!("continued:{}", other.kind()),
                        format!("{} was executed after a handler failed: something of the failed handler or of a handler it interrupted went on", other.kind()),
                    );
                } else {
                    c.bad("C06.nesting", &format!("outside:{}", other.kind()), format!("{} was recorded outside any trigger", other.kind()));
                }
                return c.viol;
            }
        }
    }
    if incomplete && complete {
        c.bad("C06.nesting", "incomplete", "the agent ended but a handler that was entered never completed (and did not fail)".into());
        return c.viol;
    }
    if complete && (facts.stop_triggered || stopping) && facts.agent_ok == Some(true) && !stop_seen && !fatal_abort {
        c.viol.push(Violation::new("C06", "C06.start_stop", "stop_missing", "the agent stopped cleanly but on_stop was never entered".into()));
    }
    for p in &facts.panics {
        c.viol.push(Violation::new("C06", "C06.nesting", "panic", format!("the agent panicked while running handlers: {p}")));
    }
    c.viol
}
