//! The harness agent `ProgAgent` (a real `AgentModel` built with the derive macros), its lifecycle
//! (every handler records `Enter`, runs the program the scenario's table assigns to it, records
//! `Exit`) and the interpretation of `Prog` into real event handlers.

use std::collections::{BTreeMap, HashMap};
use std::sync::{Arc, Mutex};
use std::time::Duration;

use serde::{Deserialize, Serialize};
use swimos::agent::agent_lifecycle::HandlerContext;
use swimos::agent::event_handler::{
    BoxEventHandler, EventHandler, HandlerActionExt, LocalBoxEventHandler, Sequentially, UnitHandler,
};
use swimos::agent::lanes::{CommandLane, MapLane, ValueLane};
use swimos::agent::stores::ValueStore;
use swimos::agent::{lifecycle, projections, AgentLaneModel};

use super::prog::{Prog, ProgMsg};
use crate::core::exec::now_step;

#[projections]
#[derive(AgentLaneModel)]
pub struct ProgAgent {
    #[item(transient)]
    v0: ValueLane<i32>,
    #[item(transient)]
    v1: ValueStore<i32>,
    #[item(transient)]
    v2: ValueLane<i32>,
    #[item(transient)]
    m0: MapLane<i32, i32>,
    #[item(transient)]
    m1: MapLane<i32, i32, BTreeMap<i32, i32>>,
    #[item(transient)]
    run: CommandLane<ProgMsg>,
}

#[derive(Debug, Clone, Copy, PartialEq, Eq, PartialOrd, Ord, Serialize, Deserialize)]
pub enum Ev {
    OnEvent,
    OnSet,
    OnUpdate,
    OnRemove,
    OnClear,
}

impl Ev {
    pub fn name(&self) -> &'static str {
        match self {
            Ev::OnEvent => "on_event",
            Ev::OnSet => "on_set",
            Ev::OnUpdate => "on_update",
            Ev::OnRemove => "on_remove",
            Ev::OnClear => "on_clear",
        }
    }
}

/// A lifecycle handler.
#[derive(Debug, Clone, Copy, PartialEq, Eq, PartialOrd, Ord)]
pub enum H {
    Start,
    Stop,
    Item(i32, Ev),
}

impl H {
    pub fn kind(&self) -> &'static str {
        match self {
            H::Start => "on_start",
            H::Stop => "on_stop",
            H::Item(_, e) => e.name(),
        }
    }
}

pub type M = BTreeMap<i32, i32>;

/// The arguments a lifecycle handler was called with.
#[derive(Debug, Clone, PartialEq, Eq)]
pub enum Args {
    None,
    Event { new: i32 },
    Set { prev: Option<i32>, new: i32 },
    /// `map` = the map passed to the handler (contents after the update).
    Update { map: M, key: i32, prev: Option<i32>, new: i32 },
    Remove { map: M, key: i32, prev: i32 },
    Clear { prev: M },
}

#[derive(Debug, Clone, PartialEq, Eq)]
pub enum Seen {
    Val(i32),
    Map(M),
}

/// Recorded immediately before the action is executed.
#[derive(Debug, Clone, PartialEq, Eq)]
pub enum OpRec {
    Set { item: i32, value: i32 },
    Update { item: i32, key: i32, value: i32 },
    Remove { item: i32, key: i32 },
    Clear { item: i32 },
    Suspend { id: i32 },
    Transform { item: i32, key: i32, value: Option<i32> },
}

#[derive(Debug, Clone, PartialEq, Eq)]
pub enum Tr {
    /// A top-level trigger starts: a program received on `run` (`id` < 1000) or a suspended
    /// continuation (`id` = id of the `Suspend` node, > 1000).
    Top { id: i32 },
    TopEnd { id: i32 },
    Enter { h: H, args: Args },
    Exit { h: H },
    Op(OpRec),
    Observe { item: i32, seen: Seen },
    Mark(i32),
    /// Recorded immediately before `context.fail(..)` is executed.
    Failing,
    /// Recorded immediately before `context.stop()` is executed.
    Stopping,
}

impl Tr {
    /// Kind of entry without values (used in violation signatures).
    pub fn kind(&self) -> String {
        match self {
            Tr::Top { id } => if *id > 1000 { "Cont".into() } else { "Top".into() },
            Tr::TopEnd { id } => if *id > 1000 { "ContEnd".into() } else { "TopEnd".into() },
            Tr::Enter { h, .. } => format!("Enter.{}", h.kind()),
            Tr::Exit { h } => format!("Exit.{}", h.kind()),
            Tr::Op(OpRec::Set { .. }) => "Op.set".into(),
            Tr::Op(OpRec::Update { .. }) => "Op.update".into(),
            Tr::Op(OpRec::Remove { .. }) => "Op.remove".into(),
            Tr::Op(OpRec::Clear { .. }) => "Op.clear".into(),
            Tr::Op(OpRec::Suspend { .. }) => "Op.suspend".into(),
            Tr::Op(OpRec::Transform { .. }) => "Op.transform".into(),
            // (What the continuation of a `set_value(..).and_then_contextual(..)` saw: item number + PEEK.)
            Tr::Observe { item, .. } if *item >= PEEK => "Peek".into(),
            Tr::Observe { .. } => "Observe".into(),
            Tr::Mark(_) => "Mark".into(),
            Tr::Failing => "Failing".into(),
            Tr::Stopping => "Stopping".into(),
        }
    }
}

/// Offset that marks an observation made by a continuation closure (see `Prog::Set::peek`).
pub const PEEK: i32 = 100;

pub type SharedTrace = Arc<Mutex<Vec<(u64, Tr)>>>;

fn push(t: &SharedTrace, tr: Tr) {
    t.lock().unwrap().push((now_step(), tr));
}

/// The (item, event) -> program table of a scenario.
#[derive(Debug, Clone, Default)]
pub struct Table {
    pub start: Option<Prog>,
    pub stop: Option<Prog>,
    pub items: BTreeMap<(i32, Ev), Prog>,
}

impl Table {
    pub fn get(&self, h: H) -> Prog {
        match h {
            H::Start => self.start.clone(),
            H::Stop => self.stop.clone(),
            H::Item(i, e) => self.items.get(&(i, e)).cloned(),
        }
        .unwrap_or_else(Prog::empty)
    }
}

#[derive(Debug)]
pub struct ProgFail;

impl std::fmt::Display for ProgFail {
    fn fmt(&self, f: &mut std::fmt::Formatter<'_>) -> std::fmt::Result {
        write!(f, "generated program failed")
    }
}

impl std::error::Error for ProgFail {}

type Ctx = HandlerContext<ProgAgent>;
pub type LocalBoxed = LocalBoxEventHandler<'static, ProgAgent>;
pub type SendBoxed = BoxEventHandler<'static, ProgAgent>;

/// Defines the interpretation of a `Prog` as a boxed event handler, once with `boxed_local()`
/// (lifecycle handlers, continuations built inside a suspended future) and once with `boxed()`
/// (`run_after` demands a `Send` handler).
macro_rules! def_build {
    ($build:ident, $cont:ident, $ty:ty, $boxm:ident) => {
        pub fn $build(context: Ctx, prog: &Prog, trace: &SharedTrace) -> $ty {
            match prog {
                Prog::Set { item, value, peek: Some(pk) } => {
                    let (i, v, pk) = (*item, *value, *pk);
                    let t = trace.clone();
                    let rec = context.effect(move || push(&t, Tr::Op(OpRec::Set { item: i, value: v })));
                    let t2 = trace.clone();
                    let look = move |agent: &ProgAgent, _: ()| {
                        let seen = match pk {
                            0 => agent.v0.read(|x| *x),
                            1 => agent.v1.read(|x| *x),
                            _ => agent.v2.read(|x| *x),
                        };
                        push(&t2, Tr::Observe { item: pk + PEEK, seen: Seen::Val(seen) });
                        UnitHandler::default()
                    };
                    match i {
                        0 => rec.followed_by(context.set_value(ProgAgent::V0, v).and_then_contextual(look)).$boxm(),
                        1 => rec.followed_by(context.set_value(ProgAgent::V1, v).and_then_contextual(look)).$boxm(),
                        _ => rec.followed_by(context.set_value(ProgAgent::V2, v).and_then_contextual(look)).$boxm(),
                    }
                }
                Prog::Set { item, value, peek: None } => {
                    let (i, v) = (*item, *value);
                    let t = trace.clone();
                    let rec = context.effect(move || push(&t, Tr::Op(OpRec::Set { item: i, value: v })));
                    match i {
                        0 => rec.followed_by(context.set_value(ProgAgent::V0, v)).$boxm(),
                        1 => rec.followed_by(context.set_value(ProgAgent::V1, v)).$boxm(),
                        _ => rec.followed_by(context.set_value(ProgAgent::V2, v)).$boxm(),
                    }
                }
                Prog::Update { item, key, value } => {
                    let (i, k, v) = (*item, *key, *value);
                    let t = trace.clone();
                    let rec = context.effect(move || push(&t, Tr::Op(OpRec::Update { item: i, key: k, value: v })));
                    match i {
                        3 => rec.followed_by(context.update(ProgAgent::M0, k, v)).$boxm(),
                        _ => rec.followed_by(context.update(ProgAgent::M1, k, v)).$boxm(),
                    }
                }
                Prog::Remove { item, key } => {
                    let (i, k) = (*item, *key);
                    let t = trace.clone();
                    let rec = context.effect(move || push(&t, Tr::Op(OpRec::Remove { item: i, key: k })));
                    match i {
                        3 => rec.followed_by(context.remove(ProgAgent::M0, k)).$boxm(),
                        _ => rec.followed_by(context.remove(ProgAgent::M1, k)).$boxm(),
                    }
                }
                Prog::Clear { item } => {
                    let i = *item;
                    let t = trace.clone();
                    let rec = context.effect(move || push(&t, Tr::Op(OpRec::Clear { item: i })));
                    match i {
                        3 => rec.followed_by(context.clear(ProgAgent::M0)).$boxm(),
                        _ => rec.followed_by(context.clear(ProgAgent::M1)).$boxm(),
                    }
                }
                Prog::Get { item } => {
                    let i = *item;
                    let t = trace.clone();
                    match i {
                        0 => context
                            .get_value(ProgAgent::V0)
                            .map(move |v: i32| push(&t, Tr::Observe { item: i, seen: Seen::Val(v) }))
                            .$boxm(),
                        1 => context
                            .get_value(ProgAgent::V1)
                            .map(move |v: i32| push(&t, Tr::Observe { item: i, seen: Seen::Val(v) }))
                            .$boxm(),
                        2 => context
                            .get_value(ProgAgent::V2)
                            .map(move |v: i32| push(&t, Tr::Observe { item: i, seen: Seen::Val(v) }))
                            .$boxm(),
                        3 => context
                            .get_map(ProgAgent::M0)
                            .map(move |m: HashMap<i32, i32>| {
                                push(&t, Tr::Observe { item: i, seen: Seen::Map(m.into_iter().collect()) })
                            })
                            .$boxm(),
                        _ => context
                            .get_map(ProgAgent::M1)
                            .map(move |m: BTreeMap<i32, i32>| push(&t, Tr::Observe { item: i, seen: Seen::Map(m) }))
                            .$boxm(),
                    }
                }
                Prog::Effect { tag } => {
                    let tag = *tag;
                    let t = trace.clone();
                    context.effect(move || push(&t, Tr::Mark(tag))).$boxm()
                }
                Prog::Seq { fold, items } => {
                    let hs: Vec<$ty> = items.iter().map(|p| $build(context, p, trace)).collect();
                    if *fold {
                        let mut acc: $ty = UnitHandler::default().$boxm();
                        for h in hs {
                            acc = acc.followed_by(h).$boxm();
                        }
                        acc
                    } else {
                        Sequentially::new(hs).$boxm()
                    }
                }
                Prog::AndThenGet { item, body } => {
                    let i = *item;
                    let t = trace.clone();
                    let body_h = $build(context, body, trace);
                    match i {
                        0 => context
                            .get_value(ProgAgent::V0)
                            .and_then(move |v: i32| {
                                context
                                    .effect(move || push(&t, Tr::Observe { item: i, seen: Seen::Val(v) }))
                                    .followed_by(body_h)
                            })
                            .$boxm(),
                        1 => context
                            .get_value(ProgAgent::V1)
                            .and_then(move |v: i32| {
                                context
                                    .effect(move || push(&t, Tr::Observe { item: i, seen: Seen::Val(v) }))
                                    .followed_by(body_h)
                            })
                            .$boxm(),
                        2 => context
                            .get_value(ProgAgent::V2)
                            .and_then(move |v: i32| {
                                context
                                    .effect(move || push(&t, Tr::Observe { item: i, seen: Seen::Val(v) }))
                                    .followed_by(body_h)
                            })
                            .$boxm(),
                        3 => context
                            .get_map(ProgAgent::M0)
                            .and_then(move |m: HashMap<i32, i32>| {
                                context
                                    .effect(move || {
                                        push(&t, Tr::Observe { item: i, seen: Seen::Map(m.into_iter().collect()) })
                                    })
                                    .followed_by(body_h)
                            })
                            .$boxm(),
                        _ => context
                            .get_map(ProgAgent::M1)
                            .and_then(move |m: BTreeMap<i32, i32>| {
                                context
                                    .effect(move || push(&t, Tr::Observe { item: i, seen: Seen::Map(m) }))
                                    .followed_by(body_h)
                            })
                            .$boxm(),
                    }
                }
                Prog::Suspend { id, delay_ms, after, body } => {
                    let id = *id;
                    let d = Duration::from_millis(*delay_ms as u64);
                    let t = trace.clone();
                    let rec = context.effect(move || push(&t, Tr::Op(OpRec::Suspend { id })));
                    if *after {
                        let cont = cont_send(context, id, body, trace);
                        rec.followed_by(context.run_after(d, cont)).$boxm()
                    } else {
                        let b = body.as_ref().clone();
                        let t2 = trace.clone();
                        rec.followed_by(context.suspend(async move {
                            tokio::time::sleep(d).await;
                            cont_local(context, id, &b, &t2)
                        }))
                        .$boxm()
                    }
                }
                Prog::Fail => {
                    let t = trace.clone();
                    context
                        .effect(move || push(&t, Tr::Failing))
                        .followed_by(context.fail::<(), ProgFail>(ProgFail))
                        .$boxm()
                }
                Prog::AndThen { first, body } => {
                    let first_h = $build(context, first, trace);
                    let body_h = $build(context, body, trace);
                    first_h.and_then(move |_: ()| body_h).$boxm()
                }
                Prog::Stop => {
                    let t = trace.clone();
                    context.effect(move || push(&t, Tr::Stopping)).followed_by(context.stop()).$boxm()
                }
                Prog::Wrap { kind, inner } => {
                    let h = $build(context, inner, trace);
                    match kind {
                        0 => Some(h).discard().$boxm(),
                        1 => h.map(|_: ()| ()).$boxm(),
                        _ => {
                            let _unused = h;
                            None::<$ty>.discard().$boxm()
                        }
                    }
                }
                Prog::Transform { item, key, value } => {
                    let (i, k, v) = (*item, *key, *value);
                    let t = trace.clone();
                    let rec = context.effect(move || push(&t, Tr::Op(OpRec::Transform { item: i, key: k, value: v })));
                    match i {
                        3 => rec.followed_by(context.transform_entry(ProgAgent::M0, k, move |_: Option<&i32>| v)).$boxm(),
                        _ => rec.followed_by(context.transform_entry(ProgAgent::M1, k, move |_: Option<&i32>| v)).$boxm(),
                    }
                }
            }
        }

        /// A top-level trigger: `Top{id}`, the program, `TopEnd{id}`.
        pub fn $cont(context: Ctx, id: i32, prog: &Prog, trace: &SharedTrace) -> $ty {
            let t1 = trace.clone();
            let t2 = trace.clone();
            context
                .effect(move || push(&t1, Tr::Top { id }))
                .followed_by($build(context, prog, trace))
                .followed_by(context.effect(move || push(&t2, Tr::TopEnd { id })))
                .$boxm()
        }
    };
}

def_build!(build_local, cont_local, LocalBoxed, boxed_local);
def_build!(build_send, cont_send, SendBoxed, boxed);

#[derive(Clone)]
pub struct ProgLifecycle {
    pub trace: SharedTrace,
    pub table: Arc<Table>,
}

impl ProgLifecycle {
    fn handler(&self, context: Ctx, h: H, args: Args) -> LocalBoxed {
        let prog = self.table.get(h);
        let t1 = self.trace.clone();
        let t2 = self.trace.clone();
        context
            .effect(move || push(&t1, Tr::Enter { h, args }))
            .followed_by(build_local(context, &prog, &self.trace))
            .followed_by(context.effect(move || push(&t2, Tr::Exit { h })))
            .boxed_local()
    }
}

fn hm(m: &HashMap<i32, i32>) -> M {
    m.iter().map(|(k, v)| (*k, *v)).collect()
}

#[lifecycle(ProgAgent)]
impl ProgLifecycle {
    #[on_start]
    pub fn on_start(&self, context: Ctx) -> impl EventHandler<ProgAgent> {
        self.handler(context, H::Start, Args::None)
    }

    #[on_stop]
    pub fn on_stop(&self, context: Ctx) -> impl EventHandler<ProgAgent> {
        self.handler(context, H::Stop, Args::None)
    }

    #[on_command(run)]
    pub fn on_run(&self, context: Ctx, msg: &ProgMsg) -> impl EventHandler<ProgAgent> {
        // A message that does not decode to a program runs `Mark(-1)` (never generated).
        let prog = Prog::from_code(&msg.code).unwrap_or(Prog::Effect { tag: -1 });
        cont_local(context, msg.id, &prog, &self.trace)
    }

    #[on_event(v0)]
    pub fn v0_event(&self, context: Ctx, value: &i32) -> impl EventHandler<ProgAgent> {
        self.handler(context, H::Item(0, Ev::OnEvent), Args::Event { new: *value })
    }

    #[on_set(v0)]
    pub fn v0_set(&self, context: Ctx, value: &i32, prev: Option<i32>) -> impl EventHandler<ProgAgent> {
        self.handler(context, H::Item(0, Ev::OnSet), Args::Set { prev, new: *value })
    }

    #[on_event(v1)]
    pub fn v1_event(&self, context: Ctx, value: &i32) -> impl EventHandler<ProgAgent> {
        self.handler(context, H::Item(1, Ev::OnEvent), Args::Event { new: *value })
    }

    #[on_set(v1)]
    pub fn v1_set(&self, context: Ctx, value: &i32, prev: Option<i32>) -> impl EventHandler<ProgAgent> {
        self.handler(context, H::Item(1, Ev::OnSet), Args::Set { prev, new: *value })
    }

    #[on_event(v2)]
    pub fn v2_event(&self, context: Ctx, value: &i32) -> impl EventHandler<ProgAgent> {
        self.handler(context, H::Item(2, Ev::OnEvent), Args::Event { new: *value })
    }

    #[on_set(v2)]
    pub fn v2_set(&self, context: Ctx, value: &i32, prev: Option<i32>) -> impl EventHandler<ProgAgent> {
        self.handler(context, H::Item(2, Ev::OnSet), Args::Set { prev, new: *value })
    }

    #[on_update(m0)]
    pub fn m0_update(
        &self,
        context: Ctx,
        map: &HashMap<i32, i32>,
        key: i32,
        prev: Option<i32>,
        new_value: &i32,
    ) -> impl EventHandler<ProgAgent> {
        self.handler(context, H::Item(3, Ev::OnUpdate), Args::Update { map: hm(map), key, prev, new: *new_value })
    }

    #[on_remove(m0)]
    pub fn m0_remove(&self, context: Ctx, map: &HashMap<i32, i32>, key: i32, prev: i32) -> impl EventHandler<ProgAgent> {
        self.handler(context, H::Item(3, Ev::OnRemove), Args::Remove { map: hm(map), key, prev })
    }

    #[on_clear(m0)]
    pub fn m0_clear(&self, context: Ctx, prev: HashMap<i32, i32>) -> impl EventHandler<ProgAgent> {
        self.handler(context, H::Item(3, Ev::OnClear), Args::Clear { prev: hm(&prev) })
    }

    #[on_update(m1)]
    pub fn m1_update(
        &self,
        context: Ctx,
        map: &BTreeMap<i32, i32>,
        key: i32,
        prev: Option<i32>,
        new_value: &i32,
    ) -> impl EventHandler<ProgAgent> {
        self.handler(context, H::Item(4, Ev::OnUpdate), Args::Update { map: map.clone(), key, prev, new: *new_value })
    }

    #[on_remove(m1)]
    pub fn m1_remove(&self, context: Ctx, map: &BTreeMap<i32, i32>, key: i32, prev: i32) -> impl EventHandler<ProgAgent> {
        self.handler(context, H::Item(4, Ev::OnRemove), Args::Remove { map: map.clone(), key, prev })
    }

    #[on_clear(m1)]
    pub fn m1_clear(&self, context: Ctx, prev: BTreeMap<i32, i32>) -> impl EventHandler<ProgAgent> {
        self.handler(context, H::Item(4, Ev::OnClear), Args::Clear { prev })
    }
}

/// Wraps the derived lifecycle and adds an `on_init` step that asks for a dynamic lane; the completion handler of
/// that request records `Mark(DYN_LANE_MARK)`. The documents say on_start is the first handler to run, so the mark
/// belongs right after the on_start block.
pub const DYN_LANE_MARK: i32 = -7;

#[derive(Clone)]
pub struct WithInit<L> {
    pub inner: L,
    pub trace: SharedTrace,
    pub open_dyn: bool,
}

impl<L: swimos::agent::agent_lifecycle::on_init::OnInit<ProgAgent>> swimos::agent::agent_lifecycle::on_init::OnInit<ProgAgent> for WithInit<L> {
    fn initialize(
        &self,
        action_context: &mut swimos::agent::event_handler::ActionContext<ProgAgent>,
        meta: swimos_agent::AgentMetadata,
        context: &ProgAgent,
    ) {
        self.inner.initialize(action_context, meta, context);
        if self.open_dyn {
            use swimos::agent::event_handler::HandlerAction;
            let t = self.trace.clone();
            let hc: Ctx = HandlerContext::default();
            let mut h = hc.open_value_lane("dyn0", move |_res| hc.effect(move || push(&t, Tr::Mark(DYN_LANE_MARK))));
            let _ = h.step(action_context, meta, context);
        }
    }
}

impl<L: swimos::agent::agent_lifecycle::on_start::OnStart<ProgAgent>> swimos::agent::agent_lifecycle::on_start::OnStart<ProgAgent> for WithInit<L> {
    fn on_start(&self) -> impl EventHandler<ProgAgent> + '_ {
        self.inner.on_start()
    }
}

impl<L: swimos::agent::agent_lifecycle::on_stop::OnStop<ProgAgent>> swimos::agent::agent_lifecycle::on_stop::OnStop<ProgAgent> for WithInit<L> {
    fn on_stop(&self) -> impl EventHandler<ProgAgent> + '_ {
        self.inner.on_stop()
    }
}

impl<L: swimos::agent::agent_lifecycle::on_timer::OnTimer<ProgAgent>> swimos::agent::agent_lifecycle::on_timer::OnTimer<ProgAgent> for WithInit<L> {
    fn on_timer(&self, timer_id: u64) -> impl EventHandler<ProgAgent> + '_ {
        self.inner.on_timer(timer_id)
    }
}

impl<L: swimos::agent::agent_lifecycle::item_event::ItemEvent<ProgAgent>> swimos::agent::agent_lifecycle::item_event::ItemEvent<ProgAgent> for WithInit<L> {
    type ItemEventHandler<'a> = L::ItemEventHandler<'a> where Self: 'a;

    fn item_event<'a>(&'a self, context: &ProgAgent, item_name: &'a str) -> Option<Self::ItemEventHandler<'a>> {
        self.inner.item_event(context, item_name)
    }
}
