//! Executes an `AgentScenario`: the real `AgentModel` + real agent runtime as one future, polled
//! by the simulated executor together with scripted peers, a link server and command targets.

use std::cell::RefCell;
use std::collections::{BTreeMap, HashMap};
use std::future::Future;
use std::num::NonZeroUsize;
use std::pin::Pin;
use std::rc::Rc;
use std::sync::Arc;
use std::task::{Context, Poll, Waker};
use std::time::Duration;

use bytes::{Bytes, BytesMut};
use parking_lot::Mutex as PlMutex;
use swimos_agent::agent_model::AgentModel;
use swimos_api::address::RelativeAddress;
use swimos_api::agent::{AgentConfig, LaneConfig};
use swimos_api::error::StoreError;
use swimos_messages::protocol::{
    Notification, Operation, RawRequestMessageDecoder, RawRequestMessageEncoder,
    RawResponseMessageDecoder, RequestMessage,
};
use swimos_runtime::agent::reporting::{UplinkReportReader, UplinkReporter};
use swimos_runtime::agent::{
    AgentAttachmentRequest, AgentExecError, AgentRouteChannels, AgentRouteDescriptor,
    AgentRouteTask, AgentRuntimeConfig, CombinedAgentConfig, CommanderKey, DisconnectionReason,
    LinkRequest, NodeReporting, UplinkReporterRegistration,
};
use swimos_utilities::byte_channel::{byte_channel, ByteReader, ByteWriter};
use swimos_utilities::future::RetryStrategy;
use swimos_utilities::trigger::{self, promise};
use tokio::io::{AsyncRead, AsyncWriteExt, ReadBuf};
use tokio::sync::mpsc;
use tokio_util::codec::{Decoder, Encoder};
use uuid::Uuid;

use super::model::{SharedTruth, SimAgent, SimLifecycle, Truth, TruthEv};
use super::scenario::*;
use super::store::{Durable, RecordingStore, StoreFault, StoreOp, INJECTED_KILL};
use crate::core::exec::{now_step, Exec, NodeFut, Policy, RunEnd, Scheduler};
use crate::core::log::EventLog;
use crate::core::rng::Rng;

pub const NODE_URI: &str = "/sim";

#[derive(Debug, Clone, PartialEq, Eq)]
pub enum FrameKind {
    Linked,
    Synced,
    Unlinked(Option<Vec<u8>>),
    Event(Vec<u8>),
}

#[derive(Debug, Clone)]
pub struct Frame {
    pub step: u64,
    pub peer: u32,
    pub node: String,
    pub lane: String,
    pub kind: FrameKind,
    /// Which agent incarnation (0 = first, 1 = after restart).
    pub epoch: u32,
}

#[derive(Debug, Clone)]
pub struct Sent {
    pub start: u64,
    pub end: u64,
    pub peer: u32,
    pub op: Op,
    pub ok: bool,
    pub epoch: u32,
    /// Simulated time (ms since the start of the run) at which the operation was completed.
    pub end_ms: u64,
}

#[derive(Debug, Clone)]
pub struct TargetFrame {
    pub step: u64,
    pub target: String,
    pub lane: String,
    pub body: Vec<u8>,
    pub chan: u32,
}

#[derive(Debug, Clone)]
pub struct ReportSnap {
    pub step: u64,
    pub lane: String,
    pub link_count: u64,
    pub event_count: u64,
    pub command_count: u64,
}

#[derive(Debug, Default)]
pub struct Hist {
    pub frames: Vec<Frame>,
    pub sent: Vec<Sent>,
    pub disconnects: Vec<(u64, u32, String)>,
    pub attached: Vec<(u64, u32)>,
    pub reader_end: Vec<(u64, u32, String)>,
    pub target_frames: Vec<TargetFrame>,
    pub commander_requests: Vec<(u64, String)>,
    pub target_eof: Vec<(u64, u32)>,
    /// (step, channel): the target closed its end of the channel.
    pub target_closed: Vec<(u64, u32)>,
    pub marks: Vec<(u64, String)>,
    pub reports: Vec<ReportSnap>,
    /// (step, peer): the reader half stopped reading (until the drain phase).
    pub freezes: Vec<(u64, u32)>,
    /// Simulated time (ms) at which a peer's attachment was confirmed / the runtime reported it gone: (peer, ms).
    pub attached_ms: Vec<(u32, u64)>,
    pub disconnect_ms: Vec<(u32, u64)>,
}

pub type SharedHist = Rc<RefCell<Hist>>;

/// State shared between the two halves of a peer and the harness.
#[derive(Default)]
pub struct PeerShared {
    pub linked: HashMap<String, u64>,
    pub synced: HashMap<String, u64>,
    pub writer_waker: Option<Waker>,
    pub reader_waker: Option<Waker>,
    pub drain: bool,
    pub close_read: bool,
    pub writer_done: bool,
    pub writer_blocked: bool,
    pub barrier_release: u64,
    pub reader_gone: bool,
    pub frozen: bool,
    /// The writer half is in a `Sleep` op (waiting for simulated time to pass).
    pub sleeping: bool,
    /// The remote this peer takes over from has been reported gone by the runtime.
    pub may_attach: bool,
}

thread_local! {
    /// Peers waiting to come back under the id of another one: (epoch, peer they wait for, their shared state).
    static REATTACH_WAITERS: RefCell<Vec<(u32, u32, SharedPeer)>> = const { RefCell::new(Vec::new()) };
    /// Every peer's shared state: (epoch, peer id, state).
    static PEER_STATES: RefCell<Vec<(u32, u32, SharedPeer)>> = const { RefCell::new(Vec::new()) };
}

type SharedPeer = Rc<RefCell<PeerShared>>;

struct Yield(bool);
impl Future for Yield {
    type Output = ();
    fn poll(mut self: Pin<&mut Self>, cx: &mut Context<'_>) -> Poll<()> {
        if self.0 {
            Poll::Ready(())
        } else {
            self.0 = true;
            cx.waker().wake_by_ref();
            Poll::Pending
        }
    }
}

async fn yield_n(n: u32) {
    for _ in 0..n {
        Yield(false).await;
    }
}

fn peer_uuid(id: u32, epoch: u32) -> Uuid {
    Uuid::from_u128(0x1000 + id as u128 + ((epoch as u128) << 32))
}

/// Waits until `cond` holds; parks the writer (the reader half wakes it on every frame).
struct WaitFor<F> {
    shared: SharedPeer,
    cond: F,
}

impl<F: FnMut(&PeerShared) -> bool + Unpin> Future for WaitFor<F> {
    type Output = ();
    fn poll(mut self: Pin<&mut Self>, cx: &mut Context<'_>) -> Poll<()> {
        let this = &mut *self;
        let mut s = this.shared.borrow_mut();
        if (this.cond)(&s) {
            s.writer_blocked = false;
            Poll::Ready(())
        } else {
            s.writer_waker = Some(cx.waker().clone());
            s.writer_blocked = true;
            Poll::Pending
        }
    }
}

async fn peer_writer(
    script: PeerScript,
    epoch: u32,
    att_tx: mpsc::Sender<AgentAttachmentRequest>,
    hist: SharedHist,
    shared: SharedPeer,
    spawn: SpawnQueue,
    budget: usize,
) {
    PEER_STATES.with(|w| w.borrow_mut().push((epoch, script.id, shared.clone())));
    yield_n(script.attach_delay).await;
    if script.attach_after_ms > 0 {
        shared.borrow_mut().sleeping = true;
        tokio::time::sleep(Duration::from_millis(script.attach_after_ms)).await;
        shared.borrow_mut().sleeping = false;
    }
    if let (Some(of), true) = (script.reattach_of, script.reattach_immediately) {
        // Under the id of a remote that is still attached: wait only until that one has attached.
        WaitFor { shared: shared.clone(), cond: |s: &PeerShared| s.drain || s.barrier_release > 0 }.await;
        hist.borrow_mut().marks.push((now_step(), format!("peer{} attaches as a duplicate of peer{}", script.id, of)));
    } else if let Some(of) = script.reattach_of {
        // Wait until the runtime has reported the earlier remote of that id gone, its script is over and the system
        // has been idle once since (nothing of the earlier session is in flight any more); give up when the run is
        // being wound up.
        REATTACH_WAITERS.with(|w| w.borrow_mut().push((epoch, of, shared.clone())));
        let mut attach = false;
        {
            loop {
                let of_state = PEER_STATES.with(|w| w.borrow().iter().find(|(e, p, _)| *e == epoch && *p == of).map(|(_, _, s)| s.clone()));
                let gone = hist.borrow().disconnects.iter().any(|(_, p, _)| *p == of);
                let over = of_state.map(|s| s.borrow().writer_done).unwrap_or(false);
                if shared.borrow().drain {
                    break;
                }
                // An idle point (every blocked writer is released at one).
                let target = shared.borrow().barrier_release + 1;
                WaitFor { shared: shared.clone(), cond: move |s: &PeerShared| s.barrier_release >= target || s.drain }.await;
                if shared.borrow().drain {
                    break;
                }
                if gone && over {
                    attach = true;
                    break;
                }
            }
        }
        if !attach {
            hist.borrow_mut().marks.push((now_step(), format!("peer{} never-reattached", script.id)));
            shared.borrow_mut().writer_done = true;
            shared.borrow_mut().reader_gone = true;
            return;
        }
        hist.borrow_mut().marks.push((now_step(), format!("peer{} reattaches as peer{}", script.id, of)));
    }
    let id = peer_uuid(script.reattach_of.unwrap_or(script.id), epoch);
    let (to_agent_tx, to_agent_rx) = byte_channel(NonZeroUsize::new(script.in_cap.max(1) as usize).unwrap());
    let (from_agent_tx, from_agent_rx) = byte_channel(NonZeroUsize::new(script.out_cap.max(1) as usize).unwrap());
    let (done_tx, done_rx) = promise::promise();
    let (att_trig_tx, att_trig_rx) = trigger::trigger();
    let req = AgentAttachmentRequest::TwoWay {
        id,
        io: (from_agent_tx, to_agent_rx),
        on_attached: Some(att_trig_tx),
        completion: done_tx,
    };
    if att_tx.send(req).await.is_err() {
        hist.borrow_mut().marks.push((now_step(), format!("peer{} attach-failed", script.id)));
        shared.borrow_mut().writer_done = true;
        return;
    }
    // Reader half, completion watcher and attachment watcher are their own nodes.
    {
        let h = hist.clone();
        let pid = script.id;
        spawn.borrow_mut().push((
            format!("peer{pid}.done"),
            budget,
            Box::pin(async move {
                let r = done_rx.await;
                let text = match r {
                    Ok(reason) => format!("{:?}", reason),
                    Err(_) => "PromiseDropped".to_string(),
                };
                h.borrow_mut().disconnects.push((now_step(), pid, text));
                h.borrow_mut().disconnect_ms.push((pid, super::model::sim_ms()));
                REATTACH_WAITERS.with(|w| {
                    for (_, of, sh) in w.borrow().iter() {
                        if *of == pid {
                            let mut s = sh.borrow_mut();
                            s.may_attach = true;
                            if let Some(w) = s.writer_waker.take() {
                                w.wake();
                            }
                        }
                    }
                });
            }),
        ));
        let h = hist.clone();
        spawn.borrow_mut().push((
            format!("peer{pid}.att"),
            budget,
            Box::pin(async move {
                if att_trig_rx.await.is_ok() {
                    h.borrow_mut().attached.push((now_step(), pid));
                    h.borrow_mut().attached_ms.push((pid, super::model::sim_ms()));
                }
            }),
        ));
        spawn.borrow_mut().push((
            format!("peer{pid}.r"),
            budget,
            Box::pin(PeerReader::new(&script, epoch, from_agent_rx, hist.clone(), shared.clone())),
        ));
    }
    let mut writer = Some(to_agent_tx);
    let mut enc = RawRequestMessageEncoder;
    let mut buf = BytesMut::new();
    for op in script.ops.iter() {
        let start = now_step();
        let mut ok = true;
        let frame: Option<RequestMessage<&str, &[u8]>> = match op {
            Op::Link { lane } => Some(RequestMessage::link(id, RelativeAddress::new(NODE_URI, lane.as_str()))),
            Op::Sync { lane } => Some(RequestMessage::sync(id, RelativeAddress::new(NODE_URI, lane.as_str()))),
            Op::Unlink { lane } => Some(RequestMessage::unlink(id, RelativeAddress::new(NODE_URI, lane.as_str()))),
            Op::Cmd { lane, body } => Some(RequestMessage::command(
                id,
                RelativeAddress::new(NODE_URI, lane.as_str()),
                body.as_bytes(),
            )),
            Op::Pause { polls } => {
                yield_n(*polls).await;
                None
            }
            Op::AwaitLinked { lane } => {
                let l = lane.clone();
                WaitFor { shared: shared.clone(), cond: move |s: &PeerShared| s.linked.contains_key(&l) || s.drain || s.reader_gone }.await;
                None
            }
            Op::AwaitSynced { lane } => {
                let l = lane.clone();
                WaitFor { shared: shared.clone(), cond: move |s: &PeerShared| s.synced.contains_key(&l) || s.drain || s.reader_gone }.await;
                None
            }
            Op::Barrier => {
                let target = shared.borrow().barrier_release + 1;
                WaitFor { shared: shared.clone(), cond: move |s: &PeerShared| s.barrier_release >= target || s.drain }.await;
                None
            }
            Op::CloseWrite => {
                writer = None;
                None
            }
            Op::BadCmd { lane, body } => Some(RequestMessage::command(id, RelativeAddress::new(NODE_URI, lane.as_str()), body.as_bytes())),
            Op::TornCmd { lane, body, keep_pm } => {
                if let Some(mut w) = writer.take() {
                    buf.clear();
                    enc.encode(RequestMessage::command(id, RelativeAddress::new(NODE_URI, lane.as_str()), body.as_bytes()), &mut buf)
                        .expect("encode");
                    let keep = ((buf.len() as u64 * *keep_pm as u64) / 1000).clamp(1, buf.len() as u64 - 1) as usize;
                    let _ = w.write_all(&buf[..keep]).await;
                    // The write half is dropped here: the agent sees the end of the stream inside a frame.
                }
                None
            }
            Op::Sleep { ms } => {
                shared.borrow_mut().sleeping = true;
                tokio::time::sleep(Duration::from_millis(*ms)).await;
                shared.borrow_mut().sleeping = false;
                None
            }
            Op::CloseRead => {
                let mut s = shared.borrow_mut();
                s.close_read = true;
                if let Some(w) = s.reader_waker.take() {
                    w.wake();
                }
                None
            }
        };
        if let Some(frame) = frame {
            if let Some(w) = writer.as_mut() {
                buf.clear();
                enc.encode(frame, &mut buf).expect("encode");
                if w.write_all(&buf).await.is_err() {
                    ok = false;
                    writer = None;
                }
            } else {
                ok = false;
            }
        }
        hist.borrow_mut().sent.push(Sent { start, end: now_step(), peer: script.id, op: op.clone(), ok, epoch, end_ms: super::model::sim_ms() });
    }
    shared.borrow_mut().writer_done = true;
    // Keep the write half open until the harness ends the run (a peer that has nothing more to
    // say is not a peer that hung up).
    if let Some(w) = writer {
        HoldOpen { _w: w, shared }.await;
    }
}

struct HoldOpen {
    _w: ByteWriter,
    shared: SharedPeer,
}

impl Future for HoldOpen {
    type Output = ();
    fn poll(self: Pin<&mut Self>, cx: &mut Context<'_>) -> Poll<()> {
        // Parked for ever; dropped with the executor.
        self.shared.borrow_mut().writer_waker = Some(cx.waker().clone());
        Poll::Pending
    }
}

struct PeerReader {
    pid: u32,
    epoch: u32,
    reader: Option<ByteReader>,
    buf: BytesMut,
    rng: Rng,
    cfg: ReadCfg,
    stalled: u32,
    polls: u32,
    hist: SharedHist,
    shared: SharedPeer,
    scratch: Vec<u8>,
}

impl PeerReader {
    fn new(script: &PeerScript, epoch: u32, reader: ByteReader, hist: SharedHist, shared: SharedPeer) -> PeerReader {
        PeerReader {
            pid: script.id,
            epoch,
            reader: Some(reader),
            buf: BytesMut::new(),
            rng: Rng::new(script.chunk_seed),
            cfg: script.read.clone(),
            stalled: 0,
            polls: 0,
            hist,
            shared,
            scratch: vec![0u8; 4096],
        }
    }

    fn record_frames(&mut self) -> Result<(), String> {
        let mut dec = RawResponseMessageDecoder;
        loop {
            match dec.decode(&mut self.buf) {
                Ok(Some(msg)) => {
                    let kind = match msg.envelope {
                        Notification::Linked => FrameKind::Linked,
                        Notification::Synced => FrameKind::Synced,
                        Notification::Unlinked(b) => FrameKind::Unlinked(b.map(|b| b.to_vec())),
                        Notification::Event(b) => FrameKind::Event(b.to_vec()),
                    };
                    let lane = msg.path.lane.as_str().to_string();
                    let step = now_step();
                    {
                        let mut s = self.shared.borrow_mut();
                        match &kind {
                            FrameKind::Linked => {
                                s.linked.insert(lane.clone(), step);
                            }
                            FrameKind::Synced => {
                                s.synced.insert(lane.clone(), step);
                            }
                            FrameKind::Unlinked(_) => {
                                s.linked.remove(&lane);
                                s.synced.remove(&lane);
                            }
                            _ => {}
                        }
                        if let Some(w) = s.writer_waker.take() {
                            w.wake();
                        }
                    }
                    self.hist.borrow_mut().frames.push(Frame {
                        step,
                        peer: self.pid,
                        node: msg.path.node.as_str().to_string(),
                        lane,
                        kind,
                        epoch: self.epoch,
                    });
                }
                Ok(None) => return Ok(()),
                Err(e) => return Err(format!("{e}")),
            }
        }
    }

    fn finish(&mut self, why: &str) {
        self.reader = None;
        let mut s = self.shared.borrow_mut();
        s.reader_gone = true;
        if let Some(w) = s.writer_waker.take() {
            w.wake();
        }
        drop(s);
        self.hist.borrow_mut().reader_end.push((now_step(), self.pid, why.to_string()));
    }
}

impl Future for PeerReader {
    type Output = ();
    fn poll(mut self: Pin<&mut Self>, cx: &mut Context<'_>) -> Poll<()> {
        let this = &mut *self;
        let (drain, close) = {
            let s = this.shared.borrow();
            (s.drain, s.close_read)
        };
        if close {
            this.finish("closed-by-peer");
            return Poll::Ready(());
        }
        if !drain {
            this.polls += 1;
            if this.cfg.freeze_after > 0 && this.polls > this.cfg.freeze_after {
                let mut s = this.shared.borrow_mut();
                if !s.frozen {
                    this.hist.borrow_mut().freezes.push((now_step(), this.pid));
                }
                s.frozen = true;
                s.reader_waker = Some(cx.waker().clone());
                return Poll::Pending;
            }
            if this.stalled > 0 {
                this.stalled -= 1;
                cx.waker().wake_by_ref();
                return Poll::Pending;
            }
            if this.cfg.stall_pm > 0 && this.rng.below(1000) < this.cfg.stall_pm as u64 {
                this.stalled = this.rng.range(1, this.cfg.stall_max.max(1) as u64) as u32;
                cx.waker().wake_by_ref();
                return Poll::Pending;
            }
        }
        let n = if drain {
            this.scratch.len()
        } else {
            this.rng.range(1, this.cfg.max_chunk.max(1) as u64) as usize
        }
        .min(this.scratch.len());
        let Some(reader) = this.reader.as_mut() else {
            return Poll::Ready(());
        };
        let mut rb = ReadBuf::new(&mut this.scratch[..n]);
        match Pin::new(reader).poll_read(cx, &mut rb) {
            Poll::Pending => {
                if std::env::var("VERIF_TRACE_READS").is_ok() {
                    eprintln!("{} peer{} read pending", now_step(), this.pid);
                }
                this.shared.borrow_mut().reader_waker = Some(cx.waker().clone());
                Poll::Pending
            }
            Poll::Ready(Err(e)) => {
                this.finish(&format!("io-error {e}"));
                Poll::Ready(())
            }
            Poll::Ready(Ok(())) => {
                let got = rb.filled().len();
                if got == 0 {
                    let left = this.buf.len();
                    this.finish(&format!("eof leftover={left}"));
                    return Poll::Ready(());
                }
                let filled = rb.filled().to_vec();
                if std::env::var("VERIF_TRACE_READS").is_ok() {
                    eprintln!("{} peer{} read {} bytes (asked {})", now_step(), this.pid, filled.len(), n);
                }
                this.buf.extend_from_slice(&filled);
                if let Err(e) = this.record_frames() {
                    this.finish(&format!("decode-error {e}"));
                    return Poll::Ready(());
                }
                // One chunk per step.
                cx.waker().wake_by_ref();
                Poll::Pending
            }
        }
    }
}

pub type SpawnQueue = Rc<RefCell<Vec<(String, usize, NodeFut)>>>;

/// Answers the agent's requests for outgoing command channels with fresh byte channels whose read
/// ends are simulated command targets.
async fn link_server(
    mut rx: mpsc::Receiver<LinkRequest>,
    knobs: Knobs,
    hist: SharedHist,
    spawn: SpawnQueue,
    drain: Rc<RefCell<bool>>,
) {
    let mut chan = 0u32;
    let mut keys_seen: Vec<String> = vec![];
    while let Some(req) = rx.recv().await {
        match req {
            LinkRequest::Commander(c) => {
                let key = match &c.key {
                    CommanderKey::Remote(shp) => format!("remote:{shp}"),
                    CommanderKey::Local(addr) => format!("local:{}:{}", addr.node, addr.lane),
                };
                hist.borrow_mut().commander_requests.push((now_step(), key.clone()));
                yield_n(knobs.link_delay).await;
                let (tx, rx) = byte_channel(NonZeroUsize::new(knobs.target_cap.max(1) as usize).unwrap());
                let id = chan;
                chan += 1;
                let first_for_key = !keys_seen.contains(&key);
                if first_for_key {
                    keys_seen.push(key.clone());
                }
                let t = TargetReader {
                    chan: id,
                    close_after: if first_for_key { knobs.target_close_after } else { 0 },
                    seen: 0,
                    key,
                    reader: Some(rx),
                    buf: BytesMut::new(),
                    rng: Rng::new(0x7a67 + id as u64),
                    cfg: knobs.target_read.clone(),
                    stalled: 0,
                    hist: hist.clone(),
                    drain: drain.clone(),
                    scratch: vec![0u8; 4096],
                };
                spawn.borrow_mut().push((format!("target{id}"), knobs.budget_peer as usize, Box::pin(t)));
                let _ = c.promise.send(Ok(tx));
            }
            LinkRequest::Downlink(d) => {
                let _ = d.promise.send(Err(swimos_api::error::DownlinkRuntimeError::DownlinkConnectionFailed(
                    swimos_api::error::DownlinkFailureReason::UnresolvableLocal(RelativeAddress::text("/none", "none")),
                )));
            }
        }
    }
}

struct TargetReader {
    chan: u32,
    close_after: u32,
    seen: u32,
    key: String,
    reader: Option<ByteReader>,
    buf: BytesMut,
    rng: Rng,
    cfg: ReadCfg,
    stalled: u32,
    hist: SharedHist,
    drain: Rc<RefCell<bool>>,
    scratch: Vec<u8>,
}

impl Future for TargetReader {
    type Output = ();
    fn poll(mut self: Pin<&mut Self>, cx: &mut Context<'_>) -> Poll<()> {
        let this = &mut *self;
        let drain = *this.drain.borrow();
        if !drain {
            if this.stalled > 0 {
                this.stalled -= 1;
                cx.waker().wake_by_ref();
                return Poll::Pending;
            }
            if this.cfg.stall_pm > 0 && this.rng.below(1000) < this.cfg.stall_pm as u64 {
                this.stalled = this.rng.range(1, this.cfg.stall_max.max(1) as u64) as u32;
                cx.waker().wake_by_ref();
                return Poll::Pending;
            }
        }
        let n = if drain { 4096 } else { this.rng.range(1, this.cfg.max_chunk.max(1) as u64) as usize }.min(4096);
        let Some(reader) = this.reader.as_mut() else { return Poll::Ready(()) };
        let mut rb = ReadBuf::new(&mut this.scratch[..n]);
        match Pin::new(reader).poll_read(cx, &mut rb) {
            Poll::Pending => Poll::Pending,
            Poll::Ready(Err(_)) => Poll::Ready(()),
            Poll::Ready(Ok(())) => {
                if rb.filled().is_empty() {
                    this.hist.borrow_mut().target_eof.push((now_step(), this.chan));
                    this.reader = None;
                    return Poll::Ready(());
                }
                let filled = rb.filled().to_vec();
                this.buf.extend_from_slice(&filled);
                let mut dec = RawRequestMessageDecoder;
                while let Ok(Some(msg)) = dec.decode(&mut this.buf) {
                    if let Operation::Command(body) = msg.envelope {
                        this.hist.borrow_mut().target_frames.push(TargetFrame {
                            step: now_step(),
                            target: format!("{}|{}", this.key, msg.path.node.as_str()),
                            lane: msg.path.lane.as_str().to_string(),
                            body: body.to_vec(),
                            chan: this.chan,
                        });
                        this.seen += 1;
                        if this.close_after > 0 && this.seen >= this.close_after {
                            // The target stops: its end of the channel is dropped with whatever is still in it.
                            this.hist.borrow_mut().target_closed.push((now_step(), this.chan));
                            this.hist.borrow_mut().marks.push((now_step(), format!("target channel {} closed by the target after {} commands", this.chan, this.seen)));
                            this.reader = None;
                            return Poll::Ready(());
                        }
                    }
                }
                cx.waker().wake_by_ref();
                Poll::Pending
            }
        }
    }
}

#[derive(Debug, Clone)]
pub struct AgentEnd {
    pub step: u64,
    pub result: String,
    pub sim_ms: u64,
}

/// Everything the oracles need.
pub struct RunRecord {
    pub scenario: AgentScenario,
    pub hist: Hist,
    /// Ground truth per agent incarnation.
    pub truth: Vec<Vec<(u64, TruthEv)>>,
    /// (step, simulated ms) of the events the model agent's handlers recorded, per incarnation.
    pub handler_times: Vec<Vec<(u64, u64)>>,
    pub store_log: Vec<(u64, StoreOp)>,
    pub store_final: Option<StoreImage>,
    /// Durable image at the moment the first incarnation ended.
    pub store_at_restart: Option<StoreImage>,
    pub agent_ends: Vec<Option<AgentEnd>>,
    /// Step at which the drain phase began / quiescence was reached (first incarnation).
    pub drain_step: Option<u64>,
    pub quiescent_step: Option<u64>,
    pub stop_step: Option<u64>,
    pub crash_step: Option<u64>,
    pub restart_step: Option<u64>,
    pub quiescent2_step: Option<u64>,
    pub step_limit_hit: bool,
    pub steps: u64,
    pub decisions: u64,
    pub sim_ms: u64,
    pub panics: Vec<crate::core::exec::NodePanic>,
    pub store_fault_fired: bool,
    pub restart_read_fault_fired: bool,
    pub live_at_end: Vec<String>,
    pub log: EventLog,
    pub stuck_writers: Vec<u32>,
    pub frozen_peers: Vec<u32>,
    pub time_advances: u64,
}

#[derive(Debug, Clone, Default, PartialEq, Eq)]
pub struct StoreImage {
    pub values: BTreeMap<String, Vec<u8>>,
    pub maps: BTreeMap<String, BTreeMap<Vec<u8>, Vec<u8>>>,
}

fn image(d: &Durable) -> StoreImage {
    let mut img = StoreImage::default();
    for (id, v) in &d.values {
        img.values.insert(d.names[*id as usize].clone(), v.clone());
    }
    for (id, m) in &d.maps {
        img.maps.insert(d.names[*id as usize].clone(), m.clone());
    }
    img
}

fn policy_of(p: &PolicyCfg) -> Policy {
    match p {
        PolicyCfg::Random => Policy::Random,
        PolicyCfg::Lowest => Policy::Lowest,
        PolicyCfg::RoundRobin => Policy::RoundRobin,
        PolicyCfg::Pct { change_points } => Policy::Pct { change_points: *change_points },
        PolicyCfg::StarveAgent { steps } => Policy::Starve { node: 0, steps: *steps },
    }
}

fn nz(n: u32) -> NonZeroUsize {
    NonZeroUsize::new(n.max(1) as usize).unwrap()
}

struct Incarnation {
    agent_node: usize,
    stop_tx: Option<trigger::Sender>,
    att_tx: Option<mpsc::Sender<AgentAttachmentRequest>>,
    end: Rc<RefCell<Option<AgentEnd>>>,
    truth: SharedTruth,
    peers: Vec<SharedPeer>,
    drain_flag: Rc<RefCell<bool>>,
    report_readers: Rc<RefCell<Vec<(String, UplinkReportReader)>>>,
    _http_tx: mpsc::Sender<swimos_api::agent::HttpLaneRequest>,
}

fn start_incarnation(
    exec: &mut Exec,
    sc: &AgentScenario,
    epoch: u32,
    durable: &Arc<PlMutex<Durable>>,
    hist: &SharedHist,
    spawn: &SpawnQueue,
    t0: tokio::time::Instant,
) -> Incarnation {
    let k = &sc.knobs;
    let truth: SharedTruth = Arc::new(std::sync::Mutex::new(Truth::default()));
    let lifecycle = SimLifecycle { truth: truth.clone(), commanders: Default::default(), late_commanders: Default::default(), remote_host: k.remote_host, fail_on_multiple_of: k.fail_on_multiple_of, send_on_stop: k.send_on_stop };
    let model = if k.initial_contents {
        AgentModel::new(SimAgent::with_initial_contents, lifecycle.into_lifecycle())
    } else {
        AgentModel::new(SimAgent::default, lifecycle.into_lifecycle())
    };
    let (att_tx, att_rx) = mpsc::channel(k.att_queue.max(1) as usize);
    let (http_tx, http_rx) = mpsc::channel(4);
    let (link_tx, link_rx) = mpsc::channel(8);
    let (stop_tx, stop_rx) = trigger::trigger();
    let lane_config = LaneConfig {
        input_buffer_size: nz(k.lane_in_buf),
        output_buffer_size: nz(k.lane_out_buf),
        transient: k.all_lanes_transient,
    };
    let config = CombinedAgentConfig {
        agent_config: AgentConfig {
            default_lane_config: Some(lane_config),
            keep_linked_retry: RetryStrategy::none(),
        },
        runtime_config: AgentRuntimeConfig {
            attachment_queue_size: nz(k.att_queue),
            agent_http_request_channel_size: nz(4),
            inactive_timeout: Duration::from_millis(k.inactive_timeout_ms),
            prune_remote_delay: Duration::from_millis(k.prune_ms),
            shutdown_timeout: Duration::from_millis(k.shutdown_ms),
            item_init_timeout: Duration::from_secs(5),
            command_output_timeout: Duration::from_secs(30),
            command_output_retry: RetryStrategy::none(),
            command_msg_buffer: nz(k.cmd_buf),
            lane_http_request_channel_size: nz(4),
        },
    };
    let report_readers: Rc<RefCell<Vec<(String, UplinkReportReader)>>> = Rc::new(RefCell::new(vec![]));
    let reporting = if k.reporting {
        let agg = UplinkReporter::default();
        report_readers.borrow_mut().push(("<aggregate>".to_string(), agg.reader()));
        let (reg_tx, mut reg_rx) = mpsc::channel::<UplinkReporterRegistration>(16);
        let rr = report_readers.clone();
        spawn.borrow_mut().push((
            format!("reporting{epoch}"),
            64,
            Box::pin(async move {
                while let Some(reg) = reg_rx.recv().await {
                    rr.borrow_mut().push((reg.lane_name.to_string(), reg.reader));
                }
            }),
        ));
        Some(NodeReporting::new(Uuid::from_u128(7), agg, reg_tx))
    } else {
        None
    };
    let descriptor = AgentRouteDescriptor {
        identity: Uuid::from_u128(7),
        route: NODE_URI.parse().unwrap(),
        route_params: HashMap::new(),
    };
    let channels = AgentRouteChannels::new(att_rx, http_rx, link_tx);
    let end: Rc<RefCell<Option<AgentEnd>>> = Rc::new(RefCell::new(None));
    let fut: Pin<Box<dyn Future<Output = Result<(), AgentExecError>>>> = if sc.fake.is_some() || sc.fake_persist.is_some() {
        let agent = super::fake::FakeAgent {
            truth: truth.clone(),
            plan: if epoch == 0 { sc.fake.clone() } else { None },
            persist: sc.fake_persist.clone(),
            lane_in_buf: k.lane_in_buf as usize,
            lane_out_buf: k.lane_out_buf as usize,
        };
        let task = AgentRouteTask::new(&agent, descriptor, channels, stop_rx, config, reporting);
        if k.persistent {
            let store = RecordingStore::new(durable.clone());
            Box::pin(task.run_agent_with_store(async move { Ok::<_, StoreError>(store) }))
        } else {
            Box::pin(task.run_agent())
        }
    } else if k.connector {
        let lifecycle = super::dynmodel::DynLifecycle { truth: truth.clone() };
        let dyn_model = AgentModel::new(swimos_connector::ConnectorAgent::default, lifecycle);
        let task = AgentRouteTask::new(&dyn_model, descriptor, channels, stop_rx, config, reporting);
        Box::pin(task.run_agent())
    } else if k.persistent {
        let store = RecordingStore::new(durable.clone());
        let task = AgentRouteTask::new(&model, descriptor, channels, stop_rx, config, reporting);
        Box::pin(task.run_agent_with_store(async move { Ok::<_, StoreError>(store) }))
    } else {
        let task = AgentRouteTask::new(&model, descriptor, channels, stop_rx, config, reporting);
        Box::pin(task.run_agent())
    };
    let end2 = end.clone();
    let agent_node = exec.spawn(&format!("agent{epoch}"), k.budget_agent as usize, async move {
        let r = fut.await;
        let text = match r {
            Ok(()) => "Ok".to_string(),
            Err(e) => format!("Err({e})"),
        };
        *end2.borrow_mut() = Some(AgentEnd {
            step: now_step(),
            result: text,
            sim_ms: (tokio::time::Instant::now() - t0).as_millis() as u64,
        });
    });
    let drain_flag = Rc::new(RefCell::new(false));
    exec.spawn(
        &format!("links{epoch}"),
        k.budget_peer as usize,
        link_server(link_rx, k.clone(), hist.clone(), spawn.clone(), drain_flag.clone()),
    );
    Incarnation {
        agent_node,
        stop_tx: Some(stop_tx),
        att_tx: Some(att_tx),
        end,
        truth,
        peers: vec![],
        drain_flag,
        report_readers,
        _http_tx: http_tx,
    }
}

fn flush_spawns(exec: &mut Exec, spawn: &SpawnQueue) {
    let items: Vec<_> = spawn.borrow_mut().drain(..).collect();
    for (name, budget, fut) in items {
        exec.spawn(&name, budget, fut);
    }
}

fn snapshot_reports(inc: &Incarnation, hist: &SharedHist) {
    let readers = inc.report_readers.borrow();
    for (lane, r) in readers.iter() {
        if let Some(s) = r.snapshot() {
            hist.borrow_mut().reports.push(ReportSnap {
                step: now_step(),
                lane: lane.clone(),
                link_count: s.link_count,
                event_count: s.event_count,
                command_count: s.command_count,
            });
        }
    }
}

#[derive(Debug, Clone, Copy, PartialEq, Eq)]
enum Phase {
    Main,
    Draining,
    Stopping,
    Restarted,
    RestartDraining,
    Done,
}

fn start_drain(inc: &Incarnation) {
    *inc.drain_flag.borrow_mut() = true;
    for p in &inc.peers {
        let mut s = p.borrow_mut();
        s.drain = true;
        s.frozen = false;
        if let Some(w) = s.reader_waker.take() {
            w.wake();
        }
        if let Some(w) = s.writer_waker.take() {
            w.wake();
        }
    }
}

pub async fn run_scenario(sc: &AgentScenario, keep_log: bool) -> RunRecord {
    let t0 = tokio::time::Instant::now();
    super::model::set_run_t0(t0);
    let k = &sc.knobs;
    let sched = Scheduler::new(Rng::new(k.sched_seed), policy_of(&k.policy), 2_000);
    let mut exec = Exec::new(sched, EventLog::new(keep_log));
    exec.trace_polls = keep_log && std::env::var("VERIF_TRACE_POLLS").is_ok();
    let hist: SharedHist = Rc::new(RefCell::new(Hist::default()));
    let spawn: SpawnQueue = Rc::new(RefCell::new(vec![]));
    let durable = Arc::new(PlMutex::new(Durable::default()));
    durable.lock().fault = Some(match sc.store_fault {
        StoreFaultCfg::None => StoreFault::None,
        StoreFaultCfg::ErrorAt(n) => StoreFault::ErrorAt(n),
        StoreFaultCfg::PanicAt(n) => StoreFault::PanicAt(n),
    });

    let mut inc = start_incarnation(&mut exec, sc, 0, &durable, &hist, &spawn, t0);
    for p in &sc.peers {
        let shared: SharedPeer = Rc::new(RefCell::new(PeerShared::default()));
        inc.peers.push(shared.clone());
        let att = inc.att_tx.clone().unwrap();
        exec.spawn(
            &format!("peer{}.w", p.id),
            k.budget_peer as usize,
            peer_writer(p.clone(), 0, att, hist.clone(), shared, spawn.clone(), k.budget_peer as usize),
        );
    }

    let mut rec = RunRecord {
        scenario: sc.clone(),
        hist: Hist::default(),
        truth: vec![],
        handler_times: vec![],
        store_log: vec![],
        store_final: None,
        store_at_restart: None,
        agent_ends: vec![],
        drain_step: None,
        quiescent_step: None,
        stop_step: None,
        crash_step: None,
        restart_step: None,
        quiescent2_step: None,
        step_limit_hit: false,
        steps: 0,
        decisions: 0,
        sim_ms: 0,
        panics: vec![],
        store_fault_fired: false,
        restart_read_fault_fired: false,
        live_at_end: vec![],
        log: EventLog::new(false),
        stuck_writers: vec![],
        frozen_peers: vec![],
        time_advances: 0,
    };

    let mut phase = Phase::Main;
    let mut incs: Vec<Incarnation> = vec![];
    let mut frames_seen = 0u64;
    let mut barrier_rounds = 0u32;
    let mut stop_deadline_used = false;

    'run: loop {
        // Step until idle, watching for mid-stream endings.
        loop {
            if exec.steps >= sc.max_steps {
                rec.step_limit_hit = true;
                break 'run;
            }
            if phase == Phase::Main || phase == Phase::Draining {
                let trigger_now = match sc.ending {
                    Ending::StopAt(s) => exec.steps >= s && rec.stop_step.is_none(),
                    Ending::CrashAt(s) => exec.steps >= s,
                    Ending::CrashAfterFrame(n) => {
                        frames_seen = hist.borrow().frames.len() as u64;
                        frames_seen >= n
                    }
                    _ => false,
                };
                if trigger_now {
                    match sc.ending {
                        Ending::StopAt(_) => {
                            rec.stop_step = Some(exec.steps);
                            hist.borrow_mut().marks.push((exec.steps, "stop-trigger".into()));
                            if let Some(tx) = inc.stop_tx.take() {
                                tx.trigger();
                            }
                            start_drain(&inc);
                            phase = Phase::Stopping;
                        }
                        _ => {
                            rec.crash_step = Some(exec.steps);
                            hist.borrow_mut().marks.push((exec.steps, "crash".into()));
                            exec.kill(inc.agent_node);
                            start_drain(&inc);
                            phase = Phase::Stopping;
                        }
                    }
                }
            }
            if !exec.step() {
                break;
            }
            flush_spawns(&mut exec, &spawn);
            // Return to the tokio runtime after every step: each node poll then runs with a
            // fresh tokio coop budget (as a task poll does in production) and wakers that tokio
            // deferred are delivered before the next scheduling decision. The paused clock does
            // not move (the runtime only yields, it never parks).
            tokio::task::yield_now().await;
        }
        flush_spawns(&mut exec, &spawn);
        if exec.has_ready() {
            continue;
        }
        // Idle.
        match phase {
            Phase::Main => {
                // The system is idle: everything produced so far has been read by every remote
                // that is not frozen. A good moment to look at the introspection counters.
                snapshot_reports(&inc, &hist);
                // A peer is waiting for simulated time to pass: let the clock move (timers of the
                // product fire as well).
                if inc.peers.iter().any(|p| p.borrow().sleeping) && rec.time_advances < 200 {
                    rec.time_advances += 1;
                    let _ = exec.wait_for_wake(Duration::from_secs(3600)).await;
                    continue;
                }
                // Release barriers first (peers waiting for "everything produced so far has been read").
                let mut released = false;
                for p in &inc.peers {
                    let mut s = p.borrow_mut();
                    if s.writer_blocked && !s.writer_done {
                        s.barrier_release += 1;
                        if let Some(w) = s.writer_waker.take() {
                            w.wake();
                            released = true;
                        }
                    }
                }
                barrier_rounds += 1;
                if released && barrier_rounds < 200 {
                    continue;
                }
                rec.drain_step = Some(exec.steps);
                hist.borrow_mut().marks.push((exec.steps, "drain".into()));
                for (i, p) in inc.peers.iter().enumerate() {
                    let s = p.borrow();
                    if !s.writer_done {
                        rec.stuck_writers.push(sc.peers[i].id);
                    }
                    if s.frozen {
                        rec.frozen_peers.push(sc.peers[i].id);
                    }
                }
                start_drain(&inc);
                phase = Phase::Draining;
            }
            Phase::Draining => {
                rec.quiescent_step = Some(exec.steps);
                hist.borrow_mut().marks.push((exec.steps, "quiescent".into()));
                snapshot_reports(&inc, &hist);
                if exec.is_done(inc.agent_node) {
                    phase = Phase::Stopping;
                    continue;
                }
                match sc.ending {
                    Ending::Timeout => {
                        phase = Phase::Stopping;
                        // Time passes below.
                    }
                    _ => {
                        rec.stop_step = Some(exec.steps);
                        hist.borrow_mut().marks.push((exec.steps, "stop-trigger".into()));
                        if let Some(tx) = inc.stop_tx.take() {
                            tx.trigger();
                        }
                        phase = Phase::Stopping;
                    }
                }
            }
            Phase::Stopping => {
                if exec.is_done(inc.agent_node) {
                    // First incarnation is over.
                    snapshot_reports(&inc, &hist);
                    rec.store_at_restart = Some(image(&durable.lock()));
                    if sc.restart && sc.knobs.persistent {
                        rec.restart_step = Some(exec.steps);
                        hist.borrow_mut().marks.push((exec.steps, "restart".into()));
                        {
                            let mut d = durable.lock();
                            d.fault = Some(StoreFault::None);
                            d.read_fault_at = sc.restart_read_fault;
                            d.reads_since_armed = 0;
                        }
                        let mut inc2 = start_incarnation(&mut exec, sc, 1, &durable, &hist, &spawn, t0);
                        // A fresh, fast peer syncs every lane.
                        let script = PeerScript {
                            id: 100,
                            out_cap: 4096,
                            in_cap: 4096,
                            chunk_seed: 1,
                            read: ReadCfg { max_chunk: 4096, stall_pm: 0, stall_max: 1, freeze_after: 0 },
                            attach_delay: 0,
                            one_way: false,
                            ops: ["val", "tval", "map", "bmap", "tmap", "smap"]
                                .iter()
                                .map(|l| Op::Sync { lane: l.to_string() })
                                .collect(),
                            reattach_of: None,
                            attach_after_ms: 0,
                            reattach_immediately: false,
                        };
                        let shared: SharedPeer = Rc::new(RefCell::new(PeerShared::default()));
                        inc2.peers.push(shared.clone());
                        let att = inc2.att_tx.clone().unwrap();
                        exec.spawn(
                            "peer100.w",
                            64,
                            peer_writer(script, 1, att, hist.clone(), shared, spawn.clone(), 64),
                        );
                        let old = std::mem::replace(&mut inc, inc2);
                        incs.push(old);
                        phase = Phase::Restarted;
                    } else {
                        phase = Phase::Done;
                    }
                } else {
                    // The agent has not stopped yet: let simulated time pass (shutdown timeout,
                    // inactivity timeout, prune delays).
                    let max = Duration::from_millis(
                        sc.knobs.inactive_timeout_ms + sc.knobs.shutdown_ms + sc.knobs.prune_ms + 1_000,
                    );
                    rec.time_advances += 1;
                    if rec.time_advances > 50 || !exec.wait_for_wake(max).await {
                        stop_deadline_used = true;
                        phase = Phase::Done;
                    }
                }
            }
            Phase::Restarted => {
                start_drain(&inc);
                phase = Phase::RestartDraining;
            }
            Phase::RestartDraining => {
                rec.quiescent2_step = Some(exec.steps);
                hist.borrow_mut().marks.push((exec.steps, "quiescent2".into()));
                phase = Phase::Done;
            }
            Phase::Done => break 'run,
        }
        if phase == Phase::Done {
            break 'run;
        }
    }
    let _ = stop_deadline_used;
    let _ = frames_seen;

    rec.live_at_end = exec.live_nodes();
    incs.push(inc);
    for i in &incs {
        rec.truth.push(i.truth.lock().unwrap().events.clone());
        rec.handler_times.push(i.truth.lock().unwrap().handler_times.clone());
        rec.agent_ends.push(i.end.borrow().clone());
    }
    {
        let d = durable.lock();
        rec.store_log = d.log.clone();
        rec.store_final = Some(image(&d));
        rec.store_fault_fired = d.fault_fired;
        rec.restart_read_fault_fired = d.read_fault_fired;
    }
    rec.steps = exec.steps;
    rec.decisions = exec.decisions;
    rec.sim_ms = (tokio::time::Instant::now() - t0).as_millis() as u64;
    rec.panics = exec.panics.clone();
    // Injected kills are not product panics.
    rec.panics.retain(|p| !p.message.contains(INJECTED_KILL));
    // Dropping the executor drops every node (in id order).
    let log = std::mem::replace(&mut exec.log, EventLog::new(false));
    drop(exec);
    drop(incs);
    rec.hist = std::mem::take(&mut *hist.borrow_mut());
    rec.log = log;
    rec
}

pub fn body_text(b: &[u8]) -> String {
    String::from_utf8_lossy(b).to_string()
}

#[allow(dead_code)]
pub fn unused(_: Bytes) {}
