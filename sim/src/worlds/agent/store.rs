//! RecordingStore: an implementation of the public `NodePersistence` trait backed by `BTreeMap`s.
//! It logs every mutating call with the global step, can fail or "kill the process" (panic) in
//! call `k`, and is the only thing that survives a crash.

use std::collections::BTreeMap;
use std::sync::Arc;
use parking_lot::Mutex;

use bytes::BytesMut;
use swimos_api::error::StoreError;
use swimos_api::persistence::{KeyValue, NodePersistence, RangeConsumer};

use crate::core::exec::now_step;

#[derive(Debug, Clone, PartialEq, Eq)]
pub enum StoreOp {
    Put { item: String, value: Vec<u8> },
    Delete { item: String },
    Update { item: String, key: Vec<u8>, value: Vec<u8> },
    Remove { item: String, key: Vec<u8> },
    Clear { item: String },
}

#[derive(Debug, Clone, Copy, PartialEq, Eq)]
pub enum StoreFault {
    None,
    /// Mutating call number `k` (0-based, counted over the store's whole life) returns an error.
    ErrorAt(u64),
    /// The process dies inside mutating call `k`, before it takes effect.
    PanicAt(u64),
}

#[derive(Debug, Default)]
pub struct Durable {
    pub names: Vec<String>,
    pub values: BTreeMap<u64, Vec<u8>>,
    pub maps: BTreeMap<u64, BTreeMap<Vec<u8>, Vec<u8>>>,
    /// Every mutating call that took effect, with the step at which it did.
    pub log: Vec<(u64, StoreOp)>,
    pub calls: u64,
    pub fault: Option<StoreFault>,
    pub fault_fired: bool,
    pub reads: u64,
    /// Read call number `k` (0-based, counted from the moment this is armed) returns an error.
    pub read_fault_at: Option<u64>,
    pub reads_since_armed: u64,
    pub read_fault_fired: bool,
}

pub const INJECTED_KILL: &str = "injected: process killed inside store call";

impl Durable {
    fn name_of(&self, id: u64) -> String {
        self.names.get(id as usize).cloned().unwrap_or_default()
    }

    fn before_read(&mut self) -> Result<(), StoreError> {
        self.reads += 1;
        let k = self.reads_since_armed;
        self.reads_since_armed += 1;
        if self.read_fault_at == Some(k) {
            self.read_fault_fired = true;
            return Err(StoreError::DelegateMessage("injected store read error".into()));
        }
        Ok(())
    }

    fn before_mutation(&mut self) -> Result<(), StoreError> {
        let k = self.calls;
        self.calls += 1;
        match self.fault {
            Some(StoreFault::ErrorAt(n)) if n == k => {
                self.fault_fired = true;
                Err(StoreError::DelegateMessage("injected store error".into()))
            }
            Some(StoreFault::PanicAt(n)) if n == k => {
                self.fault_fired = true;
                panic!("{}", INJECTED_KILL);
            }
            _ => Ok(()),
        }
    }
}

#[derive(Clone, Debug)]
pub struct RecordingStore {
    pub inner: Arc<Mutex<Durable>>,
}

impl RecordingStore {
    pub fn new(inner: Arc<Mutex<Durable>>) -> RecordingStore {
        RecordingStore { inner }
    }
}

pub struct MapSnapshot {
    entries: Vec<(Vec<u8>, Vec<u8>)>,
    pos: usize,
}

impl RangeConsumer for MapSnapshot {
    fn consume_next(&mut self) -> Result<Option<KeyValue<'_>>, StoreError> {
        if self.pos < self.entries.len() {
            let (k, v) = &self.entries[self.pos];
            self.pos += 1;
            Ok(Some((k.as_slice(), v.as_slice())))
        } else {
            Ok(None)
        }
    }
}

impl NodePersistence for RecordingStore {
    type MapCon<'a> = MapSnapshot where Self: 'a;
    type LaneId = u64;

    fn id_for(&self, name: &str) -> Result<u64, StoreError> {
        let mut d = self.inner.lock();
        if let Some(i) = d.names.iter().position(|n| n == name) {
            Ok(i as u64)
        } else {
            d.names.push(name.to_string());
            Ok((d.names.len() - 1) as u64)
        }
    }

    fn get_value(&self, id: u64, buffer: &mut BytesMut) -> Result<Option<usize>, StoreError> {
        let mut d = self.inner.lock();
        d.before_read()?;
        Ok(d.values.get(&id).map(|v| {
            buffer.extend_from_slice(v);
            v.len()
        }))
    }

    fn put_value(&mut self, id: u64, value: &[u8]) -> Result<(), StoreError> {
        let mut d = self.inner.lock();
        d.before_mutation()?;
        d.values.insert(id, value.to_vec());
        let item = d.name_of(id);
        d.log.push((now_step(), StoreOp::Put { item, value: value.to_vec() }));
        Ok(())
    }

    fn delete_value(&mut self, id: u64) -> Result<(), StoreError> {
        let mut d = self.inner.lock();
        d.before_mutation()?;
        d.values.remove(&id);
        let item = d.name_of(id);
        d.log.push((now_step(), StoreOp::Delete { item }));
        Ok(())
    }

    fn update_map(&mut self, id: u64, key: &[u8], value: &[u8]) -> Result<(), StoreError> {
        let mut d = self.inner.lock();
        d.before_mutation()?;
        d.maps.entry(id).or_default().insert(key.to_vec(), value.to_vec());
        let item = d.name_of(id);
        d.log.push((
            now_step(),
            StoreOp::Update { item, key: key.to_vec(), value: value.to_vec() },
        ));
        Ok(())
    }

    fn remove_map(&mut self, id: u64, key: &[u8]) -> Result<(), StoreError> {
        let mut d = self.inner.lock();
        d.before_mutation()?;
        if let Some(m) = d.maps.get_mut(&id) {
            m.remove(key);
        }
        let item = d.name_of(id);
        d.log.push((now_step(), StoreOp::Remove { item, key: key.to_vec() }));
        Ok(())
    }

    fn clear_map(&mut self, id: u64) -> Result<(), StoreError> {
        let mut d = self.inner.lock();
        d.before_mutation()?;
        d.maps.remove(&id);
        let item = d.name_of(id);
        d.log.push((now_step(), StoreOp::Clear { item }));
        Ok(())
    }

    fn read_map(&self, id: u64) -> Result<MapSnapshot, StoreError> {
        let mut d = self.inner.lock();
        d.before_read()?;
        let entries = d
            .maps
            .get(&id)
            .map(|m| m.iter().map(|(k, v)| (k.clone(), v.clone())).collect())
            .unwrap_or_default();
        Ok(MapSnapshot { entries, pos: 0 })
    }
}
