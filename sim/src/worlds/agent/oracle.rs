//! Oracles over the recorded history of one agent-world run. Every rule has a stable id.

use std::collections::{BTreeMap, BTreeSet, HashMap};

use swimos_agent_protocol::MapOperation;
use swimos_recon::parser::parse_recognize;

use super::model::{Ctl, TruthEv, MAP_LANES, VALUE_LANES};
use super::run::{body_text, Frame, FrameKind, RunRecord, Sent};
use super::scenario::{Ending, Op};
use crate::core::Violation;

const KNOWN_LANES: [&str; 9] = ["val", "tval", "map", "bmap", "tmap", "smap", "sup", "cmd", "ctl"];

#[derive(Debug, Clone, PartialEq, Eq)]
pub enum MapEv {
    Update(String, i32),
    Remove(String),
    Clear,
}

pub fn parse_map_event(lane: &str, body: &[u8]) -> Option<MapEv> {
    let text = std::str::from_utf8(body).ok()?;
    if lane == "smap" {
        match parse_recognize::<MapOperation<String, i32>>(text, false).ok()? {
            MapOperation::Update { key, value } => Some(MapEv::Update(key, value)),
            MapOperation::Remove { key } => Some(MapEv::Remove(key)),
            MapOperation::Clear => Some(MapEv::Clear),
        }
    } else {
        match parse_recognize::<MapOperation<i32, i32>>(text, false).ok()? {
            MapOperation::Update { key, value } => Some(MapEv::Update(key.to_string(), value)),
            MapOperation::Remove { key } => Some(MapEv::Remove(key.to_string())),
            MapOperation::Clear => Some(MapEv::Clear),
        }
    }
}

/// History of a value item: `(step, value)`, first entry is the initial (restored) value.
pub fn value_truth(rec: &RunRecord, epoch: usize, item: &str) -> Vec<(u64, i32)> {
    let mut out = vec![];
    let Some(evs) = rec.truth.get(epoch) else { return out };
    for (step, ev) in evs {
        match ev {
            TruthEv::Restored { val, tval, vstore, tvstore, .. } => {
                let v = match item {
                    "val" => *val,
                    "tval" => *tval,
                    "vstore" => *vstore,
                    _ => *tvstore,
                };
                out.push((*step, v));
            }
            TruthEv::Value { item: i, value } if *i == item => out.push((*step, *value)),
            _ => {}
        }
    }
    out
}

/// History of a map item: the initial map and the ordered operations.
pub fn map_truth(rec: &RunRecord, epoch: usize, item: &str) -> (BTreeMap<String, i32>, Vec<(u64, MapEv)>) {
    let mut init = BTreeMap::new();
    let mut ops = vec![];
    let Some(evs) = rec.truth.get(epoch) else { return (init, ops) };
    for (step, ev) in evs {
        match ev {
            TruthEv::Restored { map, bmap, tmap, smap, mstore, .. } => {
                init = match item {
                    "map" => map.iter().map(|(k, v)| (k.to_string(), *v)).collect(),
                    "bmap" => bmap.iter().map(|(k, v)| (k.to_string(), *v)).collect(),
                    "tmap" => tmap.iter().map(|(k, v)| (k.to_string(), *v)).collect(),
                    "smap" => smap.clone(),
                    _ => mstore.iter().map(|(k, v)| (k.to_string(), *v)).collect(),
                };
            }
            TruthEv::Update { item: i, key, value } if *i == item => ops.push((*step, MapEv::Update(key.clone(), *value))),
            TruthEv::Remove { item: i, key } if *i == item => ops.push((*step, MapEv::Remove(key.clone()))),
            TruthEv::Clear { item: i } if *i == item => ops.push((*step, MapEv::Clear)),
            _ => {}
        }
    }
    (init, ops)
}

pub fn apply(map: &mut BTreeMap<String, i32>, ev: &MapEv) {
    match ev {
        MapEv::Update(k, v) => {
            map.insert(k.clone(), *v);
        }
        MapEv::Remove(k) => {
            map.remove(k);
        }
        MapEv::Clear => map.clear(),
    }
}

fn fold_until(init: &BTreeMap<String, i32>, ops: &[(u64, MapEv)], until: u64) -> BTreeMap<String, i32> {
    let mut m = init.clone();
    for (s, ev) in ops {
        if *s > until {
            break;
        }
        apply(&mut m, ev);
    }
    m
}

/// The set of states (Some(v) / None) that `key` had during `[from, to]`.
/// Ordering of the map operations a remote read on one lane: per key the values must follow the lane's own
/// order, an update must not arrive after a clear that came after it, and every clear frame must stand for a
/// clear the lane performed (before the frame was read) after everything already received. In the lenient
/// pass, frames read while a sync request of this remote was unanswered (possible sync events, whose value
/// is the lane's state when the sync was handled) do not raise the floors; an older clear or value that
/// arrives after such a frame is reported as `C02.sync_overtook`.
fn map_order_check(
    peer: u32,
    lane: &str,
    frames: &[&Frame],
    ops: &[(u64, MapEv)],
    clears: &[i64],
    vindex: &HashMap<i32, (usize, u64, String)>,
    sync_reqs: &[&&Sent],
    lenient: bool,
) -> Vec<Violation> {
    let mut out = vec![];
    let mut synced_no = 0usize;
    let mut last_idx_per_key: HashMap<String, usize> = HashMap::new();
    let mut last_idx_per_key_live: HashMap<String, usize> = HashMap::new();
    let mut seen_all = -1i64;
    let mut seen_live = -1i64;
    let mut clear_floor = -1i64;
    for f in frames.iter() {
        match &f.kind {
            FrameKind::Synced => synced_no += 1,
            FrameKind::Event(b) => {
                let in_window = sync_reqs.get(synced_no).map(|r| r.start <= f.step).unwrap_or(false);
                match parse_map_event(lane, b) {
                    Some(MapEv::Update(k, v)) => {
                        if let Some((i, _, tk)) = vindex.get(&v) {
                            if *tk != k {
                                continue;
                            }
                            let i = *i;
                            if let Some(li) = last_idx_per_key.get(&k) {
                                if i < *li {
                                    let live_ok = last_idx_per_key_live.get(&k).map(|l| i >= *l).unwrap_or(true);
                                    if lenient && live_ok {
                                        out.push(Violation::new("C02", "C02.sync_overtook", "perkey", format!("peer {peer} lane {lane}: key {k} value {v} (op {i}) received after op {li}, which was read while a sync of this remote was in progress (a sync event that overtook an older queued live event)")));
                                    } else {
                                        out.push(Violation::new("C02", "C02.perkey", "", format!("peer {peer} lane {lane}: key {k} value {v} (op {i}) received after op {li}")));
                                    }
                                }
                            }
                            let e = last_idx_per_key.entry(k.clone()).or_insert(i);
                            *e = (*e).max(i);
                            if !in_window {
                                let e = last_idx_per_key_live.entry(k.clone()).or_insert(i);
                                *e = (*e).max(i);
                                seen_live = seen_live.max(i as i64);
                            }
                            if (i as i64) < clear_floor {
                                out.push(Violation::new("C02", "C02.clear", "", format!("peer {peer} lane {lane}: update {k}->{v} (lane operation #{i}) received after a clear that was lane operation #{clear_floor}")));
                            }
                            seen_all = seen_all.max(i as i64);
                        }
                    }
                    Some(MapEv::Clear) => {
                        // Earliest lane clear this frame can stand for: one the lane performed before the frame
                        // was read and after everything already received.
                        let happened = |c: &&i64| ops[**c as usize].0 < f.step;
                        let base = if lenient { seen_live } else { seen_all };
                        match clears.iter().filter(happened).find(|c| **c > base.max(clear_floor)).copied() {
                            Some(c) => {
                                if c < seen_all {
                                    out.push(Violation::new("C02", "C02.sync_overtook", "clear", format!("peer {peer} lane {lane}: the clear read at step {} is lane operation #{c}, older than a value already read while a sync of this remote was in progress (a sync event overtook the queued clear)", f.step)));
                                }
                                clear_floor = c;
                                seen_all = seen_all.max(c);
                                seen_live = seen_live.max(c);
                            }
                            None => out.push(Violation::new("C02", "C02.invented", "clear", format!("peer {peer} lane {lane}: clear at step {} that the lane never performed after what was already received", f.step))),
                        }
                    }
                    _ => {}
                }
            }
            _ => {}
        }
    }
    out
}

fn key_states(init: &BTreeMap<String, i32>, ops: &[(u64, MapEv)], key: &str, from: u64, to: u64) -> BTreeSet<Option<i32>> {
    let mut cur = init.get(key).copied();
    let mut out = BTreeSet::new();
    let mut started = false;
    for (s, ev) in ops {
        if *s > to {
            break;
        }
        if *s >= from && !started {
            out.insert(cur);
            started = true;
        }
        match ev {
            MapEv::Update(k, v) if k == key => cur = Some(*v),
            MapEv::Remove(k) if k == key => cur = None,
            MapEv::Clear => cur = None,
            _ => {}
        }
        if *s >= from {
            out.insert(cur);
        }
    }
    if !started {
        out.insert(cur);
    }
    out
}

struct PeerInfo {
    closed_read: Option<u64>,
    closed_write: Option<u64>,
    write_failed: bool,
}

fn peer_info(rec: &RunRecord, peer: u32) -> PeerInfo {
    let mut info = PeerInfo { closed_read: None, closed_write: None, write_failed: false };
    // A remote whose id is taken over by another attachment while it is still attached is closed by the runtime
    // (DuplicateRegistration) at a moment it does not choose: nothing is demanded for it.
    if rec.scenario.peers.iter().any(|p| p.reattach_of == Some(peer) && p.reattach_immediately) {
        info.closed_read = Some(0);
        info.closed_write = Some(0);
        info.write_failed = true;
    }
    for s in rec.hist.sent.iter().filter(|s| s.peer == peer && s.epoch == 0) {
        match s.op {
            Op::CloseRead => info.closed_read = info.closed_read.or(Some(s.start)),
            Op::CloseWrite | Op::TornCmd { .. } => info.closed_write = info.closed_write.or(Some(s.start)),
            _ => {}
        }
        if !s.ok {
            info.write_failed = true;
        }
    }
    info
}

/// One link session of a (peer, lane): frames between a `linked` and the next `unlinked`.
struct Session<'a> {
    linked_step: u64,
    frames: Vec<&'a Frame>,
    closed: Option<&'a Frame>,
}

fn sessions<'a>(frames: &[&'a Frame]) -> (Vec<Session<'a>>, Vec<&'a Frame>) {
    let mut out: Vec<Session> = vec![];
    let mut outside = vec![];
    let mut open = false;
    for f in frames {
        match &f.kind {
            FrameKind::Linked => {
                if !open {
                    out.push(Session { linked_step: f.step, frames: vec![], closed: None });
                    open = true;
                }
            }
            FrameKind::Unlinked(_) => {
                if open {
                    out.last_mut().unwrap().closed = Some(f);
                    open = false;
                } else {
                    outside.push(*f);
                }
            }
            _ => {
                if open {
                    out.last_mut().unwrap().frames.push(f);
                } else {
                    outside.push(*f);
                }
            }
        }
    }
    (out, outside)
}

/// The peers whose requests the runtime attributes to `peer`: itself and, when it attached under the id of a remote
/// that was still attached, that remote (whose channel to the agent stays open and is read under the same id).
fn aliases(rec: &RunRecord, peer: u32) -> Vec<u32> {
    let mut out = vec![peer];
    let mut cur = peer;
    while let Some(p) = rec.scenario.peers.iter().find(|p| p.id == cur && p.reattach_immediately) {
        match p.reattach_of {
            Some(of) if !out.contains(&of) => {
                out.push(of);
                cur = of;
            }
            _ => break,
        }
    }
    out
}

fn requests<'a>(rec: &'a RunRecord, peer: u32, lane: &str) -> Vec<&'a Sent> {
    let group = aliases(rec, peer);
    rec.hist
        .sent
        .iter()
        .filter(|s| {
            group.contains(&s.peer)
                && s.epoch == 0
                && match &s.op {
                    Op::Link { lane: l } | Op::Sync { lane: l } | Op::Unlink { lane: l } => l == lane,
                    _ => false,
                }
        })
        .collect()
}

/// The agent implementation never got past its start-up (it handled nothing) while some remote's
/// attachment never completed: the start-up deadlock between the attachment task, the read task
/// (blocked feeding a lane whose input buffer is full) and the agent waiting for its command channel.
fn startup_deadlock(rec: &RunRecord) -> bool {
    let only_startup = rec
        .truth
        .first()
        .map(|t| t.iter().all(|(_, e)| matches!(e, TruthEv::Restored { .. } | TruthEv::Start)))
        .unwrap_or(true);
    let unattached = rec.scenario.peers.iter().any(|p| p.reattach_of.is_none() && !rec.hist.attached.iter().any(|(_, id)| *id == p.id));
    only_startup && unattached && rec.agent_ends.first().map(|e| e.is_none()).unwrap_or(true)
}

/// True if the peer's script ever syncs with the lane while it has not asked to link first
/// (a static property of the script: "linking implicitly by syncing").
fn syncs_without_link(rec: &RunRecord, peer: u32, lane: &str) -> bool {
    let Some(p) = rec.scenario.peers.iter().find(|p| p.id == peer) else { return false };
    let mut linked = false;
    for op in &p.ops {
        match op {
            Op::Link { lane: l } if l == lane => linked = true,
            Op::Unlink { lane: l } if l == lane => linked = false,
            Op::Sync { lane: l } if l == lane => {
                if !linked {
                    return true;
                }
            }
            _ => {}
        }
    }
    false
}


/// C02, "a take or drop command removes exactly the entries designated by the documented key order": every removal
/// the lane reported to its lifecycle must be explained by a command of the scenario. A removal of key `k` is
/// explained if it continues the expansion of a take / drop that is under way, or starts the expansion of one of
/// the take / drop commands sent to the lane (computed on the lane's map at that moment, in key order: drop(n) the
/// first n keys, take(n) everything after the first n), or if some command of the scenario removes `k` alone
/// (`@remove`, the control commands `rm` / `xf` / `sr`). Commands are not consumed and their timing is ignored
/// (any command of the scenario may explain), so the rule can only err on the lenient side.
fn take_drop_check(rec: &RunRecord, out: &mut Vec<Violation>) {
    let sc = &rec.scenario;
    if sc.fake.is_some() || sc.fake_persist.is_some() {
        return;
    }
    let Some(evs) = rec.truth.first() else { return };
    for (lane, item_no) in [("map", 0), ("bmap", 1), ("tmap", 2), ("smap", -1)] {
        // Commands of the scenario.
        let mut drops: BTreeSet<usize> = BTreeSet::new();
        let mut takes: BTreeSet<usize> = BTreeSet::new();
        let mut singles: BTreeSet<String> = BTreeSet::new();
        for p in &sc.peers {
            for op in &p.ops {
                if let Op::Cmd { lane: l, body } = op {
                    if l != lane {
                        continue;
                    }
                    let b = body.trim();
                    if let Some(r) = b.strip_prefix("@take(").and_then(|r| r.strip_suffix(')')) {
                        if let Ok(n) = r.trim().parse::<usize>() {
                            takes.insert(n);
                        }
                    } else if let Some(r) = b.strip_prefix("@drop(").and_then(|r| r.strip_suffix(')')) {
                        if let Ok(n) = r.trim().parse::<usize>() {
                            drops.insert(n);
                        }
                    } else if let Some(r) = b.strip_prefix("@remove(key:").and_then(|r| r.strip_suffix(')')) {
                        if let Some(k) = recon_key(lane, r.as_bytes()) {
                            singles.insert(k);
                        }
                    }
                }
            }
        }
        for (_, ev) in evs {
            if let TruthEv::Ctl { ctl } = ev {
                match ctl {
                    Ctl::Rem { item, key } if *item == item_no => {
                        singles.insert(key.to_string());
                    }
                    Ctl::Xf { item, key, remove: true, .. } if *item == item_no => {
                        singles.insert(key.to_string());
                    }
                    Ctl::SRem { key } if lane == "smap" => {
                        singles.insert(key.clone());
                    }
                    _ => {}
                }
            }
        }
        // The lane's keys in the documented order (Recon order: numeric for the integer keys, text order for smap).
        let ordered = |m: &BTreeMap<String, i32>| -> Vec<String> {
            let mut ks: Vec<String> = m.keys().cloned().collect();
            if lane != "smap" {
                ks.sort_by_key(|k| k.parse::<i64>().unwrap_or(i64::MAX));
            }
            ks
        };
        let mut map: BTreeMap<String, i32> = BTreeMap::new();
        // Possible remainders of the expansion under way ([] = no command is in the middle of its removals).
        let mut open: BTreeSet<Vec<String>> = BTreeSet::new();
        open.insert(vec![]);
        for (step, ev) in evs {
            match ev {
                TruthEv::Restored { map: m0, bmap, tmap, smap, .. } => {
                    map = match lane {
                        "map" => m0.iter().map(|(k, v)| (k.to_string(), *v)).collect(),
                        "bmap" => bmap.iter().map(|(k, v)| (k.to_string(), *v)).collect(),
                        "tmap" => tmap.iter().map(|(k, v)| (k.to_string(), *v)).collect(),
                        _ => smap.clone(),
                    };
                }
                TruthEv::Update { item, .. } | TruthEv::Clear { item } if *item == lane => {
                    // A handler runs to completion: the next change of the lane comes after the take / drop has made
                    // all of its removals.
                    if !open.contains(&vec![]) {
                        out.push(Violation::new(
                            "C02",
                            "C02.take_drop",
                            &format!("incomplete:{lane}"),
                            format!("lane {lane} at step {step}: a take / drop stopped before it had removed the designated entries (still to remove, per possible command: {:?}; map {:?})", open, ordered(&map)),
                        ));
                    }
                    open.clear();
                    open.insert(vec![]);
                    match ev {
                        TruthEv::Update { key, value, .. } => {
                            map.insert(key.clone(), *value);
                        }
                        _ => map.clear(),
                    }
                }
                TruthEv::MapSnap { item, map: m } if *item == lane => {
                    map = m.clone();
                }
                TruthEv::Remove { item, key } if *item == lane => {
                    let mut next: BTreeSet<Vec<String>> = BTreeSet::new();
                    for e in &open {
                        if e.first() == Some(key) {
                            next.insert(e[1..].to_vec());
                        }
                    }
                    if open.contains(&vec![]) {
                        let ks = ordered(&map);
                        for n in &drops {
                            let exp: Vec<String> = ks.iter().take(*n).cloned().collect();
                            if exp.first() == Some(key) {
                                next.insert(exp[1..].to_vec());
                            }
                        }
                        for n in &takes {
                            let exp: Vec<String> = ks.iter().skip(*n).cloned().collect();
                            if exp.first() == Some(key) {
                                next.insert(exp[1..].to_vec());
                            }
                        }
                        if singles.contains(key) {
                            next.insert(vec![]);
                        }
                    }
                    if next.is_empty() {
                        out.push(Violation::new(
                            "C02",
                            "C02.take_drop",
                            &format!("unexplained_removal:{lane}"),
                            format!(
                                "lane {lane} at step {step}: key {key} was removed from {:?}; no command of the scenario designates it (drop n in {:?}, take n in {:?}, single removals of {:?}; removals under way: {:?})",
                                ordered(&map), drops, takes, singles, open
                            ),
                        ));
                        next.insert(vec![]);
                    }
                    open = next;
                    map.remove(key);
                }
                _ => {}
            }
        }
    }
}

pub fn check(rec: &RunRecord) -> Vec<Violation> {
    let mut out = vec![];
    let sc = &rec.scenario;
    let q = rec.quiescent_step;
    // An injected store fault makes the agent fail (that is the correct reaction): nothing about
    // convergence at quiescence can be demanded of such a run.
    // A run that was cut off by the step limit is incomplete: what must have happened "by the end" is not judged.
    // A control command made the agent task fail: the run is judged like one with a failed store, except that the
    // runtime must still close every open link (below).
    let crashed = rec.truth.first().map(|t| t.iter().any(|(_, e)| matches!(e, TruthEv::Ctl { ctl: Ctl::Crash }))).unwrap_or(false);
    let clean_end = matches!(sc.ending, Ending::Stop | Ending::Timeout) && !rec.store_fault_fired && !rec.step_limit_hit && !crashed;
    let crashed_end = crashed && matches!(sc.ending, Ending::Stop | Ending::Timeout) && !rec.store_fault_fired && !rec.step_limit_hit;
    // The store answered an operation with an error (not a killed process): the agent fails, the runtime is alive and
    // must close every open link all the same.
    let store_failed_end = rec.store_fault_fired && matches!(sc.store_fault, super::scenario::StoreFaultCfg::ErrorAt(_)) && matches!(sc.ending, Ending::Stop | Ending::Timeout) && !rec.step_limit_hit && !crashed;

    // ---------------- C02: the map the lane actually holds (read back with get_map at the end of a control
    // command) equals the fold of the changes its lifecycle handlers were told about.
    if let Some(evs) = rec.truth.first() {
        let mut maps: BTreeMap<&str, BTreeMap<String, i32>> = BTreeMap::new();
        for (step, ev) in evs {
            match ev {
                TruthEv::Restored { map, bmap, tmap, mstore, .. } => {
                    maps.insert("map", map.iter().map(|(k, v)| (k.to_string(), *v)).collect());
                    maps.insert("bmap", bmap.iter().map(|(k, v)| (k.to_string(), *v)).collect());
                    maps.insert("tmap", tmap.iter().map(|(k, v)| (k.to_string(), *v)).collect());
                    maps.insert("mstore", mstore.iter().map(|(k, v)| (k.to_string(), *v)).collect());
                }
                TruthEv::Update { item, key, value } => {
                    maps.entry(item).or_default().insert(key.clone(), *value);
                }
                TruthEv::Remove { item, key } => {
                    maps.entry(item).or_default().remove(key);
                }
                TruthEv::Clear { item } => maps.entry(item).or_default().clear(),
                TruthEv::MapSnap { item, map } => {
                    let folded = maps.entry(item).or_default();
                    if folded != map {
                        out.push(Violation::new(
                            "C02",
                            "C02.lane_state",
                            "handlers_disagree_with_map",
                            format!("item {item} at step {step}: the lane holds {:?} but the changes reported to its lifecycle handlers add up to {:?}", map, folded),
                        ));
                        *folded = map.clone();
                    }
                }
                _ => {}
            }
        }
    }

    take_drop_check(rec, &mut out);

    // Frames of the first incarnation grouped by (peer, lane).
    let mut by_pl: BTreeMap<(u32, String), Vec<&Frame>> = BTreeMap::new();
    for f in rec.hist.frames.iter().filter(|f| f.epoch == 0) {
        by_pl.entry((f.peer, f.lane.clone())).or_default().push(f);
        if f.node != super::run::NODE_URI {
            out.push(Violation::new("C04", "C04.wrong_node", "", format!("peer {} got a frame for node {:?}", f.peer, f.node)));
        }
    }

    // ---- General health: panics, liveness.
    for p in &rec.panics {
        out.push(Violation::new(
            "C04",
            "C04.panic",
            &p.node.trim_end_matches(char::is_numeric).to_string(),
            format!("node {} panicked at step {}: {}", p.node, p.step, p.message),
        ));
    }
    // Hitting the step budget is a harness limit (tiny channels, long bursts), not a violation:
    // such runs are counted and only the step-by-step invariants are evaluated for them.

    // Lanes of the scripted agent that failed (lane name -> step of the failure).
    let failed_lanes: HashMap<&'static str, u64> = rec
        .truth
        .first()
        .map(|t| t.iter().filter_map(|(s, e)| if let TruthEv::LaneFailed { item } = e { Some((*item, *s)) } else { None }).collect())
        .unwrap_or_default();

    for ((peer, lane), frames) in by_pl.iter() {
        let info = peer_info(rec, *peer);
        let lane_failed = failed_lanes.get(lane.as_str()).copied();
        let reqs = requests(rec, *peer, lane);
        let known = KNOWN_LANES.contains(&lane.as_str());
        // A peer that itself asked to unlink races with its own earlier requests (an unlink landing in
        // the middle of a sync response is followed by an implicit re-link for the rest of it); from
        // its first unlink request on, only grammar / integrity / ordering are checked for that lane.
        let first_unlink: Option<u64> = reqs.iter().filter(|s| matches!(s.op, Op::Unlink { .. })).map(|s| s.start).min();
        let link_kind = if syncs_without_link(rec, *peer, lane) { "implicit_link" } else { "explicit_link" };
        // ---------------- C04 grammar
        if !known {
            for f in frames {
                match &f.kind {
                    FrameKind::Unlinked(Some(b)) if b.as_slice() == b"@laneNotFound" => {}
                    other => out.push(Violation::new(
                        "C04",
                        "C04.unknown_lane_frame",
                        "",
                        format!("peer {peer} lane {lane:?}: frame {:?} for a lane that does not exist", other),
                    )),
                }
            }
            let n_req = reqs.iter().filter(|s| s.ok && s.end <= f_last_step(frames).max(q.unwrap_or(0))).count();
            let n_all = reqs.len();
            if frames.len() > n_all {
                out.push(Violation::new("C04", "C04.unknown_lane_count", "more", format!("peer {peer} lane {lane:?}: {} unlinked frames for {} requests", frames.len(), n_all)));
            }
            // (A remote the runtime itself gave up on - no link for the prune delay, failed write - is no longer answered.)
            let given_up = rec.hist.disconnects.iter().any(|(_, p, why)| p == peer && (why.contains("RemoteTimedOut") || why.contains("ChannelClosed")));
            let aliased = aliases(rec, *peer).len() > 1;
            if clean_end && q.is_some() && info.closed_read.is_none() && info.closed_write.is_none() && !info.write_failed && !given_up && !aliased {
                let before_q = frames.iter().filter(|f| f.step <= q.unwrap()).count();
                let reqs_done = reqs.iter().filter(|s| s.ok && s.end <= q.unwrap()).count();
                if before_q != reqs_done {
                    out.push(Violation::new("C04", "C04.unknown_lane_count", "fewer", format!("peer {peer} lane {lane:?}: {before_q} lane-not-found answers for {reqs_done} requests at quiescence")));
                }
            }
            let _ = n_req;
            continue;
        }
        let mut linked = false;
        let mut n_linked = 0usize;
        let mut n_synced = 0usize;
        let mut n_unlinked = 0usize;
        for f in frames {
            let links_started = reqs.iter().filter(|s| s.start < f.step && matches!(s.op, Op::Link { .. })).count();
            let syncs_started = reqs.iter().filter(|s| s.start < f.step && matches!(s.op, Op::Sync { .. })).count();
            match &f.kind {
                FrameKind::Linked => {
                    n_linked += 1;
                    // A `linked` answers an explicit link request or is the implicit link of a sync; an
                    // unlink that lands in the middle of a sync response may be followed by one more
                    // implicit link (the rest of that response).
                    if n_linked > links_started + syncs_started + n_unlinked || links_started + syncs_started == 0 {
                        out.push(Violation::new("C04", "C04.linked_unrequested", "", format!("peer {peer} lane {lane}: linked #{n_linked} at step {} but only {links_started} link and {syncs_started} sync requests had been made", f.step)));
                    }
                    linked = true;
                }
                FrameKind::Synced => {
                    n_synced += 1;
                    if !linked {
                        out.push(Violation::new("C04", "C04.synced_outside_link", "", format!("peer {peer} lane {lane}: synced at step {} outside a link", f.step)));
                        // The same observation is the first clause of C03: a remote that syncs receives linked,
                        // then events, then synced.
                        out.push(Violation::new("C03", "C03.session", "synced_without_linked", format!("peer {peer} lane {lane}: synced at step {} was not preceded by linked", f.step)));
                    }
                    if n_synced > syncs_started {
                        out.push(Violation::new("C04", "C04.synced_unrequested", "", format!("peer {peer} lane {lane}: synced #{n_synced} at step {} but only {syncs_started} sync requests", f.step)));
                    }
                }
                FrameKind::Event(b) => {
                    if !linked {
                        out.push(Violation::new("C04", "C04.event_outside_link", "", format!("peer {peer} lane {lane}: event {:?} at step {} outside a link", body_text(b), f.step)));
                    }
                }
                FrameKind::Unlinked(body) => {
                    // (A request for a lane that has failed may be answered like one for a lane that does not exist.)
                    let not_found_after_failure = matches!(body, Some(b) if b.as_slice() == b"@laneNotFound") && lane_failed.map(|fs| f.step >= fs).unwrap_or(false);
                    if !linked && !not_found_after_failure {
                        out.push(Violation::new("C04", "C04.unlinked_outside_link", "", format!("peer {peer} lane {lane}: unlinked {:?} at step {} outside a link", body.as_ref().map(|b| body_text(b)), f.step)));
                    }
                    // (after a lane has failed it no longer exists: lane-not-found is then the right answer)
                    if matches!(body, Some(b) if b.as_slice() == b"@laneNotFound") && lane_failed.is_none() {
                        out.push(Violation::new("C04", "C04.lane_not_found_for_known_lane", "", format!("peer {peer} lane {lane}")));
                    }
                    // A link is only closed for a reason: the remote asked, the lane failed or the agent is
                    // stopping. The lanes of the real agent model do not fail, so an unlinked that the remote
                    // did not ask for, read while the agent is still up at quiescence, has no reason.
                    let asked = reqs.iter().any(|s| matches!(s.op, Op::Unlink { .. }) && s.start <= f.step);
                    let agent_up_at_quiescence = match (q, rec.agent_ends.first()) {
                        (Some(qs), Some(end)) => f.step <= qs && end.as_ref().map(|e| e.step > qs).unwrap_or(true),
                        _ => false,
                    };
                    if linked
                        && !asked
                        && clean_end
                        && agent_up_at_quiescence
                        && lane_failed.is_none()
                        && rec.scenario.fake.is_none()
                        && rec.scenario.fake_persist.is_none()
                        && info.closed_read.is_none()
                        && info.closed_write.is_none()
                        && !info.write_failed
                    {
                        out.push(Violation::new("C04", "C04.unlinked_unrequested", "", format!("peer {peer} lane {lane}: unlinked {:?} at step {} although the remote never asked to unlink, the agent is not stopping and no lane failed", body.as_ref().map(|b| body_text(b)), f.step)));
                        out.push(Violation::new("C03", "C03.session", "link_lost", format!("peer {peer} lane {lane}: the link was closed at step {} without the remote asking for it: what the lane does afterwards no longer reaches the remote", f.step)));
                        out.push(Violation::new("C01", "C01.link_lost", "", format!("peer {peer} lane {lane}: the link was closed at step {} without the remote asking for it", f.step)));
                        out.push(Violation::new("C02", "C02.link_lost", "", format!("peer {peer} lane {lane}: the link was closed at step {} without the remote asking for it", f.step)));
                        out.push(Violation::new("C14", "C14.link_lost", "", format!("peer {peer} lane {lane}: the link was closed at step {} without the remote asking for it", f.step)));
                    }
                    linked = false;
                    n_unlinked += 1;
                }
            }
        }
        // On a clean stop every link that is open must be closed with unlinked (peers keep reading).
        if (clean_end || crashed_end || store_failed_end) && rec.agent_ends.first().map(|e| e.is_some()).unwrap_or(false) && info.closed_read.is_none() && linked {
            let reader_ended_early = rec.hist.reader_end.iter().any(|(_, p, why)| p == peer && why.starts_with("io-error"));
            // A remote that the runtime itself gave up on earlier (it held no link for the prune delay, or a write to it
            // failed) is not told anything when the agent stops later.
            let dropped_by_runtime = rec.hist.disconnects.iter().any(|(_, p, why)| p == peer && (why.contains("RemoteTimedOut") || why.contains("ChannelClosed")));
            // When the agent task fails the runtime closes the links at once: a remote that is not reading at that
            // moment (its channel is full) cannot be told.
            let frozen_then = (crashed_end || store_failed_end) && rec.hist.freezes.iter().any(|(s, p)| p == peer && rec.agent_ends.first().and_then(|e| e.as_ref()).map(|e| *s <= e.step).unwrap_or(false));
            if !reader_ended_early && !dropped_by_runtime && !frozen_then {
                if store_failed_end {
                    out.push(Violation::new("C04", "C04.stop_without_unlinked", "store_failed", format!("peer {peer} lane {lane}: link still open after a store operation failed and the agent and its runtime stopped")));
                } else if crashed_end {
                    out.push(Violation::new("C04", "C04.stop_without_unlinked", "agent_failed", format!("peer {peer} lane {lane}: link still open after the agent task failed and the runtime stopped")));
                } else {
                    out.push(Violation::new("C04", "C04.stop_without_unlinked", "", format!("peer {peer} lane {lane}: link still open after the agent stopped cleanly")));
                }
            }
        }

        // When a lane fails every open link to it is closed with unlinked.
        // (Only an undecodable frame is a *failure* for the runtime; a lane that merely closes its
        // channel is treated as having ended and its links are closed when the agent stops.)
        let garbage = matches!(rec.scenario.fake.as_ref().map(|f| &f.mode), Some(super::fake::FailMode::Garbage | super::fake::FailMode::TornFrame));
        // A lane that drops its channels at a frame boundary has failed just as well (it can never produce anything
        // again); the runtime does not see it that way - its own class (recorded finding).
        let ended = matches!(rec.scenario.fake.as_ref().map(|f| &f.mode), Some(super::fake::FailMode::DropIo));
        if let (Some(fs), Some(qs), true, true) = (lane_failed, q, clean_end, garbage || ended) {
            // Only links that were open when the lane failed are covered by the statement: a link
            // requested after the failure is out of scope (the runtime accepts it; recorded as an observation).
            let requested_after = reqs.iter().any(|s| matches!(s.op, Op::Link { .. } | Op::Sync { .. }) && s.end >= fs);
            // ... and the link must definitely have been open at that moment: the remote had already
            // read the `linked` of the session that is still open.
            let open_since = {
                let mut since = None;
                for f in frames.iter().filter(|f| f.step <= qs) {
                    match f.kind {
                        FrameKind::Linked => {
                            if since.is_none() {
                                since = Some(f.step);
                            }
                        }
                        FrameKind::Unlinked(_) => since = None,
                        _ => {}
                    }
                }
                since
            };
            let requested_after = requested_after || open_since.map(|s| s >= fs).unwrap_or(true);
            if fs <= qs && !requested_after && info.closed_read.is_none() && info.closed_write.is_none() && !info.write_failed && in_link_at(frames, qs) {
                out.push(Violation::new("C04", "C04.lane_failure_link_left_open", if ended { "lane_ended" } else { "" }, format!("peer {peer} lane {lane}: the lane failed at step {fs} but the link is still open at quiescence (step {qs})")));
            }
        }
        if lane_failed.is_some() {
            // Convergence / snapshot clauses do not apply to a lane that failed.
            continue;
        }
        // A remote that took over the id of one that was still attached: the answers to what the replaced remote asked
        // for on this lane are split between the two channels; what the new one holds is then not a replica it asked for.
        if reqs.iter().any(|s| s.peer != *peer && matches!(s.op, Op::Link { .. } | Op::Sync { .. })) {
            continue;
        }

        let (sess, _outside) = sessions(frames);

        // ---------------- C01 / C03 value lanes
        if VALUE_LANES.contains(&lane.as_str()) {
            let h = value_truth(rec, 0, lane);
            let index: HashMap<i32, usize> = {
                let mut m = HashMap::new();
                for (i, (_, v)) in h.iter().enumerate() {
                    m.entry(*v).or_insert(i);
                }
                m
            };
            let mut last_idx: Option<usize> = None;
            for f in frames.iter() {
                if let FrameKind::Event(b) = &f.kind {
                    let parsed = std::str::from_utf8(b).ok().and_then(|t| t.trim().parse::<i32>().ok());
                    let canonical = parsed.map(|v| v.to_string().into_bytes() == *b).unwrap_or(false);
                    match parsed.and_then(|v| index.get(&v).map(|i| (v, *i))) {
                        None => {
                            out.push(Violation::new("C01", "C01.invented", if b.is_empty() { "empty_body" } else { "unknown_value" },
                                format!("peer {peer} lane {lane}: event body {:?} at step {} is not a value the lane held", body_text(b), f.step)));
                            out.push(Violation::new("C04", "C04.integrity", if b.is_empty() { "empty_body" } else { "unknown_value" },
                                format!("peer {peer} lane {lane}: event body {:?} at step {} was not produced by the lane", body_text(b), f.step)));
                        }
                        Some((v, i)) => {
                            if !canonical {
                                out.push(Violation::new("C04", "C04.integrity", "noncanonical", format!("peer {peer} lane {lane}: body {:?}", body_text(b))));
                            }
                            if h[i].0 >= f.step {
                                out.push(Violation::new("C01", "C01.from_future", "", format!("peer {peer} lane {lane}: value {v} read at step {} before the lane held it (step {})", f.step, h[i].0)));
                            }
                            if let Some(li) = last_idx {
                                if i < li {
                                    out.push(Violation::new("C01", "C01.subseq", "", format!("peer {peer} lane {lane}: value {v} (index {i}) received after index {li}")));
                                }
                            }
                            last_idx = Some(last_idx.map(|l| l.max(i)).unwrap_or(i));
                        }
                    }
                }
            }
            // Final value at quiescence.
            if let (Some(qs), true) = (q, clean_end) {
                if first_unlink.is_none() && info.closed_read.is_none() && info.closed_write.is_none() && !info.write_failed {
                    if let Some(s) = sess.last() {
                        let open_at_q = s.closed.map(|c| c.step > qs).unwrap_or(true) && s.linked_step <= qs;
                        if open_at_q {
                            let final_v = h.iter().filter(|(st, _)| *st <= qs).last().map(|(_, v)| *v);
                            let events: Vec<i32> = s
                                .frames
                                .iter()
                                .filter(|f| f.step <= qs)
                                .filter_map(|f| match &f.kind {
                                    FrameKind::Event(b) => std::str::from_utf8(b).ok().and_then(|t| t.parse::<i32>().ok()),
                                    _ => None,
                                })
                                .collect();
                            let changed_after = h.iter().any(|(st, _)| *st > s.linked_step && *st <= qs);
                            if changed_after || !events.is_empty() {
                                if events.last().copied() != final_v {
                                    out.push(Violation::new("C01", "C01.final", "", format!(
                                        "peer {peer} lane {lane}: last value received {:?} but the lane holds {:?} at quiescence (linked read at step {}, {} events)",
                                        events.last(), final_v, s.linked_step, events.len())));
                                }
                            }
                        }
                    }
                }
            }
            // C03 snapshot for value lanes.
            let sync_reqs: Vec<&&Sent> = reqs.iter().filter(|s| matches!(s.op, Op::Sync { .. })).collect();
            let mut synced_no = 0usize;
            let mut last_val: Option<i32> = None;
            let mut in_link = false;
            for f in frames.iter() {
                match &f.kind {
                    FrameKind::Linked => {
                        if !in_link {
                            last_val = None;
                        }
                        in_link = true;
                    }
                    FrameKind::Unlinked(_) => {
                        in_link = false;
                    }
                    FrameKind::Event(b) => {
                        last_val = std::str::from_utf8(b).ok().and_then(|t| t.parse::<i32>().ok()).or(last_val);
                    }
                    FrameKind::Synced => {
                        if let Some(req) = sync_reqs.get(synced_no).filter(|_| first_unlink.map(|u| u > f.step).unwrap_or(true)) {
                            let from = req.start;
                            let to = f.step;
                            let mut held: BTreeSet<i32> = BTreeSet::new();
                            let mut cur = None;
                            for (st, v) in h.iter() {
                                if *st <= from {
                                    cur = Some(*v);
                                } else if *st <= to {
                                    held.insert(*v);
                                }
                            }
                            if let Some(c) = cur {
                                held.insert(c);
                            }
                            match last_val {
                                None => out.push(Violation::new("C03", "C03.snapshot", "value_missing", format!("peer {peer} lane {lane}: synced at step {to} without any value"))),
                                Some(v) if !held.contains(&v) => out.push(Violation::new("C03", "C03.snapshot", "value_stale", format!(
                                    "peer {peer} lane {lane}: at synced (step {to}) the replica holds {v}, but the lane held {:?} between the sync request (step {from}) and then", held))),
                                _ => {}
                            }
                        }
                        synced_no += 1;
                    }
                }
            }
        }

        // ---------------- C02 / C03 map lanes
        if MAP_LANES.contains(&lane.as_str()) {
            let (init, ops) = map_truth(rec, 0, lane);
            // value -> (truth step, key)
            let mut vindex: HashMap<i32, (usize, u64, String)> = HashMap::new();
            for (i, (st, ev)) in ops.iter().enumerate() {
                if let MapEv::Update(k, v) = ev {
                    vindex.entry(*v).or_insert((i, *st, k.clone()));
                }
            }
            // Positions (in the lane's own order of operations) of the clears; several operations of
            // one handler share a step number, so the order is taken from positions, not steps.
            let clears: Vec<i64> = ops.iter().enumerate().filter(|(_, (_, e))| matches!(e, MapEv::Clear)).map(|(i, _)| i as i64).collect();
            let sync_reqs: Vec<&&Sent> = reqs.iter().filter(|s| matches!(s.op, Op::Sync { .. })).collect();
            let mut synced_no = 0usize;
            let mut replica: BTreeMap<String, i32> = BTreeMap::new();
            let mut in_link = false;
            // Ordering of what the remote read (per key, and with respect to clears): strict pass first;
            // if it finds something, a second pass in which frames read while a sync of this remote was
            // unanswered (possible sync events) do not raise the floors. What only the strict pass
            // objects to is attributed to the recorded finding C03.snapshot:key_stale.
            {
                let strict = map_order_check(*peer, lane, frames, &ops, &clears, &vindex, &sync_reqs, false);
                if strict.is_empty() {
                } else {
                    let lenient = map_order_check(*peer, lane, frames, &ops, &clears, &vindex, &sync_reqs, true);
                    if lenient.iter().all(|v| v.rule == "C02.sync_overtook") && !lenient.is_empty() {
                        out.extend(lenient);
                    } else {
                        out.extend(strict);
                    }
                }
            }
            let mut session_synced = false;
            let mut session_linked_step = 0u64;
            for f in frames.iter() {
                match &f.kind {
                    FrameKind::Linked => {
                        if !in_link {
                            replica.clear();
                            session_synced = false;
                            session_linked_step = f.step;
                        }
                        in_link = true;
                    }
                    FrameKind::Unlinked(_) => in_link = false,
                    FrameKind::Event(b) => match parse_map_event(lane, b) {
                        None => {
                            out.push(Violation::new("C02", "C02.invented", "undecodable", format!("peer {peer} lane {lane}: undecodable event body {:?} at step {}", body_text(b), f.step)));
                            out.push(Violation::new("C04", "C04.integrity", "undecodable", format!("peer {peer} lane {lane}: undecodable event body {:?}", body_text(b))));
                        }
                        Some(ev) => {
                            match &ev {
                                MapEv::Update(k, v) => match vindex.get(v) {
                                    Some((i, st, tk)) if tk == k => {
                                        if *st >= f.step {
                                            out.push(Violation::new("C02", "C02.from_future", "", format!("peer {peer} lane {lane}: {k}->{v} read at {} before it happened ({st})", f.step)));
                                        }
                                        let _ = i;
                                    }
                                    _ => {
                                        // The initial (restored) map may be sent by a sync.
                                        if init.get(k) != Some(v) {
                                            out.push(Violation::new("C02", "C02.invented", "unknown_value", format!("peer {peer} lane {lane}: update {k}->{v} at step {} never happened on the lane", f.step)));
                                            out.push(Violation::new("C04", "C04.integrity", "unknown_value", format!("peer {peer} lane {lane}: update {k}->{v} was not produced by the lane")));
                                        }
                                    }
                                },
                                MapEv::Remove(_) => {}
                                MapEv::Clear => {
                                }
                            }
                            apply(&mut replica, &ev);
                        }
                    },
                    FrameKind::Synced => {
                        session_synced = true;
                        if let Some(req) = sync_reqs.get(synced_no).filter(|_| first_unlink.map(|u| u > f.step).unwrap_or(true)) {
                            let from = req.start;
                            let to = f.step;
                            let mut keys: BTreeSet<String> = replica.keys().cloned().collect();
                            keys.extend(init.keys().cloned());
                            for (_, e) in ops.iter() {
                                if let MapEv::Update(k, _) = e {
                                    keys.insert(k.clone());
                                }
                            }
                            for k in keys {
                                let states = key_states(&init, &ops, &k, from, to);
                                let have = replica.get(&k).copied();
                                if !states.contains(&have) {
                                    let kind = format!("{}:{link_kind}", if have.is_none() { "key_missing" } else { "key_stale" });
                                    let kind = kind.as_str();
                                    out.push(Violation::new("C03", "C03.snapshot", kind, format!(
                                        "peer {peer} lane {lane}: at synced (step {to}) key {k} is {:?} in the replica, but the lane held {:?} between the sync request (step {from}) and then",
                                        have, states)));
                                }
                            }
                        }
                        synced_no += 1;
                    }
                }
            }
            // Replica convergence at quiescence.
            if let (Some(qs), true) = (q, clean_end) {
                if in_link_at(frames, qs) && first_unlink.is_none() && info.closed_read.is_none() && info.closed_write.is_none() && !info.write_failed {
                    let first_mutation = ops.first().map(|(s, _)| *s);
                    let linked_before_all = init.is_empty() && first_mutation.map(|m| m > session_linked_step).unwrap_or(true);
                    if session_synced || linked_before_all {
                        // Recompute the replica using only frames up to quiescence.
                        let mut rep: BTreeMap<String, i32> = BTreeMap::new();
                        let mut open = false;
                        for f in frames.iter().filter(|f| f.step <= qs) {
                            match &f.kind {
                                FrameKind::Linked => {
                                    if !open {
                                        rep.clear();
                                    }
                                    open = true;
                                }
                                FrameKind::Unlinked(_) => open = false,
                                FrameKind::Event(b) => {
                                    if let Some(ev) = parse_map_event(lane, b) {
                                        apply(&mut rep, &ev);
                                    }
                                }
                                _ => {}
                            }
                        }
                        let lane_map = fold_until(&init, &ops, qs);
                        if rep != lane_map {
                            let missing: Vec<_> = lane_map.iter().filter(|(k, v)| rep.get(*k) != Some(*v)).map(|(k, v)| format!("{k}->{v}")).collect();
                            let extra: Vec<_> = rep.iter().filter(|(k, _)| !lane_map.contains_key(*k)).map(|(k, v)| format!("{k}->{v}")).collect();
                            let kind = if session_synced { format!("after_sync:{link_kind}") } else { "linked_from_start".to_string() };
                            let kind = kind.as_str();
                            out.push(Violation::new("C02", "C02.replica", kind, format!(
                                "peer {peer} lane {lane}: replica differs from the lane at quiescence; lane has {:?}; wrong/missing in replica: {:?}; extra in replica: {:?}",
                                lane_map, missing, extra)));
                            if session_synced {
                                out.push(Violation::new("C03", "C03.tail", link_kind, format!(
                                    "peer {peer} lane {lane}: synced replica did not converge; wrong/missing {:?}, extra {:?}", missing, extra)));
                            }
                        }
                    }
                }
            }
        }

        // ---------------- C14 supply lane
        if lane == "sup" {
            let pushes: Vec<(u64, i32)> = rec.truth.first().map(|t| t.iter().filter_map(|(s, e)| match e {
                TruthEv::Push { value } => Some((*s, *value)),
                _ => None,
            }).collect()).unwrap_or_default();
            let pidx: HashMap<i32, usize> = pushes.iter().enumerate().map(|(i, (_, v))| (*v, i)).collect();
            let mut last: Option<usize> = None;
            let mut got: BTreeSet<i32> = BTreeSet::new();
            for f in frames.iter() {
                if let FrameKind::Event(b) = &f.kind {
                    let v = std::str::from_utf8(b).ok().and_then(|t| t.parse::<i32>().ok());
                    match v.and_then(|v| pidx.get(&v).map(|i| (v, *i))) {
                        None => {
                            out.push(Violation::new("C14", "C14.supply_invented", "", format!("peer {peer}: supply event {:?} was never pushed", body_text(b))));
                            out.push(Violation::new("C04", "C04.integrity", "supply", format!("peer {peer}: supply event {:?} was never pushed", body_text(b))));
                        }
                        Some((v, i)) => {
                            if !got.insert(v) {
                                out.push(Violation::new("C14", "C14.supply_duplicate", "", format!("peer {peer}: supply item {v} delivered twice")));
                            } else if let Some(l) = last {
                                if i < l {
                                    out.push(Violation::new("C14", "C14.supply_order", "", format!("peer {peer}: supply item {v} (push #{i}) after push #{l}")));
                                }
                            }
                            last = Some(last.map(|l| l.max(i)).unwrap_or(i));
                        }
                    }
                }
            }
            if let (Some(qs), true) = (q, clean_end) {
                // A remote that unlinks forfeits what was still queued for it (the unlinked
                // notification deliberately discards the lane's pending data).
                if first_unlink.is_none() && info.closed_read.is_none() && info.closed_write.is_none() && !info.write_failed {
                    // Windows in which the peer was definitely linked: from reading `linked` until it
                    // started writing an unlink (or read an unlinked).
                    let unlink_starts: Vec<u64> = reqs.iter().filter(|s| matches!(s.op, Op::Unlink { .. })).map(|s| s.start).collect();
                    for s in sess.iter() {
                        let from = s.linked_step;
                        let mut to = s.closed.map(|c| c.step).unwrap_or(qs).min(qs);
                        if let Some(u) = unlink_starts.iter().find(|u| **u > from) {
                            to = to.min(*u);
                        }
                        for (ps, v) in pushes.iter() {
                            if *ps > from && *ps < to && !got.contains(v) {
                                out.push(Violation::new("C14", "C14.supply_lost", "", format!(
                                    "peer {peer}: item {v} pushed at step {ps} while the peer was linked (linked read at {from}, window end {to}) was never delivered")));
                                break;
                            }
                        }
                    }
                }
            }
        }
    }

    // ---------------- Liveness of requests: a link / sync request that a reliable remote wrote completely to a lane that
    // exists is answered by quiescence, unless the runtime had legitimately given the remote up (it held no link for the
    // whole prune delay). "No answer at all" is judged, so races between a request and an unlink do not matter.
    if let (Some(qs), true, true) = (q, clean_end, sc.fake.is_none() && sc.fake_persist.is_none()) {
        let agent_up = rec.agent_ends.first().map(|e| e.as_ref().map(|e| e.step > qs).unwrap_or(true)).unwrap_or(false);
        for peer in sc.peers.iter().filter(|_| agent_up) {
            let info = peer_info(rec, peer.id);
            let attached = rec.hist.attached.iter().any(|(_, id)| *id == peer.id);
            let all_ok = rec.hist.sent.iter().filter(|s| s.peer == peer.id && s.epoch == 0).all(|s| s.ok && s.end <= qs);
            if !attached || !all_ok || info.closed_read.is_some() || info.closed_write.is_some() || info.write_failed || rec.frozen_peers.contains(&peer.id) || rec.stuck_writers.contains(&peer.id) || peer.one_way {
                continue;
            }
            // Dropped by the runtime: legitimate only after the prune delay (counted from the attachment).
            let att_ms = rec.hist.attached_ms.iter().find(|(p, _)| *p == peer.id).map(|(_, m)| *m);
            let dropped = rec.hist.disconnects.iter().find(|(s, p, why)| *p == peer.id && *s <= qs && (why.contains("RemoteTimedOut") || why.contains("ChannelClosed")));
            if let Some((_, _, why)) = dropped {
                let gone_ms = rec.hist.disconnect_ms.iter().find(|(p, _)| *p == peer.id).map(|(_, m)| *m);
                let early = why.contains("RemoteTimedOut") && matches!((att_ms, gone_ms), (Some(a), Some(g)) if g < a + sc.knobs.prune_ms);
                if !early {
                    continue;
                }
            }
            // (Value, map and supply lanes; how a command lane treats link and sync requests is not judged.)
            for lane in ["val", "tval", "map", "bmap", "tmap", "smap", "sup"] {
                if failed_lanes.contains_key(lane) {
                    continue;
                }
                let links = peer.ops.iter().filter(|o| matches!(o, Op::Link { lane: l } | Op::Sync { lane: l } if l == lane)).count();
                let syncs = peer.ops.iter().filter(|o| matches!(o, Op::Sync { lane: l } if l == lane)).count();
                let frames: Vec<&Frame> = rec.hist.frames.iter().filter(|f| f.epoch == 0 && f.peer == peer.id && f.lane == lane).collect();
                let linked = frames.iter().filter(|f| matches!(f.kind, FrameKind::Linked)).count();
                let synced = frames.iter().filter(|f| matches!(f.kind, FrameKind::Synced)).count();
                if links > 0 && linked == 0 {
                    out.push(Violation::new("C04", "C04.live", "link_never_answered", format!("peer {} lane {lane}: {links} link / sync requests were written completely but no linked frame ever arrived (runtime's view of the remote: {:?})", peer.id, dropped.map(|d| d.2.clone()))));
                    out.push(Violation::new("C03", "C03.session", "never_linked", format!("peer {} lane {lane}: {links} link / sync requests were written completely but no linked frame ever arrived", peer.id)));
                } else if syncs > 0
                    && synced == 0
                    && !aliases(rec, peer.id).iter().any(|a| sc.peers.iter().any(|p| p.id == *a && p.ops.iter().any(|o| matches!(o, Op::Unlink { lane: l } if l == lane))))
                {
                    out.push(Violation::new("C03", "C03.session", "never_synced", format!("peer {} lane {lane}: {syncs} sync requests were written completely but no synced frame ever arrived", peer.id)));
                }
            }
        }
    }

    // ---------------- C17 (system level): the agent stops for inactivity only when every task has an outstanding vote,
    // i.e. not before a full inactivity period has passed since the last lane activity its own handlers saw (each such
    // event follows an envelope the read task received and is followed by a response the write task wrote at the same
    // simulated instant).
    if let (Some(Some(end)), None, false, true) = (rec.agent_ends.first(), rec.stop_step, crashed, sc.fake.is_none() && sc.fake_persist.is_none()) {
        let stopped_by_itself = end.result == "Ok" && rec.crash_step.is_none() && !rec.store_fault_fired && !rec.step_limit_hit;
        if stopped_by_itself {
            if let (Some(times), Some(evs)) = (rec.handler_times.first(), rec.truth.first()) {
                if times.len() == evs.len() {
                    let stop_ms = evs.iter().zip(times.iter()).find(|((_, e), _)| matches!(e, TruthEv::Stop)).map(|(_, (_, m))| *m).unwrap_or(end.sim_ms);
                    let last = evs
                        .iter()
                        .zip(times.iter())
                        .filter(|((s, e), _)| *s < end.step && !matches!(e, TruthEv::Restored { .. } | TruthEv::Start | TruthEv::Stop))
                        .map(|(_, t)| *t)
                        .last();
                    // The read task has no outstanding vote for a full period after every envelope it received: one that a
                    // remote (attached before) had written completely at an earlier simulated instant than the stop was
                    // received then (simulated time only passes while every task is idle).
                    let last_env = rec
                        .hist
                        .sent
                        .iter()
                        .filter(|s| s.epoch == 0 && s.ok && matches!(s.op, Op::Cmd { .. } | Op::Link { .. } | Op::Sync { .. } | Op::Unlink { .. }))
                        .filter(|s| rec.hist.attached.iter().any(|(st, p)| *p == s.peer && *st < s.start))
                        .filter(|s| !matches!(peer_info(rec, s.peer), PeerInfo { closed_write: Some(c), .. } if c <= s.start))
                        .filter(|s| s.end_ms < stop_ms)
                        .map(|s| (s.end, s.end_ms))
                        .max_by_key(|(_, ms)| *ms);
                    if let Some((step, ms)) = last_env {
                        if stop_ms < ms + sc.knobs.inactive_timeout_ms {
                            out.push(Violation::new("C17", "C17.stopped_while_active", "envelope", format!(
                                "the agent stopped by itself at {stop_ms} ms although a remote had written an envelope to it at {ms} ms (step {step}), less than the inactivity period of {} ms before: the read task cannot have had a vote outstanding",
                                sc.knobs.inactive_timeout_ms)));
                        }
                    }
                    if let Some((step, ms)) = last {
                        if stop_ms < ms + sc.knobs.inactive_timeout_ms {
                            out.push(Violation::new("C17", "C17.stopped_while_active", "agent", format!(
                                "the agent stopped by itself at {stop_ms} ms although its handlers had seen lane activity at {ms} ms (step {step}), less than the inactivity period of {} ms before",
                                sc.knobs.inactive_timeout_ms)));
                        }
                    }
                }
            }
        }
    }

    // ---------------- C14 command lane: exactly once, in order per sender.
    // (A start-up deadlock is reported once, under C04.live, not as lost commands.)
    if let (Some(qs), true, false) = (q, clean_end, startup_deadlock(rec)) {
        let handled: Vec<i32> = rec.truth.first().map(|t| t.iter().filter(|(s, _)| *s <= qs).filter_map(|(_, e)| match e {
            TruthEv::Command { value } => Some(*value),
            _ => None,
        }).collect()).unwrap_or_default();
        let mut owner: HashMap<i32, u32> = HashMap::new();
        let mut sent_by: BTreeMap<u32, Vec<i32>> = BTreeMap::new();
        let mut unsure: BTreeSet<u32> = BTreeSet::new();
        for s in rec.hist.sent.iter().filter(|s| s.epoch == 0) {
            if let Op::Cmd { lane, body } = &s.op {
                if lane == "cmd" {
                    if let Ok(v) = body.parse::<i32>() {
                        owner.insert(v, s.peer);
                        if s.ok && s.end <= qs {
                            sent_by.entry(s.peer).or_default().push(v);
                        } else {
                            unsure.insert(s.peer);
                        }
                    }
                }
            }
        }
        for p in rec.stuck_writers.iter() {
            unsure.insert(*p);
        }
        let mut handled_by: BTreeMap<u32, Vec<i32>> = BTreeMap::new();
        for v in &handled {
            match owner.get(v) {
                Some(p) => handled_by.entry(*p).or_default().push(*v),
                None => out.push(Violation::new("C14", "C14.command_invented", "", format!("command handler ran with {v}, which nobody sent"))),
            }
        }
        for (p, sent) in sent_by.iter() {
            let got = handled_by.get(p).cloned().unwrap_or_default();
            let info = peer_info(rec, *p);
            if unsure.contains(p) || info.closed_write.is_some() {
                // Only order / exactly-once on what was handled.
                let mut it = sent.iter();
                let mut ok = true;
                for g in got.iter() {
                    if !it.any(|s| s == g) {
                        ok = false;
                    }
                }
                if !ok && !unsure.contains(p) {
                    out.push(Violation::new("C14", "C14.command_order", "", format!("peer {p}: handled {:?} is not an in-order sub-sequence of sent {:?}", got, sent)));
                }
            } else if &got != sent {
                out.push(Violation::new("C14", "C14.command_exactly_once", "", format!("peer {p}: sent {:?} but handlers ran with {:?}", sent, got)));
            }
        }
    }

    // ---------------- C01 / C02: a well-formed command that a reliable remote sent to a value or map lane is applied
    // (the lane's own handlers report the value / the update), whatever characters its key contains.
    if let (Some(qs), true, false, true) = (q, clean_end, startup_deadlock(rec), sc.fake.is_none() && sc.fake_persist.is_none()) {
        let agent_up = rec.agent_ends.first().map(|e| e.as_ref().map(|e| e.step > qs).unwrap_or(true)).unwrap_or(false);
        let mut unsure: BTreeSet<u32> = rec.stuck_writers.iter().copied().collect();
        for s in rec.hist.sent.iter().filter(|s| s.epoch == 0) {
            if !s.ok || s.end > qs || matches!(s.op, Op::TornCmd { .. } | Op::CloseWrite) {
                unsure.insert(s.peer);
            }
        }
        if agent_up {
            for lane in ["val", "tval"] {
                let held: BTreeSet<i32> = value_truth(rec, 0, lane).iter().map(|(_, v)| *v).collect();
                for s in rec.hist.sent.iter().filter(|s| s.epoch == 0 && !unsure.contains(&s.peer)) {
                    if let Op::Cmd { lane: l, body } = &s.op {
                        if l == lane {
                            if let Ok(v) = body.trim().parse::<i32>() {
                                if !held.contains(&v) {
                                    out.push(Violation::new("C01", "C01.command_lost", "value", format!("peer {} sent {v} to lane {lane} (written completely at step {}) but the lane never held it", s.peer, s.end)));
                                }
                            }
                        }
                    }
                }
            }
            for lane in ["map", "bmap", "tmap", "smap"] {
                let (_, ops) = map_truth(rec, 0, lane);
                let updates: BTreeSet<(String, i32)> = ops.iter().filter_map(|(_, e)| if let MapEv::Update(k, v) = e { Some((k.clone(), *v)) } else { None }).collect();
                for s in rec.hist.sent.iter().filter(|s| s.epoch == 0 && !unsure.contains(&s.peer)) {
                    if let Op::Cmd { lane: l, body } = &s.op {
                        if l == lane {
                            if let Some(MapEv::Update(k, v)) = parse_map_event(lane, body.as_bytes()) {
                                if !updates.contains(&(k.clone(), v)) {
                                    out.push(Violation::new("C02", "C02.command_lost", "map", format!("peer {} sent update {k:?} -> {v} to lane {lane} (written completely at step {}) but the lane never made that update", s.peer, s.end)));
                                }
                            }
                        }
                    }
                }
            }
        }
    }

    // ---------------- C14: a command the agent sends from its on_stop handler is forwarded like any other.
    if clean_end && sc.fake.is_none() && sc.fake_persist.is_none() && rec.agent_ends.first().map(|e| e.as_ref().map(|e| e.result == "Ok").unwrap_or(false)).unwrap_or(false) {
        let sent_on_stop = rec.truth.first().map(|t| t.iter().any(|(_, e)| matches!(e, TruthEv::Sent { value, .. } if *value == super::model::ON_STOP_VALUE))).unwrap_or(false);
        if sent_on_stop {
            let arrived = rec.hist.target_frames.iter().any(|f| std::str::from_utf8(&f.body).ok().and_then(|t| t.trim().parse::<i32>().ok()) == Some(super::model::ON_STOP_VALUE));
            if !arrived {
                out.push(Violation::new("C14", "C14.sent_lost", "on_stop", format!("the command {} that the agent sent from its on_stop handler was never forwarded to its target", super::model::ON_STOP_VALUE)));
            }
        }
    }

    // ---------------- C14 agent-sent commands.
    if let (Some(qs), true) = (q, clean_end) {
        let mut sent: BTreeMap<i32, Vec<(i32, bool)>> = BTreeMap::new();
        let mut sent_steps: HashMap<(i32, i32), u64> = HashMap::new();
        let last_target_close: Option<u64> = rec.hist.target_closed.iter().map(|(s, _)| *s).max();
        if let Some(t) = rec.truth.first() {
            for (s, e) in t.iter() {
                if let TruthEv::Sent { target, overwrite, value } = e {
                    if *s <= qs {
                        sent_steps.insert((*target, *value), *s);
                        sent.entry(*target).or_default().push((*value, *overwrite));
                    }
                }
            }
        }
        let mut got: BTreeMap<i32, Vec<i32>> = BTreeMap::new();
        for f in rec.hist.target_frames.iter().filter(|f| f.step <= qs) {
            // Ad hoc targets are lanes t0..t2, registered commanders lanes r0, r1 (numbered 10, 11).
            let target = if let Some(n) = f.lane.strip_prefix('r') { n.parse::<i32>().map(|n| 10 + n).unwrap_or(-1) } else { f.lane.trim_start_matches('t').parse::<i32>().unwrap_or(-1) };
            match std::str::from_utf8(&f.body).ok().and_then(|t| t.parse::<i32>().ok()) {
                Some(v) => got.entry(target).or_default().push(v),
                None => out.push(Violation::new("C14", "C14.sent_corrupt", "", format!("target lane {}: body {:?}", f.lane, body_text(&f.body)))),
            }
        }
        for (target, g) in got.iter() {
            if !sent.contains_key(target) {
                out.push(Violation::new("C14", "C14.sent_invented", "", format!("target {target} received {:?} but nothing was sent to it", g)));
            }
        }
        for (target, s) in sent.iter() {
            let g = got.get(target).cloned().unwrap_or_default();
            let pos: HashMap<i32, usize> = s.iter().enumerate().map(|(i, (v, _))| (*v, i)).collect();
            let mut last: Option<usize> = None;
            let mut seen = BTreeSet::new();
            let mut bad = false;
            for v in g.iter() {
                match pos.get(v) {
                    None => {
                        out.push(Violation::new("C14", "C14.sent_invented", "", format!("target {target} received {v}, never sent to it")));
                        bad = true;
                    }
                    Some(i) => {
                        if !seen.insert(*v) {
                            out.push(Violation::new("C14", "C14.sent_duplicate", "", format!("target {target}: command {v} forwarded twice (received {:?})", g)));
                            bad = true;
                        } else if let Some(l) = last {
                            if *i < l {
                                out.push(Violation::new("C14", "C14.sent_order", "", format!("target {target}: command {v} arrived after a later one (received {:?})", g)));
                                bad = true;
                            }
                        }
                        last = Some(last.map(|l| l.max(*i)).unwrap_or(*i));
                    }
                }
            }
            if bad {
                continue;
            }
            for (i, (v, overwrite)) in s.iter().enumerate() {
                if !seen.contains(v) {
                    if let Some(closed) = last_target_close {
                        // A command handed over before the target closed its channel may have gone down with it; one
                        // sent afterwards was never attempted on a live channel and may not be dropped.
                        let sent_at = sent_steps.get(&(*target, *v)).copied().unwrap_or(0);
                        if sent_at > closed && !*overwrite {
                            out.push(Violation::new("C14", "C14.sent_lost", "after_target_closed", format!("target {target}: non-overwritable command {v}, sent at step {sent_at} after the target had closed its channel at step {closed}, was never forwarded (sent {:?}, received {:?})", s, g)));
                            break;
                        }
                        continue;
                    }
                    if !*overwrite {
                        out.push(Violation::new("C14", "C14.sent_lost", "queued", format!("target {target}: non-overwritable command {v} was never forwarded (sent {:?}, received {:?})", s, g)));
                        break;
                    } else if i + 1 == s.len() {
                        out.push(Violation::new("C14", "C14.sent_lost", "last", format!("target {target}: the last command {v} was dropped although nothing superseded it (received {:?})", g)));
                        break;
                    }
                }
            }
        }
    }

    // ---------------- C04: disconnection promises.
    if clean_end && rec.agent_ends.first().map(|e| e.is_some()).unwrap_or(false) {
        for (_, pid) in rec.hist.attached.iter().filter(|(_, p)| *p < 100) {
            if !rec.hist.disconnects.iter().any(|(_, p, _)| p == pid) {
                out.push(Violation::new("C04", "C04.promise_unfulfilled", "", format!("peer {pid}: the agent stopped but the disconnection promise was never completed")));
            }
        }
        for (_, pid, reason) in rec.hist.disconnects.iter() {
            if reason == "PromiseDropped" && rec.hist.attached.iter().any(|(_, p)| p == pid) {
                out.push(Violation::new("C04", "C04.promise_dropped", "", format!("peer {pid}: promise dropped without a reason after a clean stop")));
            }
        }
    }
    if clean_end && rec.quiescent_step.is_some() && !rec.step_limit_hit {
        match rec.agent_ends.first() {
            Some(Some(end)) => {
                if end.result != "Ok" && !rec.store_fault_fired {
                    out.push(Violation::new("C04", "C04.agent_failed", "", format!("agent ended with {}", end.result)));
                }
            }
            _ => {
                if rec.panics.is_empty() {
                    let kind = if startup_deadlock(rec) { "startup_deadlock" } else { "agent_never_stopped" };
                    out.push(Violation::new("C04", "C04.live", kind, format!("the agent did not stop after the stop trigger / timeout; live nodes {:?}", rec.live_at_end)));
                }
            }
        }
    }
    let _ = Ctl::Nop;
    // A lane that closed only its request channel (W-FAKEAGENT, `CloseInput`): grammar violations on that lane form
    // their own class.
    if let Some(plan) = rec.scenario.fake.as_ref().filter(|f| matches!(f.mode, super::fake::FailMode::CloseInput)) {
        let needle = format!(" lane {}: ", plan.lane);
        for v in out.iter_mut() {
            if v.property == "C04" && v.detail.contains(&needle) && matches!(v.rule.as_str(), "C04.unlinked_outside_link" | "C04.synced_outside_link" | "C04.event_outside_link" | "C04.linked_inside_link") {
                v.sig = format!("C04.lane_input_closed:{}", v.sig);
            }
        }
    }
    dedup(out)
}

fn f_last_step(frames: &[&Frame]) -> u64 {
    frames.last().map(|f| f.step).unwrap_or(0)
}

fn in_link_at(frames: &[&Frame], step: u64) -> bool {
    let mut open = false;
    for f in frames.iter().filter(|f| f.step <= step) {
        match f.kind {
            FrameKind::Linked => open = true,
            FrameKind::Unlinked(_) => open = false,
            _ => {}
        }
    }
    open
}

fn dedup(v: Vec<Violation>) -> Vec<Violation> {
    let mut seen = BTreeSet::new();
    let mut out = vec![];
    for x in v {
        if seen.insert((x.property.clone(), x.sig.clone())) {
            out.push(x);
        }
    }
    out
}

// ======================================================================================= C05

fn recon_i32(b: &[u8]) -> Option<i32> {
    std::str::from_utf8(b).ok().and_then(|t| parse_recognize::<i32>(t, false).ok())
}

fn recon_key(item: &str, b: &[u8]) -> Option<String> {
    let t = std::str::from_utf8(b).ok()?;
    if item == "smap" {
        parse_recognize::<String>(t, false).ok()
    } else {
        parse_recognize::<i32>(t, false).ok().map(|k| k.to_string())
    }
}

const PERSISTENT_VALUE_LANES: [&str; 1] = ["val"];
const PERSISTENT_MAP_LANES: [&str; 3] = ["map", "bmap", "smap"];

/// Persistence oracle: store-before-send during the run, and restoration after a restart.
pub fn check_persistence(rec: &RunRecord) -> Vec<Violation> {
    use super::store::StoreOp;
    let mut out = vec![];
    if !rec.scenario.knobs.persistent {
        return out;
    }
    // Decoded store log.
    #[derive(Debug)]
    enum Dec {
        Put(String, i32),
        Upd(String, String, i32),
        Rem(String, String),
        Clr(String),
        Other,
    }
    let mut log: Vec<(u64, Dec)> = vec![];
    for (step, op) in rec.store_log.iter() {
        let d = match op {
            StoreOp::Put { item, value } => match recon_i32(value) {
                Some(v) => Dec::Put(item.clone(), v),
                None => {
                    out.push(Violation::new("C05", "C05.store_garbage", "value", format!("put {item} with undecodable bytes {:?}", body_text(value))));
                    Dec::Other
                }
            },
            StoreOp::Update { item, key, value } => match (recon_key(item, key), recon_i32(value)) {
                (Some(k), Some(v)) => Dec::Upd(item.clone(), k, v),
                _ => {
                    out.push(Violation::new("C05", "C05.store_garbage", "map", format!("update {item} with undecodable bytes {:?} -> {:?}", body_text(key), body_text(value))));
                    Dec::Other
                }
            },
            StoreOp::Remove { item, key } => match recon_key(item, key) {
                Some(k) => Dec::Rem(item.clone(), k),
                None => Dec::Other,
            },
            StoreOp::Clear { item } => Dec::Clr(item.clone()),
            StoreOp::Delete { .. } => Dec::Other,
        };
        log.push((*step, d));
    }
    // Transient items must never reach the store.
    for (_, op) in rec.store_log.iter() {
        let item = match op {
            StoreOp::Put { item, .. } | StoreOp::Delete { item } | StoreOp::Update { item, .. } | StoreOp::Remove { item, .. } | StoreOp::Clear { item } => item,
        };
        let by_config = rec.scenario.knobs.all_lanes_transient && ["val", "map", "bmap", "smap"].contains(&item.as_str());
        if by_config || ["tval", "tmap", "tvstore", "sup", "cmd", "ctl"].contains(&item.as_str()) {
            out.push(Violation::new("C05", "C05.transient_persisted", item, format!("transient item {item} was handed to the store")));
        }
    }

    // ---- C05.before_send: every frame read for a persistent lane was handed to the store earlier.
    // (With every lane made transient by the agent configuration there is no persistent lane.)
    for f in rec.hist.frames.iter().filter(|_| !rec.scenario.knobs.all_lanes_transient) {
        let FrameKind::Event(body) = &f.kind else { continue };
        let epoch_base = if f.epoch == 0 { 0 } else { rec.restart_step.unwrap_or(0) };
        let _ = epoch_base;
        if PERSISTENT_VALUE_LANES.contains(&f.lane.as_str()) {
            let Some(v) = std::str::from_utf8(body).ok().and_then(|t| t.parse::<i32>().ok()) else { continue };
            // The initial / restored value is never re-sent to the store before it is published by a sync.
            let init = value_truth(rec, f.epoch as usize, &f.lane).first().map(|(_, v)| *v);
            let stored = log.iter().any(|(s, d)| *s < f.step && matches!(d, Dec::Put(i, pv) if i == &f.lane && *pv == v));
            if !stored && init != Some(v) {
                out.push(Violation::new("C05", "C05.before_send", "value", format!(
                    "peer {} read {} = {v} at step {} but no put_value of it had been handed to the store before", f.peer, f.lane, f.step)));
            }
        } else if PERSISTENT_MAP_LANES.contains(&f.lane.as_str()) {
            let Some(ev) = parse_map_event(&f.lane, body) else { continue };
            let (init, _) = map_truth(rec, f.epoch as usize, &f.lane);
            let stored = match &ev {
                MapEv::Update(k, v) => {
                    init.get(k) == Some(v) || log.iter().any(|(s, d)| *s < f.step && matches!(d, Dec::Upd(i, dk, dv) if i == &f.lane && dk == k && dv == v))
                }
                MapEv::Remove(k) => log.iter().any(|(s, d)| *s < f.step && matches!(d, Dec::Rem(i, dk) if i == &f.lane && dk == k)),
                MapEv::Clear => log.iter().any(|(s, d)| *s < f.step && matches!(d, Dec::Clr(i) if i == &f.lane)),
            };
            if !stored {
                out.push(Violation::new("C05", "C05.before_send", "map", format!(
                    "peer {} read {} {:?} at step {} but the operation had not been handed to the store before", f.peer, f.lane, ev, f.step)));
            }
        }
    }

    // ---- Restart.
    let (Some(img), Some(t1)) = (rec.store_at_restart.as_ref(), rec.truth.get(1)) else { return out };
    let restored = t1.iter().find_map(|(_, e)| match e {
        TruthEv::Restored { val, tval, vstore, tvstore, map, bmap, tmap, smap, mstore } => Some((*val, *tval, *vstore, *tvstore, map.clone(), bmap.clone(), tmap.clone(), smap.clone(), mstore.clone())),
        _ => None,
    });
    let Some((val, tval, vstore, tvstore, map, bmap, tmap, smap, mstore)) = restored else {
        // The second incarnation did not even start.
        // With an injected read error the restart may fail; it must not succeed with lost state (judged below).
        if !rec.restart_read_fault_fired && (rec.agent_ends.get(1).map(|e| e.is_some()).unwrap_or(false) || rec.quiescent2_step.is_some()) {
            out.push(Violation::new("C05", "C05.restart_failed", "", format!("the restarted agent never ran on_start: {:?}", rec.agent_ends.get(1))));
        }
        return out;
    };
    let img_val = |name: &str| img.values.get(name).and_then(|b| recon_i32(b));
    let img_map = |name: &str| -> BTreeMap<String, i32> {
        img.maps
            .get(name)
            .map(|m| m.iter().filter_map(|(k, v)| Some((recon_key(name, k)?, recon_i32(v)?))).collect())
            .unwrap_or_default()
    };
    let lanes_transient = rec.scenario.knobs.all_lanes_transient;
    for (name, got) in [("val", val), ("vstore", vstore)] {
        let want = if lanes_transient && name == "val" { 0 } else { img_val(name).unwrap_or(0) };
        if got != want {
            out.push(Violation::new("C05", "C05.restore_value", name, format!("{name} came back as {got} but the last value handed to the store was {want}")));
        }
    }
    let i32map = |m: &BTreeMap<i32, i32>| -> BTreeMap<String, i32> { m.iter().map(|(k, v)| (k.to_string(), *v)).collect() };
    for (name, got) in [("map", i32map(&map)), ("bmap", i32map(&bmap)), ("smap", smap.clone()), ("mstore", i32map(&mstore))] {
        // A transient lane restarts in the state it is constructed with.
        let constructed: BTreeMap<String, i32> = match (rec.scenario.knobs.initial_contents, name) {
            (true, "map") => [("900".to_string(), 800_001), ("901".to_string(), 800_002)].into_iter().collect(),
            (true, "bmap") => [("900".to_string(), 800_003)].into_iter().collect(),
            _ => BTreeMap::new(),
        };
        let want = if lanes_transient && name != "mstore" { constructed } else { img_map(name) };
        if got != want {
            out.push(Violation::new("C05", "C05.restore_map", name, format!("{name} came back as {:?} but the operations handed to the store imply {:?}", got, want)));
        }
    }
    if tval != 0 || tvstore != 0 || !tmap.is_empty() {
        out.push(Violation::new("C05", "C05.transient", "", format!("transient items came back as tval={tval} tvstore={tvstore} tmap={:?}", tmap)));
    }
    // Nothing restored is older than what a subscriber had already seen.
    let h0 = value_truth(rec, 0, "val");
    let idx = |v: i32| h0.iter().position(|(_, x)| *x == v);
    let seen_max = rec
        .hist
        .frames
        .iter()
        .filter(|f| f.epoch == 0 && f.lane == "val")
        .filter_map(|f| match &f.kind {
            FrameKind::Event(b) => std::str::from_utf8(b).ok().and_then(|t| t.parse::<i32>().ok()).and_then(idx),
            _ => None,
        })
        .max();
    if let (Some(seen), Some(back)) = (seen_max, idx(val)) {
        if back < seen && !lanes_transient {
            out.push(Violation::new("C05", "C05.not_older", "value", format!("val came back as {val} (index {back}) but a subscriber had already seen index {seen}")));
        }
    }
    // What the fresh peer observes after the restart is the restored state.
    let mut seen_val: Option<i32> = None;
    let mut seen_maps: BTreeMap<String, BTreeMap<String, i32>> = BTreeMap::new();
    let mut synced: BTreeSet<String> = BTreeSet::new();
    for f in rec.hist.frames.iter().filter(|f| f.epoch == 1) {
        match &f.kind {
            FrameKind::Event(b) => {
                if f.lane == "val" {
                    seen_val = std::str::from_utf8(b).ok().and_then(|t| t.parse::<i32>().ok());
                } else if MAP_LANES.contains(&f.lane.as_str()) {
                    if let Some(ev) = parse_map_event(&f.lane, b) {
                        apply(seen_maps.entry(f.lane.clone()).or_default(), &ev);
                    }
                }
            }
            FrameKind::Synced => {
                synced.insert(f.lane.clone());
            }
            _ => {}
        }
    }
    if rec.quiescent2_step.is_some() {
        if synced.contains("val") && seen_val != Some(val) {
            out.push(Violation::new("C05", "C05.restore_observed", "val", format!("after restart a sync of val gave {:?} but the lane was restored to {val}", seen_val)));
        }
        for (name, want) in [("map", i32map(&map)), ("bmap", i32map(&bmap)), ("smap", smap)] {
            if synced.contains(name) {
                let got = seen_maps.get(name).cloned().unwrap_or_default();
                if got != want {
                    out.push(Violation::new("C05", "C05.restore_observed", name, format!("after restart a sync of {name} gave {:?} but the lane was restored to {:?}", got, want)));
                }
            }
        }
    }
    dedup(out)
}


// ======================================================================================= dynamic lanes

/// Runs on a `ConnectorAgent` (focus DYN): peer 0 is the only writer, so the lanes' histories are the fold of its
/// command stream (take / drop in the documented key order). Judged: nothing a remote reads was invented, and at
/// quiescence every remote that linked, asked to sync and got `synced` holds exactly the lane's final state.
pub fn check_dynlanes(rec: &RunRecord) -> Vec<Violation> {
    let mut out = vec![];
    let sc = &rec.scenario;
    for p in &rec.panics {
        out.push(Violation::new("C04", "C04.panic", &p.node.trim_end_matches(char::is_numeric).to_string(), format!("node {} panicked at step {}: {}", p.node, p.step, p.message)));
    }
    let Some(qs) = rec.quiescent_step else { return out };
    if !matches!(sc.ending, Ending::Stop | Ending::Timeout) || rec.step_limit_hit {
        return out;
    }
    let agent_up = rec.agent_ends.first().map(|e| e.as_ref().map(|e| e.step > qs).unwrap_or(true)).unwrap_or(false);
    if !agent_up {
        out.push(Violation::new("C04", "C04.dyn.agent_ended", "", format!("the connector agent ended before quiescence: {:?}", rec.agent_ends.first())));
        return out;
    }
    // The writer's commands, in order; all of them must have been written completely.
    let writer_ok = rec.hist.sent.iter().filter(|s| s.peer == 0 && s.epoch == 0).all(|s| s.ok && s.end <= qs) && !rec.stuck_writers.contains(&0);
    let mut val: Option<i32> = None;
    let mut vals_sent: BTreeSet<i32> = BTreeSet::new();
    let mut map: BTreeMap<i32, i32> = BTreeMap::new();
    let mut pairs_sent: BTreeSet<(i32, i32)> = BTreeSet::new();
    for s in rec.hist.sent.iter().filter(|s| s.peer == 0 && s.epoch == 0 && s.ok) {
        if let Op::Cmd { lane, body } = &s.op {
            let b = body.trim();
            if lane == "val" {
                if let Ok(v) = b.parse::<i32>() {
                    val = Some(v);
                    vals_sent.insert(v);
                }
            } else if lane == "map" {
                if let Some(r) = b.strip_prefix("@take(").and_then(|r| r.strip_suffix(')')) {
                    if let Ok(n) = r.trim().parse::<usize>() {
                        let keep: Vec<i32> = map.keys().copied().take(n).collect();
                        map.retain(|k, _| keep.contains(k));
                    }
                } else if let Some(r) = b.strip_prefix("@drop(").and_then(|r| r.strip_suffix(')')) {
                    if let Ok(n) = r.trim().parse::<usize>() {
                        let gone: Vec<i32> = map.keys().copied().take(n).collect();
                        map.retain(|k, _| !gone.contains(k));
                    }
                } else {
                    match parse_map_event("map", b.as_bytes()) {
                        Some(MapEv::Update(k, v)) => {
                            if let Ok(k) = k.parse::<i32>() {
                                map.insert(k, v);
                                pairs_sent.insert((k, v));
                            }
                        }
                        Some(MapEv::Remove(k)) => {
                            if let Ok(k) = k.parse::<i32>() {
                                map.remove(&k);
                            }
                        }
                        Some(MapEv::Clear) => map.clear(),
                        None => {}
                    }
                }
            }
        }
    }
    let lanes_opened = rec.truth.first().map(|t| t.iter().filter(|(_, e)| matches!(e, TruthEv::Start)).count()).unwrap_or(0);
    if lanes_opened < 2 {
        out.push(Violation::new("C04", "C04.dyn.lanes_not_opened", "", format!("only {lanes_opened} of the 2 lanes requested in on_start were opened")));
        return out;
    }
    for peer in sc.peers.iter() {
        let info = peer_info(rec, peer.id);
        let reliable = info.closed_read.is_none() && info.closed_write.is_none() && !info.write_failed && !rec.frozen_peers.contains(&peer.id);
        for lane in ["val", "map"] {
            let frames: Vec<&Frame> = rec.hist.frames.iter().filter(|f| f.epoch == 0 && f.peer == peer.id && f.lane == lane && f.step <= qs).collect();
            // Nothing invented.
            for f in &frames {
                if let FrameKind::Event(body) = &f.kind {
                    if lane == "val" {
                        let t = std::str::from_utf8(body).unwrap_or("?").trim().to_string();
                        if !t.is_empty() {
                            match t.parse::<i32>() {
                                Ok(v) if vals_sent.contains(&v) => {}
                                _ => out.push(Violation::new("C01", "C01.dyn.invented", "value", format!("peer {} lane val: event body {t:?} at step {} is not a value the writer sent", peer.id, f.step))),
                            }
                        }
                    } else if let Some(MapEv::Update(k, v)) = parse_map_event("map", body) {
                        if !k.parse::<i32>().map(|k| pairs_sent.contains(&(k, v))).unwrap_or(false) {
                            out.push(Violation::new("C02", "C02.dyn.invented", "update", format!("peer {} lane map: update {k} -> {v} at step {} was never sent by the writer", peer.id, f.step)));
                        }
                    } else if parse_map_event("map", body).is_none() {
                        out.push(Violation::new("C02", "C02.dyn.invented", "undecodable", format!("peer {} lane map: undecodable event body {:?} at step {}", peer.id, body_text(body), f.step)));
                    }
                }
            }
            // Convergence of a remote that linked, synced and stayed.
            let asked_sync = peer.ops.iter().any(|o| matches!(o, Op::Sync { lane: l } if l == lane));
            let unlinked_itself = peer.ops.iter().any(|o| matches!(o, Op::Unlink { lane: l } if l == lane));
            let is_writer = peer.id == 0;
            let last_linked = frames.iter().rposition(|f| matches!(f.kind, FrameKind::Linked));
            let Some(start) = last_linked else { continue };
            let session = &frames[start..];
            if session.iter().any(|f| matches!(f.kind, FrameKind::Unlinked(_))) || unlinked_itself || !reliable || !writer_ok {
                continue;
            }
            let synced = session.iter().any(|f| matches!(f.kind, FrameKind::Synced));
            // The writer linked both lanes before its first command: it has seen every change.
            if !(is_writer || (asked_sync && synced)) {
                continue;
            }
            if lane == "val" {
                let last = session.iter().rev().find_map(|f| match &f.kind {
                    FrameKind::Event(b) => std::str::from_utf8(b).ok().and_then(|t| t.trim().parse::<i32>().ok()),
                    _ => None,
                });
                if val.is_some() && last != val {
                    out.push(Violation::new("C01", "C01.dyn.final", "", format!("peer {} lane val: last value received {:?} but the last value commanded is {:?} (dynamic lane of a connector agent)", peer.id, last, val)));
                }
            } else {
                let mut replica: BTreeMap<i32, i32> = BTreeMap::new();
                for f in session {
                    if let FrameKind::Event(b) = &f.kind {
                        match parse_map_event("map", b) {
                            Some(MapEv::Update(k, v)) => {
                                if let Ok(k) = k.parse::<i32>() {
                                    replica.insert(k, v);
                                }
                            }
                            Some(MapEv::Remove(k)) => {
                                if let Ok(k) = k.parse::<i32>() {
                                    replica.remove(&k);
                                }
                            }
                            Some(MapEv::Clear) => replica.clear(),
                            None => {}
                        }
                    }
                }
                if replica != map {
                    out.push(Violation::new("C02", "C02.dyn.replica", if is_writer { "writer" } else { "synced_reader" }, format!("peer {} lane map: replica {:?} but the writer's commands (take / drop in key order) add up to {:?} (dynamic lane of a connector agent)", peer.id, replica, map)));
                }
            }
        }
    }
    dedup(out)
}

// ======================================================================================= C20

/// Introspection oracle: at every idle point the reported uplink counts equal the number of
/// links that are open according to the frames the remotes have read; counters lose nothing.
pub fn check_reporting(rec: &RunRecord) -> Vec<Violation> {
    let mut out = vec![];
    if !rec.scenario.knobs.reporting || rec.hist.reports.is_empty() {
        return out;
    }
    // Peers whose view is unreliable from some step on.
    let mut unreliable_from: HashMap<u32, u64> = HashMap::new();
    for s in rec.hist.sent.iter().filter(|s| s.epoch == 0) {
        if matches!(s.op, Op::CloseRead | Op::CloseWrite | Op::TornCmd { .. }) || !s.ok {
            let e = unreliable_from.entry(s.peer).or_insert(s.start);
            *e = (*e).min(s.start);
        }
    }
    // Frozen peers have not read what was sent to them: unreliable until the drain.
    let drain = rec.drain_step.unwrap_or(u64::MAX);
    let frozen: HashMap<u32, u64> = rec.hist.freezes.iter().map(|(s, p)| (*p, *s)).collect();
    let end_of_clean_life = rec.stop_step.or(rec.crash_step).unwrap_or(u64::MAX);

    let mut steps: Vec<u64> = rec.hist.reports.iter().map(|r| r.step).collect();
    steps.sort();
    steps.dedup();
    for step in steps {
        if step > end_of_clean_life {
            continue;
        }
        // Links open at `step` according to the frames read.
        let mut sure: BTreeMap<String, u64> = BTreeMap::new();
        let mut maybe: BTreeMap<String, u64> = BTreeMap::new();
        let mut by_pl: BTreeMap<(u32, String), bool> = BTreeMap::new();
        for f in rec.hist.frames.iter().filter(|f| f.epoch == 0 && f.step <= step) {
            match f.kind {
                FrameKind::Linked => {
                    by_pl.insert((f.peer, f.lane.clone()), true);
                }
                FrameKind::Unlinked(_) => {
                    by_pl.insert((f.peer, f.lane.clone()), false);
                }
                _ => {}
            }
        }
        let mut any_uncertain_peer = false;
        for p in rec.scenario.peers.iter() {
            // A remote that is replaced under its id while attached, and the one that replaces it: the runtime drops the
            // links of the first at a moment neither of them sees, and answers what the first still asks for to the second.
            let in_duplicate = rec.scenario.peers.iter().any(|q| q.reattach_immediately && (q.id == p.id || q.reattach_of == Some(p.id)));
            let group = aliases(rec, p.id);
            let unreliable = in_duplicate || unreliable_from.get(&p.id).map(|u| *u <= step).unwrap_or(false) || frozen.get(&p.id).map(|fs| *fs <= step && step <= drain.saturating_add(1)).unwrap_or(false);
            if unreliable {
                any_uncertain_peer = true;
            }
            // Once the runtime has completed the disconnection promise of a remote it has removed it: none of its
            // links exists any more, whatever the remote itself has or has not read.
            let gone = rec.hist.disconnects.iter().any(|(s, pid, _)| *pid == p.id && *s < step);
            for lane in KNOWN_LANES.iter() {
                if gone {
                    continue;
                }
                let open = by_pl.get(&(p.id, lane.to_string())).copied().unwrap_or(false);
                if unreliable {
                    // Anything between 0 and "every lane it ever asked about" is possible.
                    let asked = rec.hist.sent.iter().any(|s| group.contains(&s.peer) && s.epoch == 0 && s.start <= step && matches!(&s.op, Op::Link { lane: l } | Op::Sync { lane: l } if l == lane));
                    if asked || open {
                        *maybe.entry(lane.to_string()).or_insert(0) += 1;
                    }
                } else if open {
                    *sure.entry(lane.to_string()).or_insert(0) += 1;
                }
            }
        }
        let mut total_lo = 0u64;
        let mut total_hi = 0u64;
        for lane in KNOWN_LANES.iter() {
            let lo = sure.get(*lane).copied().unwrap_or(0);
            let hi = lo + maybe.get(*lane).copied().unwrap_or(0);
            // A lane that has failed is gone (with its reporter); the runtime still accepts link
            // requests for it, which is outside the statement: such links may or may not be counted.
            let failed = rec.truth.first().map(|t| t.iter().any(|(s, e)| *s <= step && matches!(e, TruthEv::LaneFailed { item } if item == lane))).unwrap_or(false);
            total_lo += lo;
            total_hi += hi;
            if let Some(r) = rec.hist.reports.iter().find(|r| r.step == step && r.lane == *lane) {
                if r.link_count < lo || r.link_count > hi {
                    // (A lane that has failed: the runtime unlinks its remotes and goes on accepting link requests for
                    // it - the remotes are told `linked`; the statement covers lane failures, so those links count.)
                    let kind = if failed { "after_lane_failure" } else if any_uncertain_peer { "with_faulty_peer" } else { "all_healthy" };
                    out.push(Violation::new("C20", "C20.link_count", kind, format!(
                        "lane {lane}: reported {} uplinks at step {step} but {lo}..{hi} remotes are linked according to the frames they read", r.link_count)));
                }
            }
        }
        if let Some(r) = rec.hist.reports.iter().find(|r| r.step == step && r.lane == "<aggregate>") {
            if r.link_count < total_lo || r.link_count > total_hi {
                let any_failed_now = rec.truth.first().map(|t| t.iter().any(|(s, e)| *s <= step && matches!(e, TruthEv::LaneFailed { .. }))).unwrap_or(false);
                let kind = if any_failed_now { "after_lane_failure" } else if any_uncertain_peer { "with_faulty_peer" } else { "all_healthy" };
                out.push(Violation::new("C20", "C20.aggregate_link_count", kind, format!(
                    "agent: reported {} uplinks at step {step} but {total_lo}..{total_hi} links are open according to the frames read", r.link_count)));
            }
            // The aggregate must equal the sum of the lanes reported at the same instant.
            let sum: u64 = rec.hist.reports.iter().filter(|x| x.step == step && x.lane != "<aggregate>").map(|x| x.link_count).sum();
            let lanes_reported = rec.hist.reports.iter().filter(|x| x.step == step && x.lane != "<aggregate>").count();
            let any_failed = rec.truth.first().map(|t| t.iter().any(|(_, e)| matches!(e, TruthEv::LaneFailed { .. }))).unwrap_or(false);
            if lanes_reported == KNOWN_LANES.len() && sum != r.link_count {
                out.push(Violation::new("C20", "C20.aggregate_vs_lanes", if any_failed { "after_lane_failure" } else { "" }, format!("agent reports {} uplinks at step {step} but its lanes report {sum} in total", r.link_count)));
            }
        }
    }
    // Counters: sums of all snapshots up to quiescence.
    if let Some(qs) = rec.quiescent_step {
        let clean = matches!(rec.scenario.ending, Ending::Stop | Ending::Timeout) && rec.stuck_writers.is_empty() && unreliable_from.is_empty();
        for lane in KNOWN_LANES.iter().copied().chain(["<aggregate>"]) {
            let ev_sum: u64 = rec.hist.reports.iter().filter(|r| r.step <= qs && r.lane == lane).map(|r| r.event_count).sum();
            let cmd_sum: u64 = rec.hist.reports.iter().filter(|r| r.step <= qs && r.lane == lane).map(|r| r.command_count).sum();
            let frames: u64 = rec.hist.frames.iter().filter(|f| f.epoch == 0 && f.step <= qs && (lane == "<aggregate>" || f.lane == lane) && matches!(f.kind, FrameKind::Event(_))).count() as u64;
            if ev_sum < frames {
                out.push(Violation::new("C20", "C20.event_count", "lost", format!("{lane}: snapshots add up to {ev_sum} events but remotes read {frames} event frames")));
            }
            if clean {
                let cmds: u64 = rec.hist.sent.iter().filter(|s| s.epoch == 0 && s.ok && s.end <= qs).filter(|s| match &s.op {
                    Op::Cmd { lane: l, .. } | Op::BadCmd { lane: l, .. } => (lane == "<aggregate>" && KNOWN_LANES.contains(&l.as_str())) || l == lane,
                    _ => false,
                }).count() as u64;
                if cmd_sum != cmds {
                    out.push(Violation::new("C20", "C20.command_count", if cmd_sum < cmds { "lost" } else { "extra" }, format!("{lane}: snapshots add up to {cmd_sum} commands but {cmds} command envelopes were delivered")));
                }
            }
        }
    }
    // A lane that closed only its request channel (see `check`): the links the runtime told the remotes were closed are
    // still counted; link counts of such runs form their own class.
    if rec.scenario.fake.as_ref().map(|f| matches!(f.mode, super::fake::FailMode::CloseInput)).unwrap_or(false) {
        for v in out.iter_mut() {
            if matches!(v.rule.as_str(), "C20.link_count" | "C20.aggregate_link_count") {
                v.sig = format!("C20.lane_input_closed:{}", v.sig);
            }
        }
    }
    dedup(out)
}
