//! A `ConnectorAgent` (swimos_connector): an agent without derive-generated lanes whose lanes are opened while it runs
//! and resolved by *selectors*. The lifecycle opens a value lane `val` and a map lane `map` in `on_start`; commands to
//! them go through `decode_and_select_set` / `decode_shared_and_select_apply`, syncs through the `*SelectSync`
//! handlers, events through `ConnectorAgent::write_event`. There are no lifecycle callbacks for such lanes, so the
//! ground truth of these runs is the command stream of the single writing remote.

use swimos::agent::agent_lifecycle::HandlerContext;
use swimos::agent::event_handler::{ActionContext, EventHandler, HandlerActionExt, UnitHandler};
use swimos_agent::agent_lifecycle::item_event::ItemEvent;
use swimos_agent::agent_lifecycle::on_init::OnInit;
use swimos_agent::agent_lifecycle::on_start::OnStart;
use swimos_agent::agent_lifecycle::on_stop::OnStop;
use swimos_agent::agent_lifecycle::on_timer::OnTimer;
use swimos_agent::AgentMetadata;
use swimos_connector::ConnectorAgent;

use super::model::{SharedTruth, TruthEv};
use crate::core::exec::now_step;

#[derive(Clone)]
pub struct DynLifecycle {
    pub truth: SharedTruth,
}

impl DynLifecycle {
    fn rec(&self, ev: TruthEv) {
        self.truth.lock().unwrap().events.push((now_step(), ev));
    }
}

impl OnInit<ConnectorAgent> for DynLifecycle {
    fn initialize(&self, _action_context: &mut ActionContext<ConnectorAgent>, _meta: AgentMetadata, _context: &ConnectorAgent) {}
}

impl OnStart<ConnectorAgent> for DynLifecycle {
    fn on_start(&self) -> impl EventHandler<ConnectorAgent> + '_ {
        let context: HandlerContext<ConnectorAgent> = HandlerContext::default();
        let (me1, me2) = (self.clone(), self.clone());
        context
            .open_value_lane("val", move |r| {
                context.effect(move || {
                    if r.is_ok() {
                        me1.rec(TruthEv::Start);
                    }
                })
            })
            .followed_by(context.open_map_lane("map", move |r| {
                context.effect(move || {
                    if r.is_ok() {
                        me2.rec(TruthEv::Start);
                    }
                })
            }))
    }
}

impl OnStop<ConnectorAgent> for DynLifecycle {
    fn on_stop(&self) -> impl EventHandler<ConnectorAgent> + '_ {
        let context: HandlerContext<ConnectorAgent> = HandlerContext::default();
        let me = self.clone();
        context.effect(move || me.rec(TruthEv::Stop))
    }
}

impl OnTimer<ConnectorAgent> for DynLifecycle {
    fn on_timer(&self, _timer_id: u64) -> impl EventHandler<ConnectorAgent> + '_ {
        UnitHandler::default()
    }
}

impl ItemEvent<ConnectorAgent> for DynLifecycle {
    type ItemEventHandler<'a> = UnitHandler
    where
        Self: 'a;

    fn item_event<'a>(&'a self, _context: &ConnectorAgent, _item_name: &str) -> Option<Self::ItemEventHandler<'a>> {
        None
    }
}
